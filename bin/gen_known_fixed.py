#!/usr/bin/env python3
"""Rewrite the `fixed:` lines of known_findings.txt from /repo's `fix:` commits (hashes change when the
fix series is rebased); `known` JSON lines and the header comment are kept."""
import subprocess
M = [
 ("ZipCrypto reader decrypts only","C09","D1: ZipCryptoReaderValid::read decrypted the whole caller buffer, not the n bytes read; any short read of the underlying reader corrupted the rest of the entry (layers stream: short-read schedule on a ZipCrypto entry -> 'Invalid checksum'); also C15"),
 ("by_index/by_name return an error","C05","D2: by_index/by_name on an entry with an AES extra field but encryption flag clear panicked (unwrap of Ok(Err(InvalidPassword))); also C16"),
 ("reject the AES pseudo compression","C05","D3: compression method 99 reaching make_reader (streaming reader; AES extra with inner method 99) hit panic!(\"Compression method not supported\"); also C10"),
 ("AES entries shorter than","C05","D4: AesReader::new subtracted salt+2+10 from compressed_size unchecked -> overflow panic for short AES entries; also C16"),
 ("AES reader reports a truncated","C16","D9: AES entry whose declared size runs past end of stream: read returned Ok(0) with data outstanding, MAC never checked (AE-2 also skips CRC) -> truncated/inflated data returned as success; also C04"),
 ("stream visitor delivers","C10","D5: ZipStreamReader::visit never invoked visit_additional_metadata (first central signature already consumed); streaming extract never applied modes; also C07"),
 ("finish_file reports an inconsistent","C11","D6: after a failed seek while back-patching, finish_file computed file_end - stats.start with file_end < start -> panic, again in Drop -> abort"),
 ("dropping a streamed ZipFile","C11","D6b: Drop for a streamed ZipFile panicked when draining hit an I/O error"),
 ("reject file names and archive comments","C02","D7a: name/comment length >= 65536 narrowed with `as u16` -> finish() Ok and a corrupt archive"),
 ("extra field lengths are checked","C02","D7b: `20 + extra.len() as u16` (large_file local header) and `zip64_len + extra.len() as u16` (central) overflowed -> panic / wrapped length; also C17 (alignment pad >= 65512 with large_file)"),
 ("values of exactly 0xFFFFFFFF","C08","D8: size/offset exactly 0xFFFFFFFF next to a field needing ZIP64: writer used `>` while readers key on `== 0xFFFFFFFF` -> entry unreadable (z64.central us=0 cs=4294967295 hs=4294967296)"),
 ("Bzip2 compression level 0","C12","D10: compression_level(Some(0)) with Bzip2 passed the range check and panicked inside the bzip2 crate; also C01"),
 ("end_extra_data on a writer closed","C12","D11: failed switch_to inside end_extra_data left the writer closed but in extra-field mode; next call (incl. finish) panicked in get_plain"),
 ("zero-length reads of an entry","C09","D13: a zero-length read of a Zstd entry returned Err (Crc32Reader forwarded the empty buffer to the decoder) although the Read contract allows zero-length reads at any time (layers.entry ... bufs=0,4096 on a zstd entry)"),
 ("raw copies keep the source","C14","D15: raw copy kept only the nine permission bits of the source mode: a copied directory/symlink entry lost its type bits and a source with permission bits 000 ended up with no mode at all (rawcopy stream: destination mode None != Some(0o100000))"),
 ("new_append rejects a central directory","C05","D16: new_append accepted an archive whose (ZIP64) end record places the central directory beyond the end record (zero entries); finish() or merely dropping the writer then wrote the directory at that offset: 98 input bytes -> 4 GiB zero fill, larger offsets -> capacity-overflow panic / allocation abort (read.append bytes=504b06062c...; also C13)"),
 ("new_append keeps the data-descriptor flag","C02","D17 (K-A, flag part): new_append + finish re-emitted the central record of an existing data-descriptor entry WITHOUT flag bit 3 while the untouched local header keeps bit 3 and zero crc/sizes: local and central flags disagree (found by the independent strict parser on the append stream: `entry 0: local flags 0x0008 != central flags 0x0000`; minimal: append nothing onto a one-entry descriptor archive); also C13"),
 ("probing for the ZIP64 locator","C11","D18: get_directory_counts swallowed EVERY failure of the seek to the ZIP64 locator position (.is_ok()), so an injected/transient I/O error at exactly that call made ZipArchive::new fall back to the 16/32-bit end-record fields and return Ok with different entries (Lean witness Props.C11.probe_fault_zip64_wrong_success: 145-byte archive, fault at I/O call 13 -> Ok with 0 entries instead of 1; realistic: this crate's own output with >= 65536 entries -> the first 65535); found by the fault-transparency proof, which would not close at that call"),
 ("compressed-size limit of a non-large entry","C02","D19: update_local_file_header noticed an over-4-GiB COMPRESSED size of a non-large entry only after seeking into the local header and writing the CRC; it returned Err with the sink positioned inside the header and the writer still usable: write() then landed in the header and finish() reported success for an archive that does not open (z64.cguard usize=4294867296 extra=40: Deflate level 0 on zeros -> close=err write=ok finish=ok, reopen: invalid); found by the writer-layout proof (closing such an entry could not be given an invariant); also C08, C12"),
 ("new_append drops the inherited ZIP64","C13","D20: new_append kept each existing entry's ZIP64 extra record and finish() wrote a regenerated one in front of it; readers apply a ZIP64 record to every field whose value equals the 0xFFFFFFFF placeholder, so with a real size/offset of exactly 0xFFFFFFFF the inherited record was applied a second time with shifted fields: appending NOTHING turned (compressed 4294967295, uncompressed 5) into (5, 5); the copy also grew by one record per round (Lean witness finding_append_corrupts_thr_entry, replayed on the crate); found by the proof that appended archives stay readable, which needed the side condition 'no real value equals the placeholder'"),
 ("AES authentication code is verified before","C16","D12: AE-x entry with a compressing inner method: ciphertext tampered so that the decompressor reaches end-of-stream before the last ciphertext byte is pulled (BFINAL set in the first stored-deflate block of a >32 KiB entry) was returned as a successful truncated read; the authentication code was only verified in the read() that consumes the last ciphertext byte (aes.read ... flip-ct-first)"),
]
log = subprocess.run(["git", "-C", "/repo", "log", "--format=%h %s", "--reverse"], stdout=subprocess.PIPE).stdout.decode().splitlines()
lines = open("/verif/known_findings.txt").read().splitlines()
head = [l for l in lines if l.startswith("#")]
known = [l for l in lines if l.startswith("{")]
out = head + [""]
for l in log:
    h, subj = l.split(" ", 1)
    for k, p, w in M:
        if k in subj:
            out.append(f"fixed: property={p} {h} {w}")
out += [""] + known
open("/verif/known_findings.txt", "w").write("\n".join(out) + "\n")
print(len([l for l in out if l.startswith("fixed")]), "fixed,", len(known), "known")
