#!/usr/bin/env python3
"""Merge a helper's private copy into /verif: copy its new files, merge registrations."""
import os, re, shutil, subprocess, sys
src = sys.argv[1]          # e.g. /tmp/wa/c20/verif
files = sys.argv[2:]       # new files (relative) to copy
ROOT = "/verif"
for f in files:
    os.makedirs(os.path.dirname(os.path.join(ROOT, f)), exist_ok=True)
    shutil.copy2(os.path.join(src, f), os.path.join(ROOT, f))
    print("copied", f)
# Driver/Ops.lean: imports and handlers
def merge_ops():
    a = open(os.path.join(src, "lean/Driver/Ops.lean")).read()
    b = open(os.path.join(ROOT, "lean/Driver/Ops.lean")).read()
    for imp in re.findall(r"^import Driver\.Ops\.\w+$", a, re.M):
        if imp not in b:
            b = b.replace("/- Dispatch table", imp + "\n/- Dispatch table", 1)
    ha = re.search(r"\[(.*?)\]", a[a.index("def handlers"):], re.S).group(1)
    hb = re.search(r"\[(.*?)\]", b[b.index("def handlers"):], re.S).group(1)
    items_b = [x.strip() for x in re.findall(r"\(\"[^\"]+\",\s*\w+\)", hb)]
    for it in re.findall(r"\(\"[^\"]+\",\s*\w+\)", ha):
        if it.strip() not in items_b:
            items_b.append(it.strip())
    new = "[ " + ",\n    ".join(items_b) + " ]"
    i = b.index("def handlers"); j = b.index("[", i); k = b.index("]", j)
    b = b[:j] + new + b[k+1:]
    open(os.path.join(ROOT, "lean/Driver/Ops.lean"), "w").write(b)
def merge_mod():
    a = open(os.path.join(src, "harness/src/streams/mod.rs")).read()
    b = open(os.path.join(ROOT, "harness/src/streams/mod.rs")).read()
    for m in re.findall(r"^pub mod (\w+);$", a, re.M):
        if f"pub mod {m};" not in b:
            b = b.replace("pub mod dos;", f"pub mod dos;\npub mod {m};", 1)
    va = re.search(r"vec!\[(.*?)\]", a[a.index("pub fn all()"):], re.S).group(1)
    i = b.index("pub fn all()"); j = b.index("vec![", i); k = b.index("]", j)
    items = [x.strip() for x in b[j+5:k].split(",") if x.strip()]
    for it in [x.strip() for x in va.split(",") if x.strip()]:
        if it == "Box::new(write::WriteStream)":
            continue
        if it not in items:
            items.append(it)
    b = b[:j] + "vec![\n        " + ",\n        ".join(items) + ",\n    ]" + b[k+1:]
    open(os.path.join(ROOT, "harness/src/streams/mod.rs"), "w").write(b)
def merge_props():
    a = open(os.path.join(src, "bin/props.py")).read()
    b = open(os.path.join(ROOT, "bin/props.py")).read()
    for m in re.finditer(r'^    "(C\d+)": dict\(\n(.*?)^    \),\n', a, re.S | re.M):
        if f'"{m.group(1)}": dict(' not in b:
            b = b.replace("}\n\nALLOWED_AXIOMS", m.group(0) + "}\n\nALLOWED_AXIOMS", 1)
            print("props: added", m.group(1))
    open(os.path.join(ROOT, "bin/props.py"), "w").write(b)
merge_ops(); merge_mod(); merge_props()
