# Per-property configuration of bin/check: which Lean modules carry the property theorems, which
# Tie modules (obligations Gen.f = Model.f over the regenerated translation) it depends on, and which
# correspondence streams of the harness exercise it.
PROPS = {
    "C18": dict(
        props=["ZipVerif.Props.C18"],
        tie=["ZipVerif.Tie.DateTime"],
        streams=["dos"],
        title="Timestamps convert to and from DOS format without loss or panic",
        level_text="Lean 4 theorems over all 2^32 DOS words and all constructor arguments (unpack/pack mutually inverse, constructor accepts exactly the documented ranges, no-panic for every constructible value, calendar conversions mutually inverse); the model is tied to the source by regenerated translation of the four pure functions (Tie obligations) and by correspondence for the time-crate conversions",
        level_note="Gregorian validity inside the `time` crate is a parameter (modelled as Spec calendar, validated by correspondence over every date 1975-2112); translator and harness are trusted as stated in DESIGN.md section 7",
    ),
    "C20": dict(
        props=["ZipVerif.Props.C20"],
        tie=[],
        streams=["clones"],
        title="Cloned archive handles are independent and usable in parallel",
        level_text="Lean 4 theorem over a system model (immutable archive + one data_start cell per entry + per-handle reader position/open file): for every archive, every number of handles, all scripts and every merge order of ATOMIC steps (by_index split into header-parse / load-free store / seek; data_start() = one load; everything else handle-local) each handle observes exactly what it observes alone (interleave_independent, interleave_local, cells_inv, store_value_determined); the model is tied to the source by correspondence: all call-level interleavings of 2-3 clones x template scripts on one thread plus random scripts, compared step by step with the model, and an implementation-only oracle (interleaved = solo on a fresh clone)",
        level_note="partial w.r.t. real OS schedules and the memory model: the proof covers interleavings of single-location atomic steps (all a relaxed per-cell store/load needs); real multi-threaded runs are only observed by the clones.threads stress op (fresh archive per round, 2-32 threads, random orders/yields). `ZipArchive<R>: Send + Sync for R: Send + Sync` is decided by rustc through a compile-time assertion in the harness, rebuilt against the working tree on every run. Entry tables are read from the archive by driver glue; decoded content of deflated entries is given data",
    ),
    "C06": dict(
        props=["ZipVerif.Props.C06"],
        tie=[],
        streams=["paths"],
        title="Sanitised entry paths can never escape the extraction root",
        technique="Lean 4 proof over a model of the two accessors and of std::path components()/push() (Unix) + differential correspondence with the implementation through the public API (exhaustive enumeration in the thorough tier) + implementation-side oracle",
        level_text="Lean 4 theorems over every name (any length, any Unicode scalar values): enclosed_name answers Some exactly for NUL-free, relative names whose component walk never climbs above its start (enclosed_iff / enclosed_sound / enclosed_complete) and returns the name itself; lexical normalisation of base.join(result), defined as a stack machine, keeps every base as a prefix after every step (enclosed_join_inside, mangled_join_inside); mangled_name's PathBuf reads back as exactly the ordinary '/'-segments, in order, of the NUL-truncated name with '\\' read as '/' (mangled_spec), each non-empty, not '.'/'..', free of '/', '\\' and NUL (mangled_components_normal, mangled_relative); the depth counter cannot overflow (enclosed_depth_no_overflow). The model is tied to the source by correspondence through the public API (hand-built one-entry archive -> ZipArchive::by_index -> enclosed_name / mangled_name / sanitized_name, plus the streaming ZipFile and ZipFileData::file_name_sanitized), exhaustive in the thorough tier over the property's own enumeration (16.3 million names)",
        level_note="std::path::Path::components and PathBuf::push (Unix) are parameters: modelled in Model/Paths.lean and validated by the same exhaustive stream; Windows prefixes are out of scope (the property says host Unix semantics). The two functions are tied by correspondence, not by translation (they use str/Path iterators outside the translator's subset). ZipStreamFileMetadata::{enclosed_name, mangled_name} sit in a pub(crate) module that is not re-exported on the pinned tree, so they are unreachable from outside the crate; they are one-line calls of the same two ZipFileData functions",
    ),
    "C19": dict(
        props=["ZipVerif.Props.C19"],
        tie=["ZipVerif.Tie.Cp437"],
        streams=["text"],
        title="Names and comments decode by the flagged encoding; raw bytes are kept",
        level_text="Lean 4 theorems: the crate's CP437 table equals the Unicode consortium table (from CPython) on all 256 bytes and never panics; the ASCII fast path equals the table path; flag set -> lossy UTF-8 (maximal-subpart U+FFFD policy), flag clear -> CP437, total for every byte string, raw name kept verbatim; lossy and strict UTF-8 decoding invert encoding for every string of scalar values (unbounded induction) and strict decoding is sound; writer stores the UTF-8 bytes, sets the flag iff non-ASCII, and reads back the same string. to_char is tied by regenerated translation (kernel-checked over all 256 bytes); the decode branch, std's from_utf8_lossy and the writer path by correspondence",
        level_note="String::from_utf8_lossy / str::from_utf8 / String::as_bytes are std: modelled from the Unicode standard (table 3-7) and RFC 3629 and validated by correspondence (all 1- and 2-byte sequences in quick, all 3-byte sequences in thorough, edge-biased random strings up to 64 KiB). Names longer than 65535 bytes are rejected by the writer (theorem + correspondence); the archive bytes around the name fields (that the reader finds the name where the writer put it) are C01/C02's subject, exercised here by correspondence only",
    ),
    "C15": dict(
        props=["ZipVerif.Props.C15"],
        tie=["ZipVerif.Tie.ZipCrypto"],
        streams=["zc"],
        title="ZipCrypto entries: right password decrypts, none/wrong is refused",
        level_text="Lean 4 theorems for every password, payload, write pattern, CRC and key state: the crate's table is the CRC-32 table of 0xEDB88320 and its cipher is the APPNOTE 6.1 cipher (incl. `|2` vs `|3`); decryption inverts encryption; the writer's stored bytes are the APPNOTE encryption of (11 zero bytes, crc>>24, payload) and `buffer[11]` cannot panic; the right password validates and returns the payload (also for foreign entries under both check-byte rules, and for any split of the reads); no password -> password-required; password ignored on plain entries; validator choice; all 256 check-byte outcomes; a completed read under any password has the declared CRC-32. The cipher model is tied to the source by regenerated translation (CRCTABLE and all seven ZipCryptoKeys functions), reader/writer/open-time decisions by correspondence",
        level_note="the CRC gate is the C04 layer, modelled here in one line (`crcCheckedRead`) and validated by correspondence; compressors are parameters (the payload is the compressed byte string); `the plaintext does not appear in the file` is an oracle observation, not a theorem; translator and harness are trusted as stated in DESIGN.md section 7",
    ),
    "C17": dict(
        props=["ZipVerif.Props.C17"],
        tie=["ZipVerif.Tie.Extra"],
        streams=["align"],
        title="Aligned entries are aligned; extra data lands where requested",
        level_text="Lean 4 theorems over every alignment 0..65535, every header offset, name length and large_file setting: the pad aligns the data and is minimal, a successful start_file_aligned is aligned, its assert_eq!/u16 addition/subtractions are unreachable and it never panics, it is refused (InvalidData) exactly when the padding record plus the ZIP64 record exceeds 65535 bytes, the reader recomputes the same data start; validate_extra_data accepts exactly the APPNOTE 4.5 record sequences with user-writable IDs (iff), rejects truncated / ZIP64 / reserved records anywhere, never panics; shared/split/central-only extra data lands verbatim in the local header resp. the central record. Tied to the source by the regenerated EXTRA_FIELD_MAPPING table (Tie obligation) and by correspondence of the whole public call sequences (start_file_aligned, start_file_with_extra_data/write/end_local_start_central_extra_data/end_extra_data, ZipArchive read-back) against the model",
        level_note="the extra-data calls are modelled as a state machine over the open entry only (write.rs start_file_aligned / end_extra_data / validate_extra_data, read.rs find_content); the rest of ZipWriter (header serialisation, compression switch, central directory) and the archive-level reader are covered by correspondence here and modelled under C01/C02; offsets are assumed below 2^64 - 65585 for the no-panic statements; translator and harness are trusted as stated in DESIGN.md section 7",
    ),
    "C08": dict(
        props=["ZipVerif.Props.C08"],
        tie=["ZipVerif.Tie.Types"],
        streams=["z64"],
        title="Archives beyond the 16/32-bit limits stay correct (ZIP64)",
        level_text="Lean 4 theorems over all UInt64 values of sizes and offsets (no payload is materialised): the central ZIP64 record the writer emits is parsed back exactly by the reader's parse_extra_field in every subset of overflowing fields including values of exactly 0xFFFFFFFF; 32-bit fields hold the value or the marker; local ZIP64 record of large files; the 4 GiB guard (write past 4 GiB into a non-large entry errors and closes the writer, a closed writer never finishes, compressed-size overflow refused at back-patch). Tied by translation of thresholds / zip64_extension / version_needed (Tie.Types) and by record-level correspondence through the header hooks with arbitrary 64-bit values; real >4 GiB / >65535-entry archives over a sparse sink in the oracle (thorough)",
        level_note="archive-level ZIP64 round trip is C01/C03 instantiated at these records; the ZIP64 end-record thresholds inside finalize are covered by correspondence (z64.end, write stream) and by the writer-output theorem of C02 where proved; sparse-sink scenarios are implementation-side observations (the model cannot materialise 4 GiB lists)",
    ),
    "C04": dict(
        props=["ZipVerif.Props.C04"],
        tie=[],
        streams=["damage", "read"],
        title="A read that completes successfully returned uncorrupted data",
        level_text="Lean 4 theorems: for ANY inner reader and ANY schedule of caller buffer sizes (zeros included) a non-empty read of the CRC layer returning Ok(0) implies AE-2 or crc32(bytes returned) = declared (hasher = fold of the bytes returned, induction over the call list); corrupted Stored payloads / CRC fields / truncated payloads denote an error for every schedule and short-read behaviour; CRC-32 provably detects every single-byte substitution (bitwise, from the polynomial); the layer model is tied to the source by correspondence (function-level ops on Crc32Reader/Take through hooks and archive-level ops through the public API with bit-flip damage) and an implementation-only oracle using crc32fast",
        level_note="Crc32Reader/Take bodies are hand-modelled (Model/Layers.lean) and tied by differential testing, not by translation; decoders are a parameter (nothing assumed for soundness, the CRC layer is outermost); Spec.Crc32 = crc32fast by correspondence; AE-2 entries are exempt here and covered by C16",
    ),
    "C09": dict(
        props=["ZipVerif.Props.C09"],
        tie=[],
        streams=["layers", "read"],
        title="Results do not depend on how I/O is chunked",
        level_text="Lean 4 theorems over a schedule-free denotation of readers (every sequence of request sizes incl. zero, every short-read behaviour): Take, Crc32Reader, the fixed ZipCrypto reader and any count-preserving per-byte stateful transform map denotations to denotations, composed into the Stored (plain / ZipCrypto) entry pipelines end-to-end and into the compressed ones modulo an explicit codec hypothesis; EOF is sticky; read_exact and write_all are schedule independent; ZipWriter::write accounts exactly the accepted bytes so data, CRC and size are independent of sink short writes and of the caller's splitting; the pre-fix ZipCrypto reader is refuted on a concrete 2-call schedule; tied by correspondence over scripted short-read readers / short-write sinks (function level through hooks, archive level through the public API) plus an implementation-only oracle against the unchunked run",
        level_note="layer bodies are hand-modelled and tied by differential testing; flate2/bzip2/zstd chunk independence is an explicit hypothesis (Codec.ChunkIndependent), validated only by the oracle; the AES reader is modelled elsewhere (generic statefulMapLayer theorem provided), AES entries are oracle-only here; u64 counters are modelled as Nat",
    ),
    "C16": dict(
        props=["ZipVerif.Props.C16"],
        tie=["ZipVerif.Tie.Aes"],
        streams=["aes"],
        title="WinZip-AES entries decrypt correctly and tampering is detected",
        level_text="Lean 4 theorems modulo the cryptographic primitives (PBKDF2-HMAC-SHA1, the AES block function and HMAC-SHA1 are uninterpreted parameters; only their output lengths are assumed): the little-endian CTR key stream is chunking independent, involutive and byte i is byte i%16 of AES_k(le128(i/16+1)); with the right password every caller-buffer and short-read schedule returns exactly ct xor key stream for every length; no password -> password-required, wrong verifier -> InvalidPassword, too-short entry -> InvalidData, early end of the inner stream -> UnexpectedEof; any successful end-of-file of the AES reader on a non-empty entry implies that HMAC(all ciphertext)[0..10] was compared with the stored code and matched and that exactly data_length bytes were consumed (no delivery hypothesis), and the same at the level of ZipFile::read for every inner method and ANY decoder behaviour (entry_eof_implies_mac, aes_tamper_detected_entry: finish_crypto drains the AES reader at the decoder's end-of-file); the finalized assertion and every arithmetic panic are unreachable; CRC flag = (vendor version is AE-2). The model is tied to the source by the regenerated AesMode lengths / constants / method table (Tie obligations) and by correspondence of AesReaderValid::read, AesCtrZipKeyStream, the 0x9901 extra-field parse and the open-time decisions on entries built by the harness's own AE-x encryptor",
        level_note="HMAC unforgeability, PBKDF2 and AES themselves are parameters (oracle tables in the correspondence); decoders (flate2, bzip2, zstd) are arbitrary strategies in the entry-level theorems, assumed only to end their read call with an error when the reader below returns one; inflate is a table in the correspondence; empty entries never compare their code (stated as aes_empty_entry_no_mac); D12 (code unchecked at an early decoder end-of-file) was found by this property, is fixed in /repo and is kept as regression cases plus the pre-fix model witness; translator and harness are trusted as stated in DESIGN.md section 7",
    ),
    "C03": dict(
        props=["ZipVerif.Props.C03"],
        tie=[],
        streams=["read", "spec", "eocdwin"],
        title="Well-formed archives from other producers are read faithfully",
        level_text="Lean 4 theorems over EVERY layout of an independent APPNOTE producer (Spec.Zip.build: any number of entries, any prefix, gaps, every data-descriptor form, local headers disagreeing with the central ones, each of the 2^3 ZIP64 extended-information subsets per entry forced or needed, forced or needed ZIP64 end records, trailing bytes without ZIP64 records, foreign extra records, any host system/attributes/timestamps/flags): ZipArchive::new returns exactly the central directory's entries in order with the recorded values, offset() = prefix length, the comment (reader_on_wf); by_index_raw returns exactly the stored bytes from the data start computed out of the LOCAL header's lengths (reader_entry_raw); by_index returns the decoder's output gated by the central CRC, i.e. the original bytes for stored entries (reader_entry_read/_decoded/_stored); an unsupported method fails that entry only; lookup by name returns the last duplicate, absent names and out-of-range indices are FileNotFound; attributes map to the documented Unix mode. The reader model is tied to the source by correspondence (read stream: builder/writer/lying/truncated/random archives through the seekable and streaming readers); the format spec is tied to reality by the spec stream (Spec.Zip.build vs an independent Rust builder byte for byte; Spec.Zip.viewOf vs what the real crate reports; CPython zipfile on a sample)",
        level_note="hypotheses kept explicit: Fits (every value fits its field; sizes below 2^63), Readable (central extra data are well-formed records without the ZIP64/AES identifiers, method is not 99 - AES is C16), NoFalseSig (names/comments/trailing bytes do not embed an end-record signature where the reader probes; decidable, with sufficient-condition lemmas and a concrete counterexample showing the reader does go wrong without it). Decoders are parameters (Ext.decode; stored = identity is a hypothesis of reader_entry_stored). The model is hand-written (no translation tie for I/O code): agreement with the crate rests on the read stream",
    ),
    "C07": dict(
        props=["ZipVerif.Props.C07"],
        tie=[],
        streams=["fs"],
        title="extract() reproduces the tree and writes nothing outside the target",
        technique="Lean 4 proof over an abstract Unix filesystem (kernel path resolution through existing directories, mkdir/open/chmod/stat, std's create_dir_all algorithm, owner permission bits or superuser) and a model of both extractors + differential correspondence: every generated archive is extracted by the real crate into a fresh sandbox with a canary sibling and compared with the model's predicted result, tree, contents and modes + implementation-side oracle (nothing outside changed, unsafe name => error, plain consistent archives extract exactly)",
        level_text="proof about the filesystem MODEL; partial w.r.t. the real filesystem. Lean 4 theorems for both extractors (ZipArchive::extract, ZipStreamReader::extract), over every entry list, target directory and initial filesystem, including runs that end in an error: every binding the run adds to the write log is at a resolved path inside the target, or creates a missing ancestor of the target as a directory (extract_targets_inside), hence every path outside the target maps to the same node before and after (extract_confined, extract_confined_exact); an entry name rejected by enclosed_name makes the run fail, the first one reached with InvalidArchive and nothing done for it (extract_unsafe_errors, extract_unsafe_stops); under the decidable hypothesis Consistent (names safe and readable; file names end in an ordinary component; '/./'-terminated directory names only after '..'; no path needed both as file and as directory; superuser, or modes that keep owner write/search) on a fresh target the run succeeds and the final filesystem equals treeOf / treeOfStream: directories on the way exist with default modes, file paths hold exactly the entry bytes, recorded modes (low 12 bits) are applied, last duplicate wins (extract_faithful, extractStream_faithful). The model is tied to the source by correspondence (fs stream): 600 / 20000 archives per run against the real crate on the real filesystem, superuser and euid-65534 runs",
        level_note="real-filesystem behaviours outside the model are only observed by the sandbox comparison: symbolic links or mount points already present in the target, other owners / ACLs, name-length limits, ENOSPC, races. std::fs::create_dir_all, Path::join/parent/exists and the kernel's path walk are parameters modelled in Spec/FS.lean and validated by the same stream (e.g. create_dir_all(\"t/a/../b\") creates t/a as well; create_dir_all(\"t/a/.\") fails with ENOENT when t/a is missing). What the archive reader delivers per entry (name, bytes, errors, unix_mode) is input to the extractor model; the reader itself is C01/C05/C10's subject. Consistent is sufficient, not necessary (about a tenth of the generated inconsistent archives still extract exactly as treeOf says). Harness safety: every extraction runs in a child process chroot-jailed into a per-op sandbox, behind a name guard that refuses any op whose names could leave it, so a broken crate cannot touch the host filesystem",
    ),
}

ALLOWED_AXIOMS = {"propext", "Classical.choice", "Quot.sound"}

TRUSTED_BASE = [
    "Lean 4.33.0 kernel (re-checked by leanchecker in the thorough tier)",
    "axioms: propext, Classical.choice, Quot.sound only (audited with #print axioms on every run); no sorry, no native_decide, no bv_decide",
    "the statements in lean/ZipVerif/Props/*.lean and the Spec/Model definitions they mention",
    "rs2lean (translator: Rust subset semantics - checked arithmetic, `as` truncation, Wrapping) for items tied by translation",
    "the correspondence harness (harness/), its canonicaliser and the driver glue (lean/Driver) for items tied by correspondence - differential testing, bounded by generator quality",
    "external crates are parameters, not verified: flate2, bzip2, zstd, crc32fast, aes/hmac/sha1/pbkdf2, time, byteorder, std::io, std::path, std::fs",
]
