# Per-property configuration of bin/check: which Lean modules carry the property theorems, which
# Tie modules (obligations Gen.f = Model.f over the regenerated translation) it depends on, and which
# correspondence streams of the harness exercise it.
PROPS = {
    "C18": dict(
        props=["ZipVerif.Props.C18"],
        tie=["ZipVerif.Tie.DateTime"],
        streams=["dos"],
        title="Timestamps convert to and from DOS format without loss or panic",
    ),
}

ALLOWED_AXIOMS = {"propext", "Classical.choice", "Quot.sound"}

TRUSTED_BASE = [
    "Lean 4.33.0 kernel (re-checked by leanchecker in the thorough tier)",
    "axioms: propext, Classical.choice, Quot.sound only (audited with #print axioms on every run); no sorry, no native_decide, no bv_decide",
    "the statements in lean/ZipVerif/Props/*.lean and the Spec/Model definitions they mention",
    "rs2lean (translator: Rust subset semantics - checked arithmetic, `as` truncation, Wrapping) for items tied by translation",
    "the correspondence harness (harness/), its canonicaliser and the driver glue (lean/Driver) for items tied by correspondence - differential testing, bounded by generator quality",
    "external crates are parameters, not verified: flate2, bzip2, zstd, crc32fast, aes/hmac/sha1/pbkdf2, time, byteorder, std::io, std::path, std::fs",
]
