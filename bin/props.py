# Per-property configuration of bin/check: which Lean modules carry the property theorems, which
# Tie modules (obligations Gen.f = Model.f over the regenerated translation) it depends on, and which
# correspondence streams of the harness exercise it.
PROPS = {
    "C18": dict(
        props=["ZipVerif.Props.C18"],
        tie=["ZipVerif.Tie.DateTime"],
        streams=["dos"],
        title="Timestamps convert to and from DOS format without loss or panic",
        level_text="Lean 4 theorems over all 2^32 DOS words and all constructor arguments (unpack/pack mutually inverse, constructor accepts exactly the documented ranges, no-panic for every constructible value, calendar conversions mutually inverse); the model is tied to the source by regenerated translation of the four pure functions (Tie obligations) and by correspondence for the time-crate conversions",
        level_note="Gregorian validity inside the `time` crate is a parameter (modelled as Spec calendar, validated by correspondence over every date 1975-2112); translator and harness are trusted as stated in DESIGN.md section 7",
    ),
}

ALLOWED_AXIOMS = {"propext", "Classical.choice", "Quot.sound"}

TRUSTED_BASE = [
    "Lean 4.33.0 kernel (re-checked by leanchecker in the thorough tier)",
    "axioms: propext, Classical.choice, Quot.sound only (audited with #print axioms on every run); no sorry, no native_decide, no bv_decide",
    "the statements in lean/ZipVerif/Props/*.lean and the Spec/Model definitions they mention",
    "rs2lean (translator: Rust subset semantics - checked arithmetic, `as` truncation, Wrapping) for items tied by translation",
    "the correspondence harness (harness/), its canonicaliser and the driver glue (lean/Driver) for items tied by correspondence - differential testing, bounded by generator quality",
    "external crates are parameters, not verified: flate2, bzip2, zstd, crc32fast, aes/hmac/sha1/pbkdf2, time, byteorder, std::io, std::path, std::fs",
]
