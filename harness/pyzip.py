# Producer for the `read` stream (C03 F8): archives EMITTED by CPython's zipfile, one per output line.
# usage: python3 - <seed> <count>      (the harness feeds this file on stdin; include_str! in read.rs)
# line:  kind=<class> bytes=<hex> expect=<n;offset;comment;name:method:crc:len;...> pymeta=<per entry, ';'>
#        stream=<no|src|refuse>
# Everything after `bytes=` is what PYTHON SAYS IT WROTE (the ZipInfo objects of the writing ZipFile, the
# contents handed to it, zlib.crc32 of them) - nothing is read back from the bytes.
import io, random, sys, warnings, zipfile, zlib

warnings.simplefilter("ignore")
seed, count = int(sys.argv[1]), int(sys.argv[2])
R = random.Random(seed)


class Unseekable:
    """write-only sink without seek/tell: zipfile switches to data descriptors (flag bit 3)"""
    def __init__(self):
        self.buf = io.BytesIO()

    def write(self, b):
        return self.buf.write(b)

    def flush(self):
        pass


NAMES = ["a", "b.txt", "dir/c", "x y", "UPPER", "café.txt", "日本.txt", "deep/er/path.bin", "a"]
METHODS = [zipfile.ZIP_STORED, zipfile.ZIP_STORED, zipfile.ZIP_DEFLATED, zipfile.ZIP_DEFLATED, zipfile.ZIP_BZIP2, zipfile.ZIP_LZMA]


def content():
    k = R.randrange(6)
    if k == 0:
        return b""
    if k == 1:
        return bytes([R.randrange(256)])
    if k == 2:
        return bytes(R.randrange(256) for _ in range(R.randrange(2, 100)))
    if k == 3:
        return b"hello world hello world hello world\n" * R.randrange(1, 30)
    if k == 4:
        return bytes(R.randrange(1, 600))
    return bytes(R.randrange(256) for _ in range(R.randrange(100, 1500)))


def printable(n):
    return bytes(R.choice(b"abcdefghijklmnopqrstuvwxyz0123456789 .-_") for _ in range(n))


def one(kind):
    unseek = kind.startswith("unseekable")
    force = kind.endswith("force64")
    prefix = b""
    p = R.randrange(20)
    if p < 5:
        prefix = bytes(R.randrange(256) for _ in range(R.randrange(1, 300)))
    elif p == 5:
        prefix = bytes(R.randrange(256) for _ in range(R.randrange(30000, 65537)))
    # absolute = the archive is written at a non-zero position of the sink (recorded offsets include the
    # prefix, the reader's offset() is 0); otherwise the prefix is prepended afterwards (offset() = its length)
    absolute = bool(prefix) and not unseek and R.randrange(2) == 0
    sink = Unseekable() if unseek else io.BytesIO()
    if absolute:
        sink.write(prefix)
    zf = zipfile.ZipFile(sink, "w")
    n = R.choice([0, 1, 1, 2, 2, 3, 3, 4, 6])
    written = []
    lzma_used = False
    first_is_file = True
    for i in range(n):
        name = R.choice(NAMES) if R.randrange(4) else "".join(R.choice("abcdefghijklmnopqrstuvwxyz0123456789/._-") for _ in range(R.randrange(1, 40))).lstrip("/") or "z"
        if i > 0 and R.randrange(6) == 0:
            name = written[-1][0].filename          # duplicate name
        if not unseek and not force and R.randrange(10) == 0:
            d = name.rstrip("/") + "/"
            zf.mkdir(d, mode=R.choice([0o755, 0o700, 0o511]))
            written.append((zf.infolist()[-1], b""))
            if i == 0:
                first_is_file = False
            continue
        data = content()
        dt = (R.randrange(1980, 2108), R.randrange(1, 13), R.randrange(1, 29), R.randrange(24), R.randrange(60), R.randrange(60))
        zi = zipfile.ZipInfo(name, dt)
        zi.compress_type = R.choice(METHODS)
        lzma_used |= zi.compress_type == zipfile.ZIP_LZMA
        sysk = R.randrange(6)
        if sysk == 0:                                # DOS host
            zi.create_system = 0
            zi.external_attr = R.choice([0, 0x20, 0x01, 0x21, 0x10, 0x02])
        elif sysk == 1:                              # some other host
            zi.create_system = R.choice([7, 10, 19])
            zi.external_attr = R.randrange(1 << 32)
        else:
            zi.create_system = 3
            zi.external_attr = (0o100000 | R.randrange(1, 512)) << 16
        if R.randrange(4) == 0:
            zi.comment = printable(R.randrange(1, 40))
        if R.randrange(8) == 0:                      # an unknown extra record (same bytes in both headers)
            pl = bytes(R.randrange(256) for _ in range(R.randrange(12)))
            zi.extra = R.choice([0x5455, 0x7875, 0xcafe, 0x000a]).to_bytes(2, "little") + len(pl).to_bytes(2, "little") + pl
        if force or unseek or R.randrange(2):
            with zf.open(zi, "w", force_zip64=force) as w:
                k = R.randrange(1, 4)
                step = max(1, len(data) // k)
                for j in range(0, len(data), step):
                    w.write(data[j:j + step])
        else:
            zf.writestr(zi, data)
        written.append((zi, data))
    comment = b""
    c = R.randrange(6)
    if c == 0:
        comment = b"archive comment"
    elif c == 1:
        comment = printable(R.randrange(1, 300))
    zf.comment = comment
    zf.close()
    body = (sink.buf if unseek else sink).getvalue()
    whole = body if absolute else prefix + body
    shift = 0 if absolute else len(prefix)
    exp = [str(len(written)), str(shift), comment.hex() or "-"]
    meta = []
    for zi, data in written:
        raw = zi.filename.encode("ascii") if zi.filename.isascii() else zi.filename.encode("utf-8")
        exp.append("%s:%d:%d:%d" % (raw.hex(), zi.compress_type, zlib.crc32(data) & 0xFFFFFFFF, len(data)))
        y, mo, d, h, mi, s = zi.date_time
        if zi.create_system == 3:
            mode = "mode=%d" % (zi.external_attr >> 16) if zi.external_attr else "mode=none"
        elif zi.create_system == 0:
            if zi.external_attr == 0:
                mode = "mode=none"
            elif zi.external_attr & 1:
                mode = "perm=%d" % (0o555 if zi.external_attr & 0x10 else 0o444)
            else:
                mode = "mode=%d" % ((0o40775 if zi.external_attr & 0x10 else 0o100664))
        else:
            mode = "mode=none"
        meta.append(",".join(["t=%d-%d-%d-%d-%d-%d" % (y, mo, d, h, mi, s // 2 * 2), mode, "comment=" + (zi.comment.hex() or "-"),
                              "hs=%d" % (zi.header_offset + shift), "cs=%d" % zi.compress_size, "us=%d" % zi.file_size, "crc=%d" % zi.CRC,
                              "bit3=%d" % (1 if zi.flag_bits & 8 else 0)]))
    stream = "no"
    if not prefix and not lzma_used and written:
        if not unseek:
            stream = "src"
        elif first_is_file:
            stream = "refuse"
    print("kind=%s bytes=%s expect=%s pymeta=%s stream=%s" % (kind, whole.hex() or "-", ";".join(exp), ";".join(meta) or "-", stream))


KINDS = ["seekable", "seekable", "seekable", "unseekable", "unseekable", "seekable.force64", "unseekable.force64"]
for i in range(count):
    one(KINDS[i % len(KINDS)])
