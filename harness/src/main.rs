//! Correspondence + oracle harness for the Lean model of zip-rs/zip.
//!
//!   zvh gen <stream> --seed N --tier quick|thorough --out DIR
//!       writes DIR/<stream>.ops (requests), DIR/<stream>.impl (implementation responses) and
//!       DIR/<stream>.meta.json (distribution, oracle failures)
//!   zvh run <stream>            requests on stdin → implementation responses on stdout (replay)
//!   zvh fs-child …              internal: one extraction inside a chroot jail (spawned by the `fs` stream)
mod mem;
mod mkzip;
mod pkware;
mod prng;
mod strict;
mod streams;
mod util;

use std::collections::{BTreeMap, HashSet};

#[global_allocator]
static GLOBAL: mem::Counting = mem::Counting;
use std::io::{BufRead, Write};

/// Watchdog: a case (implementation run + oracle) that does not come back within the limit is a hang of the
/// implementation (or of the oracle's re-run of it). The process reports it and exits with status 97; `bin/check`
/// takes the last line of the (flushed) ops file as the failing input.
mod watchdog {
    use std::sync::atomic::{AtomicU64, Ordering::Relaxed};
    use std::sync::Mutex;
    static START_MS: AtomicU64 = AtomicU64::new(0);
    static SERIAL: AtomicU64 = AtomicU64::new(0);
    static ABORT_FILE: Mutex<Option<String>> = Mutex::new(None);
    fn now_ms() -> u64 {
        std::time::SystemTime::now().duration_since(std::time::UNIX_EPOCH).map(|d| d.as_millis() as u64).unwrap_or(1)
    }
    pub fn begin() { SERIAL.fetch_add(1, Relaxed); START_MS.store(now_ms().max(1), Relaxed); }
    pub fn end() { START_MS.store(0, Relaxed); }
    pub fn spawn(limit_s: u64, abort_file: Option<String>) {
        *ABORT_FILE.lock().unwrap() = abort_file;
        std::thread::spawn(move || loop {
            std::thread::sleep(std::time::Duration::from_millis(200));
            let s = START_MS.load(Relaxed);
            if s != 0 && now_ms().saturating_sub(s) > limit_s * 1000 {
                let msg = format!("hang: the case did not return within {limit_s} s (case #{})", SERIAL.load(Relaxed));
                eprintln!("ORACLE {msg}");
                if let Some(p) = ABORT_FILE.lock().unwrap().as_ref() { let _ = std::fs::write(p, &msg); }
                std::process::exit(97);
            }
        });
    }
}

fn main() {
    if std::env::var("ZVH_DEBUG").is_err() {
        std::panic::set_hook(Box::new(|_| {}));
    }
    let args: Vec<String> = std::env::args().collect();
    if args.len() >= 2 && args[1] == "fs-child" {
        // jailed extraction child of the `fs` stream (see streams/fs.rs)
        std::process::exit(streams::fs::child_main(&args[2..]));
    }
    if args.len() < 3 {
        eprintln!("usage: zvh gen|run <stream> [--seed N] [--tier T] [--out DIR]");
        std::process::exit(2);
    }
    let streams = streams::all();
    let st = match streams.iter().find(|s| s.name() == args[2]) {
        Some(s) => s,
        None => {
            eprintln!("unknown stream {}", args[2]);
            std::process::exit(2);
        }
    };
    let mut seed = 0u64;
    let mut tier = "quick".to_string();
    let mut out = ".".to_string();
    let mut extra: Vec<String> = vec![];
    let mut i = 3;
    while i < args.len() {
        match args[i].as_str() {
            "--seed" => { seed = args[i + 1].parse().unwrap_or(0); i += 2; }
            "--tier" => { tier = args[i + 1].clone(); i += 2; }
            "--out" => { out = args[i + 1].clone(); i += 2; }
            "--corpus" => { extra.push(args[i + 1].clone()); i += 2; }
            _ => { i += 1; }
        }
    }
    let limit_s: u64 = std::env::var("VERIF_CASE_TIMEOUT_S").ok().and_then(|v| v.parse().ok())
        .unwrap_or(if tier == "thorough" { 900 } else { 60 });
    match args[1].as_str() {
        "run" => {
            watchdog::spawn(limit_s, None);
            let stdin = std::io::stdin();
            let stdout = std::io::stdout();
            let mut o = stdout.lock();
            for line in stdin.lock().lines() {
                let line = line.unwrap();
                if line.trim().is_empty() { continue; }
                watchdog::begin();
                let resp = st.run(&line);
                writeln!(o, "{resp}").unwrap();
                o.flush().unwrap();
                for f in st.oracle(&line, &resp) {
                    eprintln!("ORACLE {}", f.what);
                }
                watchdog::end();
            }
        }
        "gen" => {
            let t0 = std::time::Instant::now();
            let mut g = st.gen(seed, &tier);
            // corpus lines (minimised past failures) run first
            let mut ops: Vec<String> = vec![];
            for c in &extra {
                if let Ok(s) = std::fs::read_to_string(c) {
                    for l in s.lines() {
                        if !l.trim().is_empty() && !l.starts_with('#') { ops.push(l.to_string()); }
                    }
                }
            }
            let n_corpus = ops.len();
            ops.append(&mut g.ops);
            std::fs::create_dir_all(&out).unwrap();
            let name = st.name();
            let mut fo = std::io::BufWriter::new(std::fs::File::create(format!("{out}/{name}.ops")).unwrap());
            let mut fi = std::io::BufWriter::new(std::fs::File::create(format!("{out}/{name}.impl")).unwrap());
            let mut distinct: HashSet<u64> = HashSet::new();
            let mut nontrivial = 0u64;
            let mut classes: BTreeMap<String, u64> = BTreeMap::new();
            let mut failures: Vec<(usize, String, String, String)> = vec![];
            let mut fail_kinds: BTreeMap<String, u32> = BTreeMap::new();
            let _ = std::fs::remove_file(format!("{out}/{name}.abort"));
            let _ = std::fs::remove_file(format!("{out}/{name}.meta.json"));
            watchdog::spawn(limit_s, Some(format!("{out}/{name}.abort")));
            for (idx, line) in ops.iter().enumerate() {
                // the request is on disk before the implementation sees it: if the process dies on it (abort,
                // allocation failure, stack overflow, watchdog), the last line of the ops file is the culprit
                writeln!(fo, "{line}").unwrap();
                fo.flush().unwrap();
                watchdog::begin();
                let resp = st.run(line);
                writeln!(fi, "{resp}").unwrap();
                let mut h: u64 = 0xcbf29ce484222325;
                for b in line.bytes() { h ^= b as u64; h = h.wrapping_mul(0x100000001b3); }
                if distinct.insert(h) && st.nontrivial(line, &resp) { nontrivial += 1; }
                let cls = resp.split(' ').next().unwrap_or("").to_string();
                let cls = if cls.len() > 24 { cls[..24].to_string() } else { cls };
                *classes.entry(format!("resp.{cls}")).or_insert(0) += 1;
                for f in st.oracle(line, &resp) {
                    // at most 50 failures per KIND of message (text before the first ':'), 600 in all: a frequent known
                    // finding (K-D, D14) must not use up the list and push a different failure out of sight
                    let kind: String = f.what.split(':').next().unwrap_or("").chars().take(40).collect();
                    let n = fail_kinds.entry(kind).or_insert(0u32);
                    *n += 1;
                    if *n <= 50 && failures.len() < 600 { failures.push((idx, line.clone(), resp.clone(), f.what)); }
                }
                watchdog::end();
            }
            fo.flush().unwrap();
            fi.flush().unwrap();
            for (k, v) in st.stats() {
                g.dist.insert(k, v);
            }
            let mut js = String::from("{");
            js += &format!("\"stream\":{},", util::json_str(name));
            js += &format!("\"seed\":{seed},\"tier\":{},", util::json_str(&tier));
            js += &format!("\"evaluations\":{},\"distinct\":{},\"distinct_nontrivial\":{},\"corpus\":{},", ops.len(), distinct.len(), nontrivial, n_corpus);
            js += &format!("\"exhaustive\":{},\"rule\":{},", g.exhaustive, util::json_str(&g.rule));
            js += "\"dist\":{";
            let mut first = true;
            for (k, v) in g.dist.iter().chain(classes.iter()) {
                if !first { js += ","; }
                first = false;
                js += &format!("{}:{}", util::json_str(k), v);
            }
            js += "},\"samples\":[";
            let step = (ops.len() / 5).max(1);
            let mut first = true;
            for l in ops.iter().step_by(step).take(6) {
                if !first { js += ","; }
                first = false;
                let s = if l.len() > 400 { format!("{}…", &l[..400]) } else { l.clone() };
                js += &util::json_str(&s);
            }
            js += "],\"oracle_failures\":[";
            let mut first = true;
            for (idx, l, r, w) in &failures {
                if !first { js += ","; }
                first = false;
                js += &format!("{{\"index\":{idx},\"line\":{},\"resp\":{},\"what\":{}}}", util::json_str(l), util::json_str(r), util::json_str(w));
            }
            js += &format!("],\"wall_s\":{:.3}}}", t0.elapsed().as_secs_f64());
            std::fs::write(format!("{out}/{name}.meta.json"), js).unwrap();
        }
        _ => {
            eprintln!("unknown command");
            std::process::exit(2);
        }
    }
}
