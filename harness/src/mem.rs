//! Counting global allocator: current and peak bytes requested from the system allocator.
//! Used by the `read.*` oracles to MEASURE (not prove) the peak heap while opening an archive.
use std::alloc::{GlobalAlloc, Layout, System};
use std::sync::atomic::{AtomicUsize, Ordering::Relaxed};

pub struct Counting;

static CUR: AtomicUsize = AtomicUsize::new(0);
static PEAK: AtomicUsize = AtomicUsize::new(0);

#[inline]
fn add(n: usize) {
    let c = CUR.fetch_add(n, Relaxed) + n;
    PEAK.fetch_max(c, Relaxed);
}

unsafe impl GlobalAlloc for Counting {
    unsafe fn alloc(&self, l: Layout) -> *mut u8 {
        let p = System.alloc(l);
        if !p.is_null() {
            add(l.size());
        }
        p
    }
    unsafe fn alloc_zeroed(&self, l: Layout) -> *mut u8 {
        let p = System.alloc_zeroed(l);
        if !p.is_null() {
            add(l.size());
        }
        p
    }
    unsafe fn dealloc(&self, p: *mut u8, l: Layout) {
        System.dealloc(p, l);
        CUR.fetch_sub(l.size(), Relaxed);
    }
    unsafe fn realloc(&self, p: *mut u8, l: Layout, new_size: usize) -> *mut u8 {
        let q = System.realloc(p, l, new_size);
        if !q.is_null() {
            if new_size >= l.size() {
                add(new_size - l.size());
            } else {
                CUR.fetch_sub(l.size() - new_size, Relaxed);
            }
        }
        q
    }
}

/// Run `f`; returns its result, the peak number of heap bytes requested above the level at entry
/// (what `f` itself allocated at its worst moment), and the wall time in microseconds.
/// Meaningful only while no other thread allocates (the harness streams are single-threaded).
pub fn measure<T>(f: impl FnOnce() -> T) -> (T, usize, u128) {
    let base = CUR.load(Relaxed);
    PEAK.store(base, Relaxed);
    let t0 = std::time::Instant::now();
    let r = f();
    let dt = t0.elapsed().as_micros();
    let peak = PEAK.load(Relaxed);
    (r, peak.saturating_sub(base), dt)
}
