//! Independent reference builder for ZIP archives, written from APPNOTE 6.3.x (shares no code with
//! the crate).  A `Layout` describes exactly which bytes go where; `build` lays them out.  Optional
//! "lie" overrides make internally consistent-looking but false headers for the adversarial streams.
#![allow(dead_code)]

#[derive(Clone, Copy, PartialEq, Debug)]
pub enum Desc {
    None,
    Sig32,
    NoSig32,
    Sig64,
    NoSig64,
}

#[derive(Clone, Debug)]
pub struct Entry {
    pub name: Vec<u8>,
    pub flags: u16,
    pub method: u16,
    pub time: u16,
    pub date: u16,
    pub crc: u32,
    /// bytes as stored in the archive (already compressed / encrypted)
    pub data: Vec<u8>,
    pub usize_: u64,
    pub local_extra: Vec<u8>,
    pub central_extra: Vec<u8>,
    pub comment: Vec<u8>,
    pub made_by: u16,
    pub version_needed: u16,
    pub ext_attrs: u32,
    pub int_attrs: u16,
    pub descriptor: Desc,
    /// local header: sizes as 0xFFFFFFFF + ZIP64 extra record holding both
    pub zip64_local: bool,
    /// central header: force (usize, csize, offset) into the ZIP64 extra record
    pub zip64_central: (bool, bool, bool),
    pub gap_before: Vec<u8>,
    /// index among the records of `central_extra` in front of which the central ZIP64 record is placed
    /// (0 = first, the usual place; clamped to the number of records)
    pub zip64_central_pos: usize,
    /// append the 4-byte "disk start number" to the central ZIP64 record (APPNOTE 4.5.3; the 16-bit disk
    /// field of the header then holds 0xFFFF); the record exists even when no other field needs it
    pub zip64_disk: Option<u32>,
    /// bytes between the previous central record (or the start of the directory) and this one - NOT allowed
    /// by APPNOTE 4.3.6 (the directory is a contiguous run of records); adversarial streams only
    pub cd_gap_before: Vec<u8>,
    /// version-needed written in the LOCAL header when it differs from the central one
    pub local_version: Option<u16>,
    // --- lies (None = truthful) ---
    pub lie_central_csize: Option<u64>,
    pub lie_central_usize: Option<u64>,
    pub lie_central_offset: Option<u64>,
    pub lie_local_name_len: Option<u16>,
    pub lie_local_extra_len: Option<u16>,
    pub lie_central_name_len: Option<u16>,
    pub lie_central_extra_len: Option<u16>,
    pub lie_central_comment_len: Option<u16>,
    pub local_name: Option<Vec<u8>>,
    pub local_sig: u32,
    pub central_sig: u32,
}

impl Entry {
    pub fn stored(name: &[u8], content: &[u8]) -> Entry {
        Entry {
            name: name.to_vec(),
            flags: 0,
            method: 0,
            time: 0,
            date: 0x21,
            crc: crc32fast::hash(content),
            data: content.to_vec(),
            usize_: content.len() as u64,
            local_extra: vec![],
            central_extra: vec![],
            comment: vec![],
            made_by: (3 << 8) | 20,
            version_needed: 20,
            ext_attrs: 0o100644 << 16,
            int_attrs: 0,
            descriptor: Desc::None,
            zip64_local: false,
            zip64_central: (false, false, false),
            gap_before: vec![],
            zip64_central_pos: 0,
            zip64_disk: None,
            cd_gap_before: vec![],
            local_version: None,
            lie_central_csize: None,
            lie_central_usize: None,
            lie_central_offset: None,
            lie_local_name_len: None,
            lie_local_extra_len: None,
            lie_central_name_len: None,
            lie_central_extra_len: None,
            lie_central_comment_len: None,
            local_name: None,
            local_sig: 0x04034b50,
            central_sig: 0x02014b50,
        }
    }
}

#[derive(Clone, Debug)]
pub struct Layout {
    pub prefix: Vec<u8>,
    pub entries: Vec<Entry>,
    pub comment: Vec<u8>,
    pub zip64_eocd: bool,
    pub trailing: Vec<u8>,
    pub gap_before_cd: Vec<u8>,
    /// the order in which the central directory lists the entries (indices into `entries`, which stay in
    /// LOCAL order); `None` = the same order
    pub cd_order: Option<Vec<usize>>,
    /// next to a forced ZIP64 end record the plain end record keeps the real count / size / offset wherever
    /// they fit (producers that write the ZIP64 records unconditionally) instead of the 0xFFFF.. markers
    pub eocd_unsaturated: bool,
    /// extensible data sector of the ZIP64 end record (APPNOTE 4.3.14; its size field = 44 + this length)
    pub end64_ext: Vec<u8>,
    /// bytes between the last central record and the end records - a reader cannot tell this from a prefix
    /// (offset + size of the directory no longer reach the end record); adversarial streams only
    pub gap_before_end: Vec<u8>,
    /// (version made by, version needed) of the ZIP64 end record
    pub end64_versions: (u16, u16),
    // lies on the end records
    pub lie_count: Option<u64>,
    pub lie_cd_size: Option<u64>,
    pub lie_cd_offset: Option<u64>,
    pub lie_comment_len: Option<u16>,
    pub lie_disk: Option<(u16, u16)>,
    pub lie_locator_offset: Option<u64>,
    pub lie_eocd64_disks: Option<(u32, u32)>,
    /// offsets recorded in headers are relative to the start of the archive proper (after the prefix)
    pub offsets_include_prefix: bool,
}

impl Layout {
    pub fn new(entries: Vec<Entry>) -> Layout {
        Layout {
            prefix: vec![],
            entries,
            comment: vec![],
            zip64_eocd: false,
            trailing: vec![],
            gap_before_cd: vec![],
            cd_order: None,
            eocd_unsaturated: false,
            end64_ext: vec![],
            gap_before_end: vec![],
            end64_versions: (45, 45),
            lie_count: None,
            lie_cd_size: None,
            lie_cd_offset: None,
            lie_comment_len: None,
            lie_disk: None,
            lie_locator_offset: None,
            lie_eocd64_disks: None,
            offsets_include_prefix: false,
        }
    }
}

fn p16(v: &mut Vec<u8>, x: u16) {
    v.extend_from_slice(&x.to_le_bytes());
}
fn p32(v: &mut Vec<u8>, x: u32) {
    v.extend_from_slice(&x.to_le_bytes());
}
fn p64(v: &mut Vec<u8>, x: u64) {
    v.extend_from_slice(&x.to_le_bytes());
}

pub struct Built {
    pub bytes: Vec<u8>,
    /// per entry: (local header offset in the file, data start offset in the file)
    pub offsets: Vec<(u64, u64)>,
    pub cd_offset: u64,
    pub eocd_offset: u64,
}

pub fn build(l: &Layout) -> Built {
    let mut out: Vec<u8> = l.prefix.clone();
    let base = if l.offsets_include_prefix { 0 } else { l.prefix.len() as u64 };
    let mut offsets = vec![];
    let mut rel_offsets = vec![];
    for e in &l.entries {
        out.extend_from_slice(&e.gap_before);
        let hstart = out.len() as u64;
        rel_offsets.push(hstart - base);
        let desc = e.descriptor != Desc::None;
        let flags = e.flags | if desc { 8 } else { 0 };
        let csize = e.data.len() as u64;
        let mut extra = vec![];
        if e.zip64_local {
            p16(&mut extra, 1);
            p16(&mut extra, 16);
            p64(&mut extra, if desc { 0 } else { e.usize_ });
            p64(&mut extra, if desc { 0 } else { csize });
        }
        extra.extend_from_slice(&e.local_extra);
        let lname = e.local_name.as_ref().unwrap_or(&e.name);
        p32(&mut out, e.local_sig);
        p16(&mut out, e.local_version.unwrap_or(e.version_needed));
        p16(&mut out, flags);
        p16(&mut out, e.method);
        p16(&mut out, e.time);
        p16(&mut out, e.date);
        p32(&mut out, if desc { 0 } else { e.crc });
        if e.zip64_local {
            p32(&mut out, 0xFFFFFFFF);
            p32(&mut out, 0xFFFFFFFF);
        } else {
            p32(&mut out, if desc { 0 } else { csize as u32 });
            p32(&mut out, if desc { 0 } else { e.usize_ as u32 });
        }
        p16(&mut out, e.lie_local_name_len.unwrap_or(lname.len() as u16));
        p16(&mut out, e.lie_local_extra_len.unwrap_or(extra.len() as u16));
        out.extend_from_slice(lname);
        out.extend_from_slice(&extra);
        let dstart = out.len() as u64;
        offsets.push((hstart, dstart));
        out.extend_from_slice(&e.data);
        match e.descriptor {
            Desc::None => {}
            Desc::Sig32 | Desc::NoSig32 => {
                if e.descriptor == Desc::Sig32 {
                    p32(&mut out, 0x08074b50);
                }
                p32(&mut out, e.crc);
                p32(&mut out, csize as u32);
                p32(&mut out, e.usize_ as u32);
            }
            Desc::Sig64 | Desc::NoSig64 => {
                if e.descriptor == Desc::Sig64 {
                    p32(&mut out, 0x08074b50);
                }
                p32(&mut out, e.crc);
                p64(&mut out, csize);
                p64(&mut out, e.usize_);
            }
        }
    }
    out.extend_from_slice(&l.gap_before_cd);
    let cd_start = out.len() as u64;
    // an index beyond the entry list names nothing: it contributes no record and does not count
    let order: Vec<usize> = l.cd_order.clone().unwrap_or_else(|| (0..l.entries.len()).collect())
        .into_iter().filter(|i| *i < l.entries.len()).collect();
    for i in order.iter().cloned() {
        let e = &l.entries[i];
        out.extend_from_slice(&e.cd_gap_before);
        let desc = e.descriptor != Desc::None;
        let flags = e.flags | if desc { 8 } else { 0 };
        let csize = e.lie_central_csize.unwrap_or(e.data.len() as u64);
        let usize_ = e.lie_central_usize.unwrap_or(e.usize_);
        let off = e.lie_central_offset.unwrap_or(rel_offsets[i]);
        let (zu, zc, zo) = e.zip64_central;
        // APPNOTE 4.4.8/4.4.9/4.4.16: a 32-bit slot holding 0xFFFFFFFF means "look in the ZIP64
        // record", so a true value of exactly 0xFFFFFFFF has to go through the record as well
        // (otherwise a reader mis-assigns the fields of a record that is present for another reason)
        let zu = zu || usize_ >= 0xFFFFFFFF;
        let zc = zc || csize >= 0xFFFFFFFF;
        let zo = zo || off >= 0xFFFFFFFF;
        let mut z = vec![];
        if zu || zc || zo || e.zip64_disk.is_some() {
            p16(&mut z, 1);
            p16(&mut z, (zu as u16 + zc as u16 + zo as u16) * 8 + if e.zip64_disk.is_some() { 4 } else { 0 });
            if zu {
                p64(&mut z, usize_);
            }
            if zc {
                p64(&mut z, csize);
            }
            if zo {
                p64(&mut z, off);
            }
            if let Some(d) = e.zip64_disk {
                p32(&mut z, d);
            }
        }
        // the ZIP64 record in front of record number `zip64_central_pos` of the other extra data
        let mut cut = 0usize;
        for _ in 0..e.zip64_central_pos {
            if cut + 4 > e.central_extra.len() { break; }
            let len = u16::from_le_bytes([e.central_extra[cut + 2], e.central_extra[cut + 3]]) as usize;
            if cut + 4 + len > e.central_extra.len() { break; }
            cut += 4 + len;
        }
        let mut extra = e.central_extra[..cut].to_vec();
        extra.extend_from_slice(&z);
        extra.extend_from_slice(&e.central_extra[cut..]);
        p32(&mut out, e.central_sig);
        p16(&mut out, e.made_by);
        p16(&mut out, e.version_needed);
        p16(&mut out, flags);
        p16(&mut out, e.method);
        p16(&mut out, e.time);
        p16(&mut out, e.date);
        p32(&mut out, e.crc);
        p32(&mut out, if zc { 0xFFFFFFFF } else { csize as u32 });
        p32(&mut out, if zu { 0xFFFFFFFF } else { usize_ as u32 });
        p16(&mut out, e.lie_central_name_len.unwrap_or(e.name.len() as u16));
        p16(&mut out, e.lie_central_extra_len.unwrap_or(extra.len() as u16));
        p16(&mut out, e.lie_central_comment_len.unwrap_or(e.comment.len() as u16));
        p16(&mut out, if e.zip64_disk.is_some() { 0xFFFF } else { 0 });
        p16(&mut out, e.int_attrs);
        p32(&mut out, e.ext_attrs);
        p32(&mut out, if zo { 0xFFFFFFFF } else { off as u32 });
        out.extend_from_slice(&e.name);
        out.extend_from_slice(&extra);
        out.extend_from_slice(&e.comment);
    }
    let cd_end = out.len() as u64;
    out.extend_from_slice(&l.gap_before_end);
    let n = l.lie_count.unwrap_or(order.len() as u64);
    let cd_size = l.lie_cd_size.unwrap_or(cd_end - cd_start);
    let cd_off = l.lie_cd_offset.unwrap_or(cd_start - base);
    let need64 = l.zip64_eocd || n > 0xFFFF || cd_size > 0xFFFFFFFF || cd_off > 0xFFFFFFFF;
    if need64 {
        let (d1, d2) = l.lie_eocd64_disks.unwrap_or((0, 0));
        let pos = out.len() as u64;
        p32(&mut out, 0x06064b50);
        p64(&mut out, 44 + l.end64_ext.len() as u64);
        p16(&mut out, l.end64_versions.0);
        p16(&mut out, l.end64_versions.1);
        p32(&mut out, d1);
        p32(&mut out, d2);
        p64(&mut out, n);
        p64(&mut out, n);
        p64(&mut out, cd_size);
        p64(&mut out, cd_off);
        out.extend_from_slice(&l.end64_ext);
        p32(&mut out, 0x07064b50);
        p32(&mut out, 0);
        p64(&mut out, l.lie_locator_offset.unwrap_or(pos - base));
        p32(&mut out, 1);
    }
    let eocd_offset = out.len() as u64;
    let (d1, d2) = l.lie_disk.unwrap_or((0, 0));
    p32(&mut out, 0x06054b50);
    p16(&mut out, d1);
    p16(&mut out, d2);
    let force = l.zip64_eocd && !l.eocd_unsaturated;
    p16(&mut out, if force || n > 0xFFFF { 0xFFFF } else { n as u16 });
    p16(&mut out, if force || n > 0xFFFF { 0xFFFF } else { n as u16 });
    p32(&mut out, if force || cd_size > 0xFFFFFFFF { 0xFFFFFFFF } else { cd_size as u32 });
    p32(&mut out, if force || cd_off > 0xFFFFFFFF { 0xFFFFFFFF } else { cd_off as u32 });
    p16(&mut out, l.lie_comment_len.unwrap_or(l.comment.len() as u16));
    out.extend_from_slice(&l.comment);
    out.extend_from_slice(&l.trailing);
    Built { bytes: out, offsets, cd_offset: cd_start, eocd_offset }
}

#[cfg(test)]
mod f7_witness {
    use super::*;
    /// The two layouts of lean/ZipVerif/Props/C03Order.lean (`reversed`, `unsaturated`): their bytes are pasted
    /// there and the kernel checks `Spec.Zip.buildG` against them (run with `--nocapture` to print them again).
    #[test]
    fn print_witnesses() {
        let mut l = Layout::new(vec![Entry::stored(b"a", b"a"), Entry::stored(b"b", b"bb")]);
        l.cd_order = Some(vec![1, 0]);
        let h = |b: &[u8]| b.iter().map(|x| format!("{x}")).collect::<Vec<_>>().join(", ");
        eprintln!("REVERSED [{}]", h(&build(&l).bytes));
        l.zip64_eocd = true;
        l.eocd_unsaturated = true;
        l.end64_ext = vec![0x65, 0, 2, 0, 0, 0, 7, 7];
        l.gap_before_end = vec![1, 2, 3];
        eprintln!("UNSATURATED [{}]", h(&build(&l).bytes));
        let a = zip::ZipArchive::new(std::io::Cursor::new(build(&l).bytes)).unwrap();
        assert_eq!(a.len(), 2);
        // `placedZ64` of C03Order.lean: entry a carries two foreign central records and a forced ZIP64 record
        // (compressed size, offset) BEHIND the first of them, with the disk-start field; entry b a ZIP64 record
        // that holds the disk-start field only, behind its single foreign record
        let mut ea = Entry::stored(b"a", b"a");
        ea.central_extra = vec![0x55, 0x54, 1, 0, 7, 0xfe, 0xca, 2, 0, 8, 9];
        ea.zip64_central = (false, true, true);
        ea.zip64_central_pos = 1;
        ea.zip64_disk = Some(0);
        let mut eb = Entry::stored(b"b", b"bb");
        eb.central_extra = vec![0x0a, 0, 0, 0];
        eb.zip64_central_pos = 5;
        eb.zip64_disk = Some(0);
        let mut l = Layout::new(vec![ea, eb]);
        l.cd_order = Some(vec![1, 0]);
        let bytes = build(&l).bytes;
        eprintln!("PLACED [{}]", h(&bytes));
        let mut a = zip::ZipArchive::new(std::io::Cursor::new(bytes)).unwrap();
        assert_eq!(a.len(), 2);
        let f = a.by_index(1).unwrap();
        assert_eq!((f.name().to_string(), f.compressed_size(), f.size(), f.header_start()), ("a".to_string(), 1, 1, 0));
    }
}
