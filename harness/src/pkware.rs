//! Traditional PKWARE encryption written from APPNOTE 6.1 (independent of the crate's zipcrypto.rs).
#![allow(dead_code)]

fn crc_table() -> [u32; 256] {
    let mut t = [0u32; 256];
    for i in 0..256u32 {
        let mut c = i;
        for _ in 0..8 {
            c = if c & 1 != 0 { 0xEDB88320 ^ (c >> 1) } else { c >> 1 };
        }
        t[i as usize] = c;
    }
    t
}

pub struct Keys {
    k0: u32,
    k1: u32,
    k2: u32,
    t: [u32; 256],
}

impl Keys {
    pub fn new(password: &[u8]) -> Keys {
        let mut k = Keys { k0: 305419896, k1: 591751049, k2: 878082192, t: crc_table() };
        for &b in password {
            k.update(b);
        }
        k
    }
    fn crc32(&self, c: u32, b: u8) -> u32 {
        self.t[((c ^ b as u32) & 0xff) as usize] ^ (c >> 8)
    }
    fn update(&mut self, b: u8) {
        self.k0 = self.crc32(self.k0, b);
        self.k1 = self.k1.wrapping_add(self.k0 & 0xff);
        self.k1 = self.k1.wrapping_mul(134775813).wrapping_add(1);
        self.k2 = self.crc32(self.k2, (self.k1 >> 24) as u8);
    }
    fn stream(&self) -> u8 {
        let temp = (self.k2 | 2) as u16;
        ((temp.wrapping_mul(temp ^ 1)) >> 8) as u8
    }
    pub fn encrypt(&mut self, plain: &[u8]) -> Vec<u8> {
        plain
            .iter()
            .map(|&p| {
                let c = p ^ self.stream();
                self.update(p);
                c
            })
            .collect()
    }
    pub fn decrypt(&mut self, cipher: &[u8]) -> Vec<u8> {
        cipher
            .iter()
            .map(|&c| {
                let p = c ^ self.stream();
                self.update(p);
                p
            })
            .collect()
    }
}
