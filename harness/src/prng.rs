//! SplitMix64: every random choice of the harness derives from one state seeded by
//! (VERIF_SEED, stream name, case index), so any case replays from (seed, index).
#[derive(Clone)]
pub struct Rng(pub u64);

impl Rng {
    pub fn new(seed: u64, stream: &str, index: u64) -> Rng {
        let mut h: u64 = 0xcbf29ce484222325;
        for b in stream.bytes() {
            h ^= b as u64;
            h = h.wrapping_mul(0x100000001b3);
        }
        let mut r = Rng(seed ^ h ^ index.wrapping_mul(0x9E3779B97F4A7C15));
        r.next();
        r
    }
    pub fn next(&mut self) -> u64 {
        self.0 = self.0.wrapping_add(0x9E3779B97F4A7C15);
        let mut z = self.0;
        z = (z ^ (z >> 30)).wrapping_mul(0xBF58476D1CE4E5B9);
        z = (z ^ (z >> 27)).wrapping_mul(0x94D049BB133111EB);
        z ^ (z >> 31)
    }
    pub fn below(&mut self, n: u64) -> u64 {
        if n == 0 { 0 } else { self.next() % n }
    }
    pub fn range(&mut self, lo: u64, hi: u64) -> u64 {
        lo + self.below(hi - lo + 1)
    }
    pub fn chance(&mut self, num: u64, den: u64) -> bool {
        self.below(den) < num
    }
    pub fn pick<'a, T>(&mut self, xs: &'a [T]) -> &'a T {
        &xs[self.below(xs.len() as u64) as usize]
    }
    pub fn bytes(&mut self, n: usize) -> Vec<u8> {
        (0..n).map(|_| self.next() as u8).collect()
    }
}
