//! C16: WinZip-AES entries.  The encryptor in this file is written against the WinZip AE-x note
//! (https://www.winzip.com/en/support/aes-encryption/) with the RustCrypto crates directly and shares
//! no code with /repo/src/aes.rs or /repo/src/aes_ctr.rs.
use super::{GenOut, OracleFailure, Stream};
use crate::prng::Rng;
use crate::util::*;
use std::collections::{BTreeMap, HashMap};
use std::io::{Cursor, Read, Write};
use std::sync::Mutex;

pub struct Aes;

// ------------------------------------------------------------------------------------------
// independent primitives

pub(super) fn fnv64(bs: &[u8]) -> u64 {
    let mut h: u64 = 0xcbf29ce484222325;
    for b in bs {
        h ^= *b as u64;
        h = h.wrapping_mul(0x100000001b3);
    }
    h
}

static KDF_CACHE: Mutex<Option<HashMap<(Vec<u8>, Vec<u8>, usize), Vec<u8>>>> = Mutex::new(None);

/// PBKDF2-HMAC-SHA1, 1000 iterations (WinZip note, "key generation").
pub(super) fn kdf(pw: &[u8], salt: &[u8], len: usize) -> Vec<u8> {
    let key = (pw.to_vec(), salt.to_vec(), len);
    let mut g = KDF_CACHE.lock().unwrap();
    let m = g.get_or_insert_with(HashMap::new);
    if let Some(v) = m.get(&key) {
        return v.clone();
    }
    let mut out = vec![0u8; len];
    pbkdf2::pbkdf2::<hmac::Hmac<sha1::Sha1>>(pw, salt, 1000, &mut out);
    m.insert(key, out.clone());
    out
}

/// Key stream: block i (i = 1, 2, …) is AES_k(i as 16-byte little-endian integer).
pub(super) fn keystream(key: &[u8], nblocks: usize) -> Vec<u8> {
    use aes::cipher::{generic_array::GenericArray, BlockEncrypt, KeyInit};
    let mut out = Vec::with_capacity(nblocks * 16);
    for i in 1..=(nblocks as u128) {
        let mut blk = GenericArray::clone_from_slice(&i.to_le_bytes());
        match key.len() {
            16 => aes::Aes128::new(GenericArray::from_slice(key)).encrypt_block(&mut blk),
            24 => aes::Aes192::new(GenericArray::from_slice(key)).encrypt_block(&mut blk),
            32 => aes::Aes256::new(GenericArray::from_slice(key)).encrypt_block(&mut blk),
            _ => return vec![],
        }
        out.extend_from_slice(&blk);
    }
    out
}

pub(super) fn hmac_sha1(key: &[u8], msg: &[u8]) -> Vec<u8> {
    use hmac::Mac;
    let mut m = <hmac::Hmac<sha1::Sha1> as Mac>::new_from_slice(key).unwrap();
    m.update(msg);
    m.finalize().into_bytes().to_vec()
}

pub(super) fn deflate_raw(data: &[u8]) -> Vec<u8> {
    let mut e = flate2::write::DeflateEncoder::new(Vec::new(), flate2::Compression::default());
    e.write_all(data).unwrap();
    e.finish().unwrap()
}

pub(super) fn inflate_raw(data: &[u8]) -> Option<Vec<u8>> {
    let mut d = flate2::read::DeflateDecoder::new(data);
    let mut out = vec![];
    d.read_to_end(&mut out).ok()?;
    Some(out)
}

/// salt ‖ verifier ‖ ciphertext ‖ authentication code; also the inner (compressed) bytes.
pub(super) struct Enc {
    pub(super) payload: Vec<u8>,
    pub(super) inner: Vec<u8>,
    pub(super) crc: u32,
}

/// The inner (compressed) stream of an entry: the codec libraries called directly.
fn compress_inner(method: u16, plain: &[u8]) -> Vec<u8> {
    match method {
        8 => deflate_raw(plain),
        12 => super::write::direct_compress(12, 6, &[plain.to_vec()]).expect("bzip2 compresses"),
        93 => super::write::direct_compress(93, 3, &[plain.to_vec()]).expect("zstd compresses"),
        _ => plain.to_vec(),
    }
}

/// Encrypt a given inner stream (which may carry bytes behind the end of its compressed stream).
fn encrypt_inner(bits: usize, pw: &[u8], inner: Vec<u8>, plain: &[u8], salt: &[u8]) -> Enc {
    let k = bits / 8;
    let dk = kdf(pw, salt, 2 * k + 2);
    let (ekey, mkey, pvv) = (&dk[..k], &dk[k..2 * k], &dk[2 * k..]);
    let ks = keystream(ekey, (inner.len() + 15) / 16);
    let ct: Vec<u8> = inner.iter().zip(ks.iter()).map(|(a, b)| a ^ b).collect();
    let mac = hmac_sha1(mkey, &ct);
    let mut payload = salt.to_vec();
    payload.extend_from_slice(pvv);
    payload.extend_from_slice(&ct);
    payload.extend_from_slice(&mac[..10]);
    Enc { payload, inner, crc: crc32fast::hash(plain) }
}

/// Compress with the inner method, then encrypt (used by the `clones` stream).
pub(super) fn encrypt(bits: usize, method: u16, pw: &[u8], plain: &[u8], salt: &[u8]) -> Enc {
    encrypt_inner(bits, pw, compress_inner(method, plain), plain, salt)
}

/// extra field 0x9901: size 7, version, "AE", strength, actual method
pub(super) fn aes_extra(ver: u16, strength: u8, method: u16) -> Vec<u8> {
    let mut e = vec![0x01, 0x99, 7, 0];
    e.extend_from_slice(&ver.to_le_bytes());
    e.extend_from_slice(b"AE");
    e.push(strength);
    e.extend_from_slice(&method.to_le_bytes());
    e
}

// ------------------------------------------------------------------------------------------
// archive builder from raw fields

pub(super) struct Fields {
    pub(super) flag: u16,
    pub(super) cmethod: u16,
    pub(super) extra: Vec<u8>,
    pub(super) csize: u32,
    pub(super) usize_: u32,
    pub(super) crc: u32,
    pub(super) body: Vec<u8>,
    pub(super) tail_layout: bool,
    pub(super) pre: Option<Vec<u8>>,
}

pub(super) fn local_header(name: &[u8], flag: u16, method: u16, crc: u32, cs: u32, us: u32, extra: &[u8]) -> Vec<u8> {
    let mut v = vec![];
    v.extend_from_slice(&0x04034b50u32.to_le_bytes());
    v.extend_from_slice(&51u16.to_le_bytes());
    v.extend_from_slice(&flag.to_le_bytes());
    v.extend_from_slice(&method.to_le_bytes());
    v.extend_from_slice(&0u16.to_le_bytes());
    v.extend_from_slice(&0x21u16.to_le_bytes());
    v.extend_from_slice(&crc.to_le_bytes());
    v.extend_from_slice(&cs.to_le_bytes());
    v.extend_from_slice(&us.to_le_bytes());
    v.extend_from_slice(&(name.len() as u16).to_le_bytes());
    v.extend_from_slice(&(extra.len() as u16).to_le_bytes());
    v.extend_from_slice(name);
    v.extend_from_slice(extra);
    v
}

pub(super) fn central_header(name: &[u8], flag: u16, method: u16, crc: u32, cs: u32, us: u32, extra: &[u8], off: u32) -> Vec<u8> {
    let mut v = vec![];
    v.extend_from_slice(&0x02014b50u32.to_le_bytes());
    v.extend_from_slice(&0x0333u16.to_le_bytes());
    v.extend_from_slice(&51u16.to_le_bytes());
    v.extend_from_slice(&flag.to_le_bytes());
    v.extend_from_slice(&method.to_le_bytes());
    v.extend_from_slice(&0u16.to_le_bytes());
    v.extend_from_slice(&0x21u16.to_le_bytes());
    v.extend_from_slice(&crc.to_le_bytes());
    v.extend_from_slice(&cs.to_le_bytes());
    v.extend_from_slice(&us.to_le_bytes());
    v.extend_from_slice(&(name.len() as u16).to_le_bytes());
    v.extend_from_slice(&(extra.len() as u16).to_le_bytes());
    v.extend_from_slice(&[0u8; 6]); // comment len, disk, internal attrs
    v.extend_from_slice(&0u32.to_le_bytes());
    v.extend_from_slice(&off.to_le_bytes());
    v.extend_from_slice(name);
    v.extend_from_slice(extra);
    v
}

/// Returns the archive and the index of the AES entry.
fn build_zip(f: &Fields) -> (Vec<u8>, usize) {
    // local part
    let mut locals: Vec<u8> = vec![];
    let mut entries: Vec<(Vec<u8>, u32)> = vec![]; // (central header without offset fixup, local offset relative)
    let mut rel: Vec<(usize, Vec<u8>)> = vec![];
    if let Some(p) = &f.pre {
        let crc = crc32fast::hash(p);
        let off = locals.len();
        locals.extend(local_header(b"pre.txt", 0, 0, crc, p.len() as u32, p.len() as u32, &[]));
        locals.extend_from_slice(p);
        rel.push((off, central_header(b"pre.txt", 0, 0, crc, p.len() as u32, p.len() as u32, &[], 0)));
    }
    let off = locals.len();
    locals.extend(local_header(b"a.bin", f.flag, f.cmethod, f.crc, f.csize, f.usize_, &f.extra));
    locals.extend_from_slice(&f.body);
    rel.push((off, central_header(b"a.bin", f.flag, f.cmethod, f.crc, f.csize, f.usize_, &f.extra, 0)));
    let n = rel.len();
    let cd_len: usize = rel.iter().map(|r| r.1.len()).sum();
    let base = if f.tail_layout { cd_len + 22 } else { 0 };
    let mut cd = vec![];
    for (o, mut c) in rel {
        let abs = (base + o) as u32;
        c[42..46].copy_from_slice(&abs.to_le_bytes());
        cd.extend(c);
        entries.push((vec![], abs));
    }
    let cd_off = if f.tail_layout { 0 } else { locals.len() };
    let mut eocd = vec![];
    eocd.extend_from_slice(&0x06054b50u32.to_le_bytes());
    eocd.extend_from_slice(&[0u8; 4]);
    eocd.extend_from_slice(&(n as u16).to_le_bytes());
    eocd.extend_from_slice(&(n as u16).to_le_bytes());
    eocd.extend_from_slice(&(cd.len() as u32).to_le_bytes());
    eocd.extend_from_slice(&(cd_off as u32).to_le_bytes());
    let mut out = vec![];
    if f.tail_layout {
        eocd.extend_from_slice(&(locals.len() as u16).to_le_bytes());
        out.extend(cd);
        out.extend(eocd);
        out.extend(locals);
    } else {
        eocd.extend_from_slice(&0u16.to_le_bytes());
        out.extend(locals);
        out.extend(cd);
        out.extend(eocd);
    }
    (out, n - 1)
}

// ------------------------------------------------------------------------------------------
// implementation adapters

fn parse_sched(s: &str) -> Option<Vec<usize>> {
    if s == "-" || s.is_empty() {
        return Some(vec![]);
    }
    s.split(',').map(|x| x.parse().ok()).collect()
}

struct Looped {
    log: Vec<String>,
    out: Vec<u8>,
    err: Option<String>,
    again: String,
}

/// The caller loop shared by every op (the driver runs the same loop over the model).
fn caller_loop<R: Read>(r: &mut R, bufs: &[usize], limit: usize) -> Looped {
    let mut l = Looped { log: vec![], out: vec![], err: None, again: String::new() };
    let mut i = 0usize;
    let mut calls = 0usize;
    loop {
        calls += 1;
        if calls > limit {
            l.err = Some("panic".into());
            break;
        }
        let n = bufs[i % bufs.len()];
        i += 1;
        let mut buf = vec![0u8; n];
        match r.read(&mut buf) {
            Ok(k) => {
                if n > 0 && k == 0 {
                    l.log.push("eof".into());
                    break;
                }
                l.log.push(k.to_string());
                l.out.extend_from_slice(&buf[..k]);
            }
            Err(e) => {
                let c = ioerr_class(&e);
                l.log.push(format!("E:{c}"));
                l.err = Some(c);
                break;
            }
        }
    }
    let mut buf = [0u8; 7];
    l.again = match r.read(&mut buf) {
        Ok(k) => format!("ok{k}"),
        Err(e) => ioerr_class(&e),
    };
    l
}

/// Consumer APIs other than the explicit `read` loop: everything a caller can use to "read the entry
/// to its end" must reach the same verdict (an override of one of the provided `Read` methods on
/// `ZipFile` that bypasses `ZipFile::read` would skip the end-of-entry authentication drain).
/// `rte` = `read_to_end`, `copy` = `io::copy`, `exact` = `read_exact` of the declared uncompressed size
/// followed by an end-of-file probe loop, `bytes` = the `bytes()` iterator.
fn consume<R: Read>(r: &mut R, api: &str, declared: usize) -> (Vec<u8>, Option<String>) {
    let mut out = vec![];
    let res: std::io::Result<()> = match api {
        "rte" => r.read_to_end(&mut out).map(|_| ()),
        "copy" => std::io::copy(r, &mut out).map(|_| ()),
        "bytes" => {
            let mut e = Ok(());
            for b in r.bytes() {
                match b { Ok(b) => out.push(b), Err(x) => { e = Err(x); break; } }
            }
            e
        }
        "exact" => {
            let mut b = vec![0u8; declared];
            match r.read_exact(&mut b) {
                Err(e) => Err(e),
                Ok(()) => {
                    out = b;
                    let mut t = [0u8; 4096];
                    loop {
                        match r.read(&mut t) {
                            Ok(0) => break Ok(()),
                            Ok(n) => out.extend_from_slice(&t[..n]),
                            Err(e) => break Err(e),
                        }
                    }
                }
            }
        }
        _ => Err(std::io::Error::new(std::io::ErrorKind::Other, "bad api")),
    };
    (out, res.err().map(|e| ioerr_class(&e)))
}

const APIS: [&str; 5] = ["loop", "rte", "copy", "exact", "bytes"];

/// An inner reader with a short-read schedule (entry k: at most k+1 bytes on this call).
struct ShortReader {
    data: Vec<u8>,
    pos: usize,
    sched: Vec<usize>,
    call: usize,
}

impl Read for ShortReader {
    fn read(&mut self, buf: &mut [u8]) -> std::io::Result<usize> {
        let mut cap = buf.len();
        if self.call < self.sched.len() {
            cap = cap.min(self.sched[self.call] + 1);
        }
        self.call += 1;
        let n = cap.min(self.data.len() - self.pos);
        buf[..n].copy_from_slice(&self.data[self.pos..self.pos + n]);
        self.pos += n;
        Ok(n)
    }
}

fn run_ctr(a: &BTreeMap<String, String>) -> String {
    use zip::verif_hooks::{Aes128, Aes192, Aes256, AesCipher, AesCtrZipKeyStream};
    let (key, data, chunks) = match (get_hex(a, "key"), get_hex(a, "data"), a.get("chunks").and_then(|s| parse_sched(s))) {
        (Some(k), Some(d), Some(c)) => (k, d, c),
        _ => return "bad-op".into(),
    };
    if chunks.iter().all(|c| *c == 0) {
        return "bad-op".into();
    }
    let r = catch(move || {
        let mut c: Box<dyn AesCipher> = match key.len() {
            16 => Box::new(AesCtrZipKeyStream::<Aes128>::new(&key)),
            24 => Box::new(AesCtrZipKeyStream::<Aes192>::new(&key)),
            _ => Box::new(AesCtrZipKeyStream::<Aes256>::new(&key)),
        };
        let mut d = data.clone();
        let mut pos = 0usize;
        let mut i = 0usize;
        while pos < d.len() {
            let n = chunks[i % chunks.len()].min(d.len() - pos);
            i += 1;
            c.crypt_in_place(&mut d[pos..pos + n]);
            pos += n;
        }
        d
    });
    match r {
        Ok(d) => format!("ok {}", hex(&d)),
        Err(_) => "panic".into(),
    }
}

/// Known-answer vectors for the primitives the harness's encryptor SHARES with the crate under test
/// (the `aes`, `hmac`, `sha1`, `pbkdf2` crates are one build for both): the published value is in the
/// op line (`want=`), the primitive is evaluated here, so a defect in a shared dependency - which the
/// differential comparison cannot see, both sides being wrong alike - shows up as a mismatch.
fn run_kat(a: &BTreeMap<String, String>) -> String {
    let prim = a.get("prim").map(|s| s.as_str()).unwrap_or("");
    let r = match prim {
        "pbkdf2" => match (get_hex(a, "pw"), get_hex(a, "salt"), get_u64(a, "c"), get_u64(a, "len")) {
            (Some(pw), Some(salt), Some(c), Some(len)) if c >= 1 && c <= 100_000 && len <= 64 => catch(move || {
                let mut out = vec![0u8; len as usize];
                pbkdf2::pbkdf2::<hmac::Hmac<sha1::Sha1>>(&pw, &salt, c as u32, &mut out);
                out
            }),
            _ => return "bad-op".into(),
        },
        "hmac" => match (get_hex(a, "key"), get_hex(a, "msg")) {
            (Some(key), Some(msg)) => catch(move || hmac_sha1(&key, &msg)),
            _ => return "bad-op".into(),
        },
        "aes" => match (get_hex(a, "key"), get_hex(a, "block")) {
            (Some(key), Some(block)) if block.len() == 16 && [16, 24, 32].contains(&key.len()) => catch(move || {
                use aes::cipher::{generic_array::GenericArray, BlockEncrypt, KeyInit};
                let mut blk = GenericArray::clone_from_slice(&block);
                match key.len() {
                    16 => aes::Aes128::new(GenericArray::from_slice(&key)).encrypt_block(&mut blk),
                    24 => aes::Aes192::new(GenericArray::from_slice(&key)).encrypt_block(&mut blk),
                    _ => aes::Aes256::new(GenericArray::from_slice(&key)).encrypt_block(&mut blk),
                }
                blk.to_vec()
            }),
            _ => return "bad-op".into(),
        },
        _ => return "bad-op".into(),
    };
    match r {
        Ok(v) => format!("kat {}", hex(&v)),
        Err(_) => "panic".into(),
    }
}

fn mode_of(bits: u64) -> Option<zip::verif_hooks::AesMode> {
    use zip::verif_hooks::AesMode::*;
    match bits {
        128 => Some(Aes128),
        192 => Some(Aes192),
        256 => Some(Aes256),
        _ => None,
    }
}

fn run_layer(a: &BTreeMap<String, String>) -> String {
    let (bits, csize, body, pw) = match (get_u64(a, "bits"), get_u64(a, "csize"), get_hex(a, "body"), get_hex(a, "trypw")) {
        (Some(b), Some(c), Some(d), Some(p)) => (b, c, d, p),
        _ => return "bad-op".into(),
    };
    let (bufs, short) = match (a.get("bufs").and_then(|s| parse_sched(s)), a.get("short").and_then(|s| parse_sched(s))) {
        (Some(b), Some(s)) => (b, s),
        _ => return "bad-op".into(),
    };
    let mode = match mode_of(bits) {
        Some(m) => m,
        None => return "bad-op".into(),
    };
    if bufs.iter().all(|c| *c == 0) {
        return "bad-op".into();
    }
    let r = catch(move || {
        let avail = body[..(csize as usize).min(body.len())].to_vec();
        let limit = (body.len() + 4) * (bufs.len() + 1) + 8;
        let src = ShortReader { data: avail, pos: 0, sched: short, call: 0 };
        match zip::verif_hooks::AesReader::new(src, mode, csize).validate(&pw) {
            Err(e) => format!("v={}", ioerr_class(&e)),
            Ok(None) => "v=invalidpw".into(),
            Ok(Some(mut v)) => {
                let l = caller_loop(&mut v, &bufs, limit);
                format!("v=ok r={} len={} h={} again={}", l.log.join(","), l.out.len(), fnv64(&l.out), l.again)
            }
        }
    });
    r.unwrap_or_else(|_| "v=panic".into())
}

fn fields_of(a: &BTreeMap<String, String>) -> Option<Fields> {
    let pre = match a.get("pre").map(|s| s.as_str()) {
        None | Some("none") => None,
        Some(h) => Some(unhex(h)?),
    };
    Some(Fields {
        flag: get_u64(a, "flag")? as u16,
        cmethod: get_u64(a, "cmethod")? as u16,
        extra: get_hex(a, "extra")?,
        csize: get_u64(a, "csize")? as u32,
        usize_: get_u64(a, "usize")? as u32,
        crc: get_u64(a, "crc")? as u32,
        body: get_hex(a, "body")?,
        tail_layout: a.get("layout")? == "tail",
        pre,
    })
}

fn run_extra(a: &BTreeMap<String, String>) -> String {
    // central header parse through the hook: what the reader stores for this extra field
    let (cmethod, extra, csize, usz) = match (get_u64(a, "cmethod"), get_hex(a, "extra"), get_u64(a, "csize"), get_u64(a, "usize")) {
        (Some(m), Some(e), Some(c), Some(u)) => (m as u16, e, c as u32, u as u32),
        _ => return "bad-op".into(),
    };
    let r = catch(move || {
        let ch = central_header(b"a.bin", 1, cmethod, 0, csize, usz, &extra, 0);
        let mut c = Cursor::new(ch);
        match zip::verif_hooks::central_header_to_zip_file(&mut c, 0) {
            Err(e) => zerr_class(&e),
            Ok(d) => {
                #[allow(deprecated)]
                let m = d.compression_method.to_u16();
                let aes = match d.aes_mode {
                    None => "none".to_string(),
                    Some((m, v)) => format!(
                        "{}/{}",
                        m.key_length() * 8,
                        match v { zip::verif_hooks::AesVendorVersion::Ae1 => 1, zip::verif_hooks::AesVendorVersion::Ae2 => 2 }
                    ),
                };
                format!("ok method={m} aes={aes} csize={} usize={} large={}", d.compressed_size, d.uncompressed_size, d.large_file)
            }
        }
    });
    r.unwrap_or_else(|_| "panic".into())
}

fn run_read(a: &BTreeMap<String, String>) -> String {
    let f = match fields_of(a) {
        Some(f) => f,
        None => return "bad-op".into(),
    };
    let bufs = match a.get("bufs").and_then(|s| parse_sched(s)) {
        Some(b) => b,
        None => return "bad-op".into(),
    };
    let trypw: Option<Vec<u8>> = match a.get("trypw").map(|s| s.as_str()) {
        Some("none") => None,
        Some(h) => match unhex(h) { Some(v) => Some(v), None => return "bad-op".into() },
        None => return "bad-op".into(),
    };
    if bufs.iter().all(|c| *c == 0) {
        return "bad-op".into();
    }
    let api = a.get("api").cloned().unwrap_or_else(|| "loop".to_string());
    if !APIS.contains(&api.as_str()) || (api == "exact" && f.usize_ > (1 << 24)) {
        return "bad-op".into();
    }
    if !f.tail_layout && (f.csize as usize) > f.body.len() {
        return "bad-op".into();
    }
    let first: Option<Option<Vec<u8>>> = match a.get("first").map(|s| s.as_str()) {
        None => None,
        Some("none") => Some(None),
        Some(h) => match unhex(h) { Some(v) => Some(Some(v)), None => return "bad-op".into() },
    };
    let r = catch(move || {
        let (zipb, idx) = build_zip(&f);
        let limit = (f.body.len() + f.usize_ as usize + 4) * (bufs.len() + 1) + 8;
        let mut ar = match zip::ZipArchive::new(Cursor::new(zipb)) {
            Ok(a) => a,
            Err(e) => return format!("open={}", zerr_class(&e)),
        };
        // a preceding open of the SAME entry on the same archive object with another password (or none), read to
        // its end, outcome ignored: whatever state an open leaves behind must not change the next one
        if let Some(fp) = &first {
            let opened = match fp {
                None => ar.by_index(idx).map(Ok),
                Some(p) => ar.by_index_decrypt(idx, p),
            };
            if let Ok(Ok(mut f0)) = opened {
                let _ = std::io::copy(&mut f0, &mut std::io::sink());
            }
        }
        let mut one = |ar: &mut zip::ZipArchive<Cursor<Vec<u8>>>| -> String {
            let opened = match &trypw {
                None => ar.by_index(idx).map(Ok),
                Some(p) => ar.by_index_decrypt(idx, p),
            };
            let mut file = match opened {
                Err(e) => return format!("open=ok file={}", zerr_class(&e)),
                Ok(Err(_)) => return "open=ok file=invalidpw".into(),
                Ok(Ok(f)) => f,
            };
            #[allow(deprecated)]
            let method = file.compression().to_u16();
            if api != "loop" {
                let (out, err) = consume(&mut file, &api, f.usize_ as usize);
                return match err {
                    Some(c) => format!("open=ok file=ok read={}", c),
                    None => format!("open=ok file=ok read=ok len={} h={}", out.len(), fnv64(&out)),
                };
            }
            let l = caller_loop(&mut file, &bufs, limit);
            let ag = if method == 0 { format!(" again={}", l.again) } else { String::new() };
            match l.err {
                Some(c) if method == 0 => format!("open=ok file=ok read={} after={}{}", c, l.out.len(), ag),
                Some(c) => format!("open=ok file=ok read={}", c),
                None => format!("open=ok file=ok read=ok len={} h={}{}", l.out.len(), fnv64(&l.out), ag),
            }
        };
        // "each open behaves like the first": the same open again on the same archive object
        let r1 = one(&mut ar);
        let r2 = one(&mut ar);
        if r1 != r2 {
            return format!("{r1} reopen-differs second=[{}]", r2.replace(' ', "_"));
        }
        r1
    });
    r.unwrap_or_else(|_| "open=ok file=ok read=panic".into())
}

// ------------------------------------------------------------------------------------------
// generator

fn sched_str(v: &[usize]) -> String {
    if v.is_empty() { "-".into() } else { v.iter().map(|x| x.to_string()).collect::<Vec<_>>().join(",") }
}

/// Oracle tables for the model: PBKDF2 output for (trypw, salt found in the body), key stream of the
/// derived key, HMAC of the ciphertext region that is physically there.
fn tables(bits: usize, csize_eff: u64, body: &[u8], trypw: Option<&[u8]>) -> String {
    tables2(bits, csize_eff, body, trypw).0
}

/// Independent raw-inflate probe (flate2's low-level `Decompress`, no reader adapters): does the
/// stream end inside `d`, after how many input bytes, and with which output.
fn inflate_probe(d: &[u8]) -> (&'static str, usize, Vec<u8>) {
    let mut dec = flate2::Decompress::new(false);
    let mut out: Vec<u8> = Vec::with_capacity(1 << 16);
    loop {
        let before_in = dec.total_in();
        let before_out = dec.total_out();
        if out.capacity() - out.len() < 4096 {
            out.reserve(1 << 16);
        }
        let input = &d[dec.total_in() as usize..];
        let flush = if input.is_empty() { flate2::FlushDecompress::Finish } else { flate2::FlushDecompress::None };
        match dec.decompress_vec(input, &mut out, flush) {
            Err(_) => return ("corrupt", dec.total_in() as usize, out),
            Ok(flate2::Status::StreamEnd) => return ("end", dec.total_in() as usize, out),
            Ok(_) => {
                if dec.total_in() == before_in && dec.total_out() == before_out && input.is_empty() {
                    return ("more", dec.total_in() as usize, out);
                }
            }
        }
    }
}

/// Source that records how its consumer reads it.
struct CountRead<'a> {
    d: &'a [u8],
    pos: usize,
    calls: usize,
    req_min: usize,
    req_max: usize,
}

impl<'a> Read for CountRead<'a> {
    fn read(&mut self, buf: &mut [u8]) -> std::io::Result<usize> {
        self.calls += 1;
        self.req_min = self.req_min.min(buf.len());
        self.req_max = self.req_max.max(buf.len());
        let n = buf.len().min(self.d.len() - self.pos);
        buf[..n].copy_from_slice(&self.d[self.pos..self.pos + n]);
        self.pos += n;
        Ok(n)
    }
}

/// The bzip2 / zstd reader adapters (the codec crates called directly, the same constructors the
/// crate uses) over the stream `d`, read to the end: outcome (`end` or the error class), how many
/// `read` calls of which size they made on their source (their `BufReader` refills), and the output.
/// The decoders are parameters of the model; this table is what instantiates them.
fn pull_probe(method: u16, d: &[u8]) -> (String, usize, usize, Vec<u8>) {
    let mut src = CountRead { d, pos: 0, calls: 0, req_min: usize::MAX, req_max: 0 };
    let mut out = vec![];
    let r = match method {
        12 => bzip2::read::BzDecoder::new(&mut src).read_to_end(&mut out),
        93 => match zstd::stream::read::Decoder::new(&mut src) {
            Ok(mut dec) => dec.read_to_end(&mut out),
            Err(e) => Err(e),
        },
        _ => Err(std::io::Error::new(std::io::ErrorKind::Other, "no adapter")),
    };
    let res = match r {
        Ok(_) => "end".to_string(),
        Err(e) => ioerr_class(&e).replace("err ", "err:"),
    };
    if src.calls > 0 && src.req_min != src.req_max {
        return ("var".into(), src.calls, src.req_max, out);
    }
    (res, src.calls, if src.calls == 0 { 0 } else { src.req_max }, out)
}

/// (table string, decrypted stream the AES layer can deliver when the verifier matches)
pub(super) fn tables2(bits: usize, csize_eff: u64, body: &[u8], trypw: Option<&[u8]>) -> (String, Option<Vec<u8>>) {
    let empty = "ksalt=- kdf=- kkey=- ks=- mkey=- mh=0 mlen=0 mac=-".to_string();
    let (k, sl) = (bits / 8, bits / 16);
    let pw = match trypw { Some(p) => p, None => return (empty, None) };
    let avail = &body[..(csize_eff.min(body.len() as u64)) as usize];
    if avail.len() < sl || k == 0 {
        return (empty, None);
    }
    let ksalt = &avail[..sl];
    let dk = kdf(pw, ksalt, 2 * k + 2);
    let dl = csize_eff.saturating_sub((sl + 12) as u64);
    let start = (sl + 2).min(avail.len());
    let end = ((sl as u64 + 2).saturating_add(dl)).min(avail.len() as u64) as usize;
    let ct = &avail[start..end.max(start)];
    let ks = keystream(&dk[..k], (ct.len() + 15) / 16);
    let mac = hmac_sha1(&dk[k..2 * k], ct);
    let dec: Option<Vec<u8>> = if avail.len() >= sl + 2 && avail[sl..sl + 2] == dk[2 * k..] {
        Some(ct.iter().zip(ks.iter()).map(|(a, b)| a ^ b).collect())
    } else {
        None
    };
    (
        format!(
            "ksalt={} kdf={} kkey={} ks={} mkey={} mh={} mlen={} mac={}",
            hex(ksalt), hex(&dk), hex(&dk[..k]), hex(&ks), hex(&dk[k..2 * k]), fnv64(ct), ct.len(), hex(&mac)
        ),
        dec,
    )
}

#[allow(clippy::too_many_arguments)]
fn read_line(exp: &str, info: &str, f: &Fields, bits: usize, csize_eff: u64, trypw: Option<&[u8]>, _z: &[u8], plain: &[u8], bufs: &str) -> String {
    let (tb, dec) = tables2(bits, csize_eff, &f.body, trypw);
    // inflate table: only the stream the AES layer can deliver is ever looked up
    // the inner method as a spec-conforming reader sees it (walk the records)
    let mut inner_m: Option<u16> = None;
    let mut o = 0usize;
    while o + 4 <= f.extra.len() {
        let l = u16::from_le_bytes([f.extra[o + 2], f.extra[o + 3]]) as usize;
        if f.extra[o] == 0x01 && f.extra[o + 1] == 0x99 && o + 11 <= f.extra.len() {
            inner_m = Some(u16::from_le_bytes([f.extra[o + 9], f.extra[o + 10]]));
            break;
        }
        o += 4 + l;
    }
    let zt = match dec {
        Some(d) if inner_m == Some(8) => {
            let (res, zc, out) = inflate_probe(&d);
            format!("zh={} zl={} zres={res} zc={zc} zout={}", fnv64(&d), d.len(), hex(&out))
        }
        Some(d) if inner_m == Some(12) || inner_m == Some(93) => {
            let (res, zn, zfill, out) = pull_probe(inner_m.unwrap(), &d);
            let zpl = (zn * zfill).min(d.len());
            format!("zh={} zl={} zres={res} zn={zn} zfill={zfill} zpl={zpl} zph={} zout={}", fnv64(&d), d.len(), fnv64(&d[..zpl]), hex(&out))
        }
        _ => "zh=0 zl=0 zres=none zc=0 zout=-".to_string(),
    };
    format!(
        "aes.read exp={exp} info={info} flag={} cmethod={} extra={} csize={} usize={} crc={} body={} layout={} pre={} trypw={} {} {zt} plain={} bufs={bufs}",
        f.flag, f.cmethod, hex(&f.extra), f.csize, f.usize_, f.crc, hex(&f.body),
        if f.tail_layout { "tail" } else { "norm" },
        match &f.pre { Some(p) => hex(p), None => "none".into() },
        match trypw { Some(p) => hex(p), None => "none".into() },
        tb, hex(plain)
    )
}

#[allow(clippy::too_many_arguments)]
fn layer_line(exp: &str, info: &str, bits: usize, csize: u64, body: &[u8], trypw: &[u8], inner: &[u8], bufs: &str, short: &str) -> String {
    format!(
        "aes.layer exp={exp} info={info} bits={bits} csize={csize} body={} trypw={} {} eh={} elen={} bufs={bufs} short={short}",
        hex(body), hex(trypw), tables(bits, csize, body, Some(trypw)), fnv64(inner), inner.len()
    )
}

/// The same case consumed through another API (`loop` = the line as it is).
fn with_api(line: String, api: &str) -> String {
    if api == "loop" { line } else { format!("{line} api={api}") }
}

fn mk_plain(r: &mut Rng, n: usize) -> Vec<u8> {
    if r.chance(1, 2) {
        r.bytes(n)
    } else {
        b"Lorem ipsum dolor sit amet, consectetur adipiscing elit. ".iter().cycle().take(n).cloned().collect()
    }
}

const BUFS: [&str; 8] = ["4096", "1", "16", "7,0,3", "1,15,16,17", "5,1000", "17", "0,2"];

fn region(bits: usize, payload_len: usize, byte: usize) -> &'static str {
    let sl = bits / 16;
    if byte < sl { "salt" } else if byte < sl + 2 { "pvv" } else if byte < payload_len - 10 { "ct" } else { "mac" }
}

struct Built {
    f: Fields,
    enc: Enc,
}

#[allow(clippy::too_many_arguments)]
fn build_case(ver: u16, bits: usize, method: u16, pw: &[u8], plain: &[u8], salt: &[u8], tail: bool, pre: bool) -> Built {
    build_case_inner(ver, bits, method, pw, compress_inner(method, plain), plain, salt, tail, pre)
}

/// The same with a given inner stream (e.g. a compressed stream followed by further bytes).
#[allow(clippy::too_many_arguments)]
fn build_case_inner(ver: u16, bits: usize, method: u16, pw: &[u8], inner: Vec<u8>, plain: &[u8], salt: &[u8], tail: bool, pre: bool) -> Built {
    let enc = encrypt_inner(bits, pw, inner, plain, salt);
    let f = Fields {
        flag: 1,
        cmethod: 99,
        extra: aes_extra(ver, (bits / 64 - 1) as u8, method),
        csize: enc.payload.len() as u32,
        usize_: plain.len() as u32,
        crc: if ver == 1 { enc.crc } else { 0 },
        body: enc.payload.clone(),
        tail_layout: tail,
        pre: if pre { Some(b"plain first entry".to_vec()) } else { None },
    };
    Built { f, enc }
}

/// A two-entry archive (a plain stored entry, then one WinZip-AES entry) for other streams.
pub fn aes_archive(ver: u16, bits: usize, method: u16, pw: &[u8], plain: &[u8], salt: &[u8]) -> Vec<u8> {
    build_zip(&build_case(ver, bits, method, pw, plain, salt, false, true).f).0
}

/// Minimal central-directory walk for the repo fixture (no crate code involved).
pub(super) fn fixture_entries(zipb: &[u8]) -> Vec<(String, Fields)> {
    let rd16 = |o: usize| u16::from_le_bytes([zipb[o], zipb[o + 1]]) as usize;
    let rd32 = |o: usize| u32::from_le_bytes([zipb[o], zipb[o + 1], zipb[o + 2], zipb[o + 3]]);
    let mut e = zipb.len() - 22;
    while rd32(e) != 0x06054b50 { e -= 1; }
    let n = rd16(e + 10);
    let mut p = rd32(e + 16) as usize;
    let mut out = vec![];
    for _ in 0..n {
        assert_eq!(rd32(p), 0x02014b50);
        let (flag, method, crc, cs, us) = (rd16(p + 8) as u16, rd16(p + 10) as u16, rd32(p + 16), rd32(p + 20), rd32(p + 24));
        let (nl, el, cl, lo) = (rd16(p + 28), rd16(p + 30), rd16(p + 32), rd32(p + 42) as usize);
        let name = String::from_utf8_lossy(&zipb[p + 46..p + 46 + nl]).to_string();
        let extra = zipb[p + 46 + nl..p + 46 + nl + el].to_vec();
        let ds = lo + 30 + rd16(lo + 26) + rd16(lo + 28);
        let body = zipb[ds..ds + cs as usize].to_vec();
        out.push((name, Fields { flag, cmethod: method, extra, csize: cs, usize_: us, crc, body, tail_layout: false, pre: None }));
        p += 46 + nl + el + cl;
    }
    out
}

impl Stream for Aes {
    fn name(&self) -> &'static str {
        "aes"
    }

    fn gen(&self, seed: u64, tier: &str) -> GenOut {
        let mut g = GenOut::default();
        let thorough = tier == "thorough";
        g.rule = "aes.read: archives built by the harness's own AE-x encryptor for every (AE-1|AE-2) x (128|192|256) x \
                  (stored|deflated) x length {0,1,15,16,17,33,100,1000} x password {empty,ascii,binary}, each opened with the \
                  right / no / a wrong password under varying caller buffer schedules and both archive layouts; single-bit \
                  flips of salt / verifier / ciphertext / code of entries <= 64 bytes (every bit in thorough, sampled in \
                  quick); wrong CRC under AE-1 vs AE-2; truncated and too-short entries; flag-clear; inner method 99; \
                  malformed and reordered 0x9901 extra fields; the repo fixture; every aes.read opens its entry TWICE on the same ZipArchive and reports a difference \
                  (each open behaves like the first), right-password cases also behind a preceding open with a wrong / no / the \
                  right password (first=); consumer APIs: besides the explicit read loop, \
                  right-password / flipped / wrong-CRC / truncated cases are repeated through read_to_end, io::copy, \
                  read_exact(declared size)+EOF probe and bytes() in rotation (api=), and the >32 KiB deflated entries whose \
                  first-ciphertext-byte flip ends the compressed stream early through ALL of them. aes.layer: AesReader through the hook over \
                  a short-read source. aes.ctr: key stream chunking through the hook. aes.extra: central header parse. Inner methods \
                  8 / 12 / 93 carry REAL deflate / bzip2 / zstd streams (codec crates called directly; the decoders are \
                  tables: inflate by the low-level Decompress, bzip2 / zstd by their reader adapters over a counting source); \
                  tail cases: a complete compressed stream followed by 36 000 authenticated bytes the decoder never asks \
                  for, honest and with one flipped bit in the tail / code, through every consumer API. corpus/aes.ops: \
                  known-answer vectors (RFC 6070 PBKDF2-HMAC-SHA1, RFC 2202 HMAC-SHA1, FIPS-197 AES, OpenSSL-derived \
                  little-endian-counter CTR key streams through the crate's hook, the WinZip fixture with frozen tables). \
                  distinct = distinct op lines; non-trivial = entry opened and at least one read call made".into();
        let pws: [(&str, Vec<u8>); 3] = [("empty", vec![]), ("ascii", b"helloworld".to_vec()), ("binary", vec![0, 255, 1, 128, 10, 13, 32, 61, 0])];
        let mut idx = 0u64;
        let mut next_rng = || { idx += 1; super::rng_for(seed, "aes", idx) };

        // ---- A. the full matrix (each right-password case once more through a rotating consumer API)
        let mut api_rot = 0usize;
        for ver in [1u16, 2] {
            for bits in [128usize, 192, 256] {
                for method in [0u16, 8, 12, 93] {
                    for len in [0usize, 1, 15, 16, 17, 33, 100, 1000] {
                        for (pn, pw) in pws.iter() {
                            let mut r = next_rng();
                            let plain = mk_plain(&mut r, len);
                            let salt = r.bytes(bits / 16);
                            let b = build_case(ver, bits, method, pw, &plain, &salt, r.chance(1, 2), r.chance(1, 3));
                            let info = format!("ae{ver}/{bits}/m{method}/len{len}/pw-{pn}");
                            let cs = b.f.csize as u64;
                            let bufs = *r.pick(&BUFS);
                            g.push("read.right", read_line("plain", &info, &b.f, bits, cs, Some(pw), &b.enc.inner, &plain, bufs));
                            let api = APIS[1 + (api_rot % 4)];
                            api_rot += 1;
                            g.push(&format!("read.right.api-{api}"), with_api(read_line("plain", &info, &b.f, bits, cs, Some(pw), &b.enc.inner, &plain, bufs), api));
                            {
                                let mut w2 = pw.clone();
                                w2.push(b'y');
                                let (tag, fst) = match api_rot % 3 { 0 => ("wrong", hex(&w2)), 1 => ("none", "none".to_string()), _ => ("right", if pw.is_empty() { "-".to_string() } else { hex(pw) }) };
                                g.push(&format!("read.right.after-{tag}"), format!("{} first={fst}", read_line("plain", &info, &b.f, bits, cs, Some(pw), &b.enc.inner, &plain, bufs)));
                            }
                            g.push("read.nopw", read_line("pwreq", &info, &b.f, bits, cs, None, &b.enc.inner, &plain, bufs));
                            let mut wrong = pw.clone();
                            wrong.push(b'x');
                            g.push("read.wrongpw", read_line("wrongpw", &info, &b.f, bits, cs, Some(&wrong), &b.enc.inner, &plain, bufs));
                            let short: Vec<usize> = (0..r.below(6)).map(|_| r.below(20) as usize).collect();
                            let bufs2 = *r.pick(&BUFS);
                            g.push("layer.right", layer_line("plain", &info, bits, cs, &b.f.body, pw, &b.enc.inner, bufs2, &sched_str(&short)));
                        }
                    }
                }
            }
        }

        // ---- B. single-bit flips of small entries
        for ver in [1u16, 2] {
            for bits in [128usize, 192, 256] {
                for len in [0usize, 1, 16, 17, 30] {
                    let mut r = next_rng();
                    let pw = b"helloworld".to_vec();
                    let plain = mk_plain(&mut r, len);
                    let salt = r.bytes(bits / 16);
                    let b = build_case(ver, bits, 0, &pw, &plain, &salt, true, false);
                    let total = b.enc.payload.len();
                    let mut flips: Vec<usize> = vec![];
                    if thorough {
                        flips.extend(0..total * 8);
                    } else {
                        // one per region + a sample
                        let sl = bits / 16;
                        flips.push(r.below(sl as u64 * 8) as usize);
                        flips.push(sl * 8 + r.below(16) as usize);
                        if len > 0 { flips.push((sl + 2) * 8 + r.below(len as u64 * 8) as usize); }
                        flips.push((total - 10) * 8 + r.below(80) as usize);
                        for _ in 0..30 { flips.push(r.below(total as u64 * 8) as usize); }
                    }
                    for bit in flips {
                        let mut f2 = Fields { body: b.f.body.clone(), extra: b.f.extra.clone(), pre: None, ..b.f };
                        f2.body[bit / 8] ^= 1 << (bit % 8);
                        f2.tail_layout = bit % 2 == 0;
                        let reg = region(bits, total, bit / 8);
                        let info = format!("ae{ver}/{bits}/m0/len{len}/flip-{reg}:{bit}");
                        // (an empty entry's code is compared as well since the repair of K-I)
                        let exp = "tamper";
                        let bufs = BUFS[bit % BUFS.len()];
                        g.push(&format!("read.flip.{reg}"), read_line(exp, &info, &f2, bits, f2.csize as u64, Some(&pw), &b.enc.inner, &plain, bufs));
                        if thorough || bit % 2 == 1 {
                            let api = APIS[1 + (bit / 2) % 4];
                            g.push(&format!("read.flip.api-{api}"), with_api(read_line(exp, &info, &f2, bits, f2.csize as u64, Some(&pw), &b.enc.inner, &plain, bufs), api));
                        }
                        if thorough || bit % 3 == 0 {
                            let short = [bit % 5, 0, bit % 3];
                            g.push(&format!("layer.flip.{reg}"), layer_line(exp, &info, bits, f2.csize as u64, &f2.body, &pw, &b.enc.inner, bufs, &sched_str(&short)));
                        }
                    }
                }
            }
        }
        // compressed entries (deflate, bzip2, zstd), sampled flips
        for ver in [1u16, 2] {
            for (bits, cm) in [(128usize, 8u16), (256, 8), (192, 12), (256, 12), (128, 93), (192, 93)] {
                let mut r = next_rng();
                let pw = b"pw".to_vec();
                let plain = mk_plain(&mut r, 200);
                let salt = r.bytes(bits / 16);
                let b = build_case(ver, bits, cm, &pw, &plain, &salt, false, false);
                let total = b.enc.payload.len();
                for _ in 0..(if thorough { 200 } else { 10 }) {
                    let bit = r.below(total as u64 * 8) as usize;
                    let mut f2 = Fields { body: b.f.body.clone(), extra: b.f.extra.clone(), pre: None, ..b.f };
                    f2.body[bit / 8] ^= 1 << (bit % 8);
                    let info = format!("ae{ver}/{bits}/m{cm}/len200/flip-{}:{bit}", region(bits, total, bit / 8));
                    g.push(&format!("read.flip.m{cm}"), read_line("tamper", &info, &f2, bits, f2.csize as u64, Some(&pw), &b.enc.inner, &plain, "64"));
                    let api = APIS[1 + bit % 4];
                    g.push(&format!("read.flip.m{cm}.api-{api}"), with_api(read_line("tamper", &info, &f2, bits, f2.csize as u64, Some(&pw), &b.enc.inner, &plain, "64"), api));
                }
            }
        }

        // ---- C. CRC: enforced for AE-1, ignored for AE-2
        for ver in [1u16, 2] {
            for bits in [128usize, 192, 256] {
                for method in [0u16, 8, 12, 93] {
                    for len in [0usize, 5, 100] {
                        let mut r = next_rng();
                        let pw = b"helloworld".to_vec();
                        let plain = mk_plain(&mut r, len);
                        let salt = r.bytes(bits / 16);
                        let mut b = build_case(ver, bits, method, &pw, &plain, &salt, r.chance(1, 2), false);
                        let bufs = *r.pick(&BUFS);
                        b.f.crc = b.enc.crc ^ (1 << r.below(32));
                        let info = format!("ae{ver}/{bits}/m{method}/len{len}/crc-wrong");
                        let exp = if ver == 1 { "crcerr" } else { "plain" };
                        g.push("read.crc.wrong", read_line(exp, &info, &b.f, bits, b.f.csize as u64, Some(&pw), &b.enc.inner, &plain, bufs));
                        let api = APIS[1 + (len + bits / 64 + method as usize) % 4];
                        g.push(&format!("read.crc.wrong.api-{api}"), with_api(read_line(exp, &info, &b.f, bits, b.f.csize as u64, Some(&pw), &b.enc.inner, &plain, bufs), api));
                        b.f.crc = b.enc.crc;
                        let info = format!("ae{ver}/{bits}/m{method}/len{len}/crc-real");
                        g.push("read.crc.real", read_line("plain", &info, &b.f, bits, b.f.csize as u64, Some(&pw), &b.enc.inner, &plain, bufs));
                    }
                }
            }
        }

        // ---- D. truncated entries and entries shorter than the fixed overhead
        for ver in [1u16, 2] {
            for bits in [128usize, 192, 256] {
                for (method, len) in [(0u16, 40usize), (8, 300), (0, 0), (12, 300), (93, 300)] {
                    let mut r = next_rng();
                    let pw = b"helloworld".to_vec();
                    let plain = mk_plain(&mut r, len);
                    let salt = r.bytes(bits / 16);
                    let b = build_case(ver, bits, method, &pw, &plain, &salt, true, false);
                    let total = b.enc.payload.len();
                    let sl = bits / 16;
                    let mut cuts = vec![0, sl - 1, sl, sl + 1, sl + 2, sl + 2 + (total - sl - 12) / 2, total - 10, total - 9, total - 1];
                    cuts.dedup();
                    for cut in cuts {
                        let mut f2 = Fields { body: b.f.body[..cut].to_vec(), extra: b.f.extra.clone(), pre: None, ..b.f };
                        f2.tail_layout = true;
                        let info = format!("ae{ver}/{bits}/m{method}/len{len}/cut{cut}of{total}");
                        let bufs = *r.pick(&BUFS);
                        // (cutting inside the code of an empty entry is an error too since the repair of K-I)
                        let exp = "err";
                        g.push("read.truncated", read_line(exp, &info, &f2, bits, f2.csize as u64, Some(&pw), &b.enc.inner, &plain, bufs));
                        let api = APIS[1 + (cut + method as usize) % 4];
                        g.push(&format!("read.truncated.api-{api}"), with_api(read_line(exp, &info, &f2, bits, f2.csize as u64, Some(&pw), &b.enc.inner, &plain, bufs), api));
                        g.push("layer.truncated", layer_line(exp, &info, bits, f2.csize as u64, &f2.body, &pw, &b.enc.inner, bufs, "-"));
                    }
                    // declared size larger than the payload
                    for more in [1u32, 5, 16, 1000] {
                        let mut f2 = Fields { body: b.f.body.clone(), extra: b.f.extra.clone(), pre: None, ..b.f };
                        f2.csize += more;
                        f2.tail_layout = true;
                        let info = format!("ae{ver}/{bits}/m{method}/len{len}/declared+{more}");
                        // (for a compressed entry the missing bytes are asked for when the decoder reports its end)
                        g.push("read.inflated-size", read_line("err", &info, &f2, bits, f2.csize as u64, Some(&pw), &b.enc.inner, &plain, "16"));
                        g.push("layer.inflated-size", layer_line("err", &info, bits, f2.csize as u64, &f2.body, &pw, &b.enc.inner, "16", "3"));
                    }
                    // shorter than salt + 2 + 10
                    for cs in [0usize, 1, sl, sl + 2, sl + 11] {
                        let mut f2 = Fields { body: b.f.body[..cs.min(total)].to_vec(), extra: b.f.extra.clone(), pre: None, ..b.f };
                        f2.csize = cs as u32;
                        f2.tail_layout = cs % 2 == 0;
                        let info = format!("ae{ver}/{bits}/m{method}/short{cs}");
                        g.push("read.short", read_line("err", &info, &f2, bits, cs as u64, Some(&pw), &b.enc.inner, &plain, "16"));
                        g.push("read.short.nopw", read_line("pwreq", &info, &f2, bits, cs as u64, None, &b.enc.inner, &plain, "16"));
                        g.push("layer.short", layer_line("err", &info, bits, cs as u64, &f2.body, &pw, &b.enc.inner, "16", "-"));
                    }
                }
            }
        }

        // ---- (regression cases of K-I, repaired: an entry without ciphertext has its code verified before end-of-file)
        // the size FIELDS are attacker-writable and not covered by the authentication code: shrink the declared
        // compressed size of a non-empty entry (to the bare overhead = "no ciphertext", and to a few bytes more) and
        // leave everything else alone. Whatever is then delivered is not the content: it must be a read error.
        for ver in [1u16, 2] {
            for bits in [128usize, 192, 256] {
                for (method, len) in [(0u16, 3000usize), (8, 3000), (0, 1), (12, 500), (93, 500)] {
                    let mut r = next_rng();
                    let pw = b"helloworld".to_vec();
                    let plain = mk_plain(&mut r, len);
                    let salt = r.bytes(bits / 16);
                    let b = build_case(ver, bits, method, &pw, &plain, &salt, false, r.chance(1, 2));
                    let overhead = (bits / 16 + 12) as u32;
                    let full = b.f.csize;
                    let mut sizes = vec![overhead, overhead + 1, overhead + 16, full - 1];
                    sizes.sort();
                    sizes.dedup();
                    for cs in sizes {
                        if cs >= full { continue; }
                        let f2 = Fields { body: b.f.body.clone(), extra: b.f.extra.clone(), pre: b.f.pre.clone(), csize: cs, ..b.f };
                        let info = format!("ae{ver}/{bits}/m{method}/len{len}/csize-field{cs}of{full}");
                        let api = APIS[(cs as usize + bits / 64) % 5];
                        g.push(&format!("read.size-field.{}", if cs == overhead { "overhead" } else { "shrunk" }),
                            with_api(read_line("tamper", &info, &f2, bits, cs as u64, Some(&pw), &b.enc.inner, &plain, "4096"), api));
                    }
                }
            }
        }

        // ---- a wrong password whose 2-byte verifier collides (found once with `aes.findcoll`):
        // it passes `validate` and then fails at the code check (an empty entry as well since the repair of K-I)
        for ver in [1u16, 2] {
            for len in [0usize, 1, 10, 40] {
                let mut r = next_rng();
                let pw = b"helloworld".to_vec();
                let wrong = b"wrong72506".to_vec();
                let salt = vec![1u8, 2, 3, 4, 5, 6, 7, 8];
                let plain = mk_plain(&mut r, len);
                let b = build_case(ver, 128, 0, &pw, &plain, &salt, len % 2 == 0, false);
                let info = format!("ae{ver}/128/m0/len{len}/verifier-collision");
                let exp = "wrongpw";
                g.push("read.verifier-collision", read_line(exp, &info, &b.f, 128, b.f.csize as u64, Some(&wrong), &b.enc.inner, &plain, "7"));
                g.push("layer.verifier-collision", layer_line("err", &info, 128, b.f.csize as u64, &b.f.body, &wrong, &b.enc.inner, "7", "2"));
            }
        }

        // ---- E/F/G. flag clear, methods, extra-field variants
        {
            let mut r = next_rng();
            let pw = b"helloworld".to_vec();
            for ver in [1u16, 2] {
                for bits in [128usize, 256] {
                    let plain = mk_plain(&mut r, 50);
                    let salt = r.bytes(bits / 16);
                    let strength = (bits / 64 - 1) as u8;
                    let base = build_case(ver, bits, 0, &pw, &plain, &salt, false, false);
                    let cs = base.f.csize as u64;
                    let push = |g: &mut GenOut, kind: &str, exp: &str, tag: &str, f: &Fields, cse: u64, tp: Option<&[u8]>| {
                        let info = format!("ae{ver}/{bits}/{tag}");
                        g.push(kind, read_line(exp, &info, f, bits, cse, tp, &base.enc.inner, &plain, "16"));
                    };
                    let with = |flag: u16, cmethod: u16, extra: Vec<u8>| Fields { flag, cmethod, extra, body: base.f.body.clone(), pre: None, ..base.f };
                    // flag clear
                    let f = with(0, 99, base.f.extra.clone());
                    push(&mut g, "read.flagclear", "pwreq", "flag0-nopw", &f, cs, None);
                    push(&mut g, "read.flagclear", "rejected", "flag0-pw", &f, cs, Some(&pw));
                    // other flag bits set as well
                    let f = with(0x0801, 99, base.f.extra.clone());
                    push(&mut g, "read.flags", "plain", "flag0801", &f, cs, Some(&pw));
                    // inner methods
                    for m in [99u16, 1, 14, 12, 93] {
                        let f = with(1, 99, aes_extra(ver, strength, m));
                        push(&mut g, "read.innermethod", if m == 99 || m == 1 || m == 14 { "err" } else { "nopanic" }, &format!("inner{m}"), &f, cs, Some(&pw));
                        push(&mut g, "read.innermethod", "pwreq", &format!("inner{m}-nopw"), &f, cs, None);
                    }
                    // method 99 without the extra field; AES extra with a non-99 method
                    let f = with(1, 99, vec![]);
                    push(&mut g, "read.noextra", "err", "m99-noextra", &f, cs, Some(&pw));
                    let f = with(1, 99, vec![0x55, 0x54, 5, 0, 1, 0, 0, 0, 0]);
                    push(&mut g, "read.noextra", "err", "m99-otherextra", &f, cs, Some(&pw));
                    let f = with(1, 8, base.f.extra.clone());
                    push(&mut g, "read.method8-aesextra", "plain", "cm8+aesextra", &f, cs, Some(&pw));
                    // malformed records
                    let good = aes_extra(ver, strength, 0);
                    let mut variants: Vec<(String, Vec<u8>)> = vec![];
                    for l in [0u8, 6, 8, 11] { let mut e = good.clone(); e[2] = l; variants.push((format!("len{l}"), e)); }
                    for v in [0u8, 3, 255] { let mut e = good.clone(); e[4] = v; variants.push((format!("ver{v}"), e)); }
                    { let mut e = good.clone(); e[5] = 1; variants.push(("ver-hi".into(), e)); }
                    for (a, b2) in [(b'A', b'F'), (b'E', b'A'), (0, 0)] { let mut e = good.clone(); e[6] = a; e[7] = b2; variants.push((format!("vendor{a}-{b2}"), e)); }
                    for s in [0u8, 4, 255] { let mut e = good.clone(); e[8] = s; variants.push((format!("strength{s}"), e)); }
                    for cut in [4usize, 5, 10] { variants.push((format!("cutextra{cut}"), good[..cut].to_vec())); }
                    for (tag, e) in variants {
                        let f = with(1, 99, e);
                        push(&mut g, "read.badextra", "err", &tag, &f, cs, Some(&pw));
                    }
                    // other records around the AES record
                    let ut = vec![0x55u8, 0x54, 5, 0, 1, 1, 2, 3, 4];
                    let pad = vec![0xfeu8, 0xca, 3, 0, 9, 9, 9];
                    for (tag, e) in [
                        ("ut+aes", [ut.clone(), good.clone()].concat()),
                        ("aes+ut", [good.clone(), ut.clone()].concat()),
                        ("pad+aes+pad", [pad.clone(), good.clone(), pad.clone()].concat()),
                        ("aes+aes", [good.clone(), good.clone()].concat()),
                        ("aes+pad+ut", [good.clone(), pad.clone(), ut.clone()].concat()),
                    ] {
                        let f = with(1, 99, e);
                        push(&mut g, "read.extraorder", "plain", tag, &f, cs, Some(&pw));
                    }
                    // ZIP64 record carrying the sizes, before / after the AES record
                    let mut z64 = vec![0x01u8, 0x00, 16, 0];
                    z64.extend_from_slice(&(plain.len() as u64).to_le_bytes());
                    z64.extend_from_slice(&cs.to_le_bytes());
                    let mut f = with(1, 99, [z64.clone(), good.clone()].concat());
                    f.csize = 0xFFFF_FFFF; f.usize_ = 0xFFFF_FFFF; f.tail_layout = true;
                    push(&mut g, "read.zip64+aes", "plain", "zip64+aes", &f, cs, Some(&pw));
                    let mut f = with(1, 99, [good.clone(), z64.clone()].concat());
                    f.csize = 0xFFFF_FFFF; f.usize_ = 0xFFFF_FFFF; f.tail_layout = true;
                    // (K-C repaired: the AES record is consumed exactly, so the ZIP64 record behind it is applied; before,
                    // the sizes stayed 0xFFFFFFFF and this case was generated with `exp=quirk`, the oracle silent)
                    push(&mut g, "read.aes+zip64", "plain", "aes+zip64", &f, cs, Some(&pw));
                }
            }
        }

        // ---- aes.extra: the central header parse on systematic and random extra fields
        {
            let mut r = next_rng();
            let push = |g: &mut GenOut, kind: &str, cm: u16, e: &[u8], cs: u32, us: u32| {
                g.push(kind, format!("aes.extra cmethod={cm} extra={} csize={cs} usize={us}", hex(e)));
            };
            for l in [0u8, 6, 7, 8] { for ver in 0u16..4 { for s in 0u8..5 { for m in [0u16, 8, 12, 93, 99, 1] {
                let mut e = aes_extra(ver, s, m);
                e[2] = l;
                push(&mut g, "extra.systematic", 99, &e, 100, 50);
            }}}}
            let recs: Vec<Vec<u8>> = vec![
                aes_extra(1, 1, 0), aes_extra(2, 3, 8), aes_extra(2, 2, 99), aes_extra(3, 1, 0),
                vec![0x55, 0x54, 5, 0, 1, 1, 2, 3, 4], vec![0xfe, 0xca, 0, 0], vec![0xfe, 0xca, 3, 0, 9, 9, 9],
                [vec![1u8, 0, 16, 0], 77u64.to_le_bytes().to_vec(), 66u64.to_le_bytes().to_vec()].concat(),
                [vec![1u8, 0, 8, 0], 55u64.to_le_bytes().to_vec()].concat(),
                vec![1, 0, 0, 0], vec![0x01, 0x99, 7, 0, 2, 0], vec![0x01, 0x99, 7, 0, 2, 0, b'A', b'E', 3, 8, 0, 1, 2, 3],
                vec![7, 0, 200, 0, 1, 2],
            ];
            for _ in 0..(if thorough { 20000 } else { 1500 }) {
                let mut e = vec![];
                for _ in 0..r.below(4) { let rc: &Vec<u8> = r.pick(&recs[..]); e.extend_from_slice(rc); }
                if r.chance(1, 6) && !e.is_empty() { let c = r.below(e.len() as u64) as usize; e.truncate(c); }
                if r.chance(1, 8) && !e.is_empty() { let c = r.below(e.len() as u64) as usize; e[c] = r.next() as u8; }
                let cm = *r.pick(&[99u16, 99, 0, 8]);
                let cs = *r.pick(&[100u32, 0xFFFF_FFFF]);
                let us = *r.pick(&[50u32, 0xFFFF_FFFF]);
                push(&mut g, "extra.random", cm, &e, cs, us);
            }
        }

        // ---- aes.ctr: chunking of the key stream
        {
            let mut r = next_rng();
            let scheds = ["1", "16", "15,1", "17", "3,0,5", "32", "1000", "7,9,16,1"];
            for kl in [16usize, 24, 32] {
                for len in [0usize, 1, 15, 16, 17, 31, 32, 33, 100, 257] {
                    for s in scheds.iter() {
                        let key = r.bytes(kl);
                        let data = if r.chance(1, 3) { vec![0u8; len] } else { r.bytes(len) };
                        let ks = keystream(&key, (len + 15) / 16);
                        g.push("ctr", format!("aes.ctr key={} data={} chunks={s} ks={}", hex(&key), hex(&data), hex(&ks)));
                    }
                }
            }
        }

        // ---- H. entries larger than the decoder's 32 KiB input buffer (regression tests for D12: a
        // ciphertext flip that ends the compressed stream early must still fail at end-of-file)
        for (ver, bits, method) in [(2u16, 256usize, 8u16), (1, 128, 8), (2, 192, 0), (1, 256, 0), (2, 128, 12), (2, 256, 93)] {
            if tier == "quickx" && method != 8 { continue; }
            let mut r = next_rng();
            let pw = b"helloworld".to_vec();
            // deflate needs its first stored block to end inside the decoder's first 32 KiB refill with more behind it
            let big_len = if method == 8 { 100_000 } else { 50_000 };
            let plain = r.bytes(big_len);
            let salt = r.bytes(bits / 16);
            let b = build_case(ver, bits, method, &pw, &plain, &salt, false, ver == 2);
            let cs = b.f.csize as u64;
            let info = format!("ae{ver}/{bits}/m{method}/len{big_len}");
            g.push("read.big.right", read_line("plain", &info, &b.f, bits, cs, Some(&pw), &b.enc.inner, &plain, "8192,5000"));
            let total = b.enc.payload.len();
            // a flip in the last ciphertext byte, in the authentication code, and in the first ciphertext byte
            for (tag, bit) in [("ct-last", (total - 11) * 8 + 3), ("mac", (total - 4) * 8), ("ct-first", (bits / 16 + 2) * 8)] {
                let mut f2 = Fields { body: b.f.body.clone(), extra: b.f.extra.clone(), pre: None, ..b.f };
                f2.body[bit / 8] ^= 1 << (bit % 8);
                let info = format!("ae{ver}/{bits}/m{method}/len{big_len}/flip-{tag}:{bit}");
                g.push(&format!("read.big.flip.{tag}"), read_line("tamper", &info, &f2, bits, cs, Some(&pw), &b.enc.inner, &plain, "8192,5000"));
                // every other consumer API: the flip in the first ciphertext byte of a deflated entry ends the compressed
                // stream with most of the ciphertext unread - only `ZipFile::read`'s drain reaches the authentication code
                // (a `read_to_end` / `read_exact` specialisation that goes around `ZipFile::read` returns truncated data)
                for api in &APIS[1..] {
                    if (method == 8 && ((tag == "ct-first" && ver == 2) || *api == "rte")) || (method != 8 && *api == "rte" && tag == "mac") {
                        g.push(&format!("read.big.flip.{tag}.api-{api}"), with_api(read_line("tamper", &info, &f2, bits, cs, Some(&pw), &b.enc.inner, &plain, "8192,5000"), api));
                    }
                }
            }
            if method == 8 {
                g.push("read.big.right.api-rte", with_api(read_line("plain", &info, &b.f, bits, cs, Some(&pw), &b.enc.inner, &plain, "8192,5000"), "rte"));
            }
        }

        // ---- H'. a decoder that finishes EARLY with more than 32 KiB of ciphertext behind it: the inner stream is a
        // complete compressed stream followed by 36 000 further bytes, honestly encrypted and authenticated. Deflate and
        // bzip2 stop at the end of their stream, so only `finish_crypto`'s drain ever reaches the authentication code:
        // the honest entry reads as its content, ONE flipped bit anywhere in the unread tail (or in the code) must be a
        // read error through every consumer API. (zstd goes on to the next frame: the honest entry already fails in the
        // decoder; kept for the comparison with the model.)
        for (k, (ver, bits, method)) in [(2u16, 256usize, 8u16), (1, 128, 8), (2, 192, 12), (1, 256, 12), (2, 128, 93)].into_iter().enumerate() {
            if tier == "quickx" { continue; }
            // every consumer API on the AE-2 deflate / bzip2 cases (no CRC behind the code), loop + read_to_end on the others
            let all_apis = ver == 2 && method != 93;
            let mut r = next_rng();
            let pw = b"helloworld".to_vec();
            let plain = mk_plain(&mut r, 150 + 50 * k);
            let salt = r.bytes(bits / 16);
            let stream = compress_inner(method, &plain);
            let mut inner = stream.clone();
            inner.extend(r.bytes(36_000));
            let b = build_case_inner(ver, bits, method, &pw, inner, &plain, &salt, k % 2 == 0, false);
            let cs = b.f.csize as u64;
            let total = b.enc.payload.len();
            let ct0 = bits / 16 + 2;
            let info = format!("ae{ver}/{bits}/m{method}/stream{}+tail36000", stream.len());
            let honest = if method == 93 { "nopanic" } else { "plain" };
            for api in APIS {
                if all_apis || api == "loop" || (api == "rte" && method != 93) {
                    g.push(&format!("read.tail.honest.m{method}"), with_api(read_line(honest, &info, &b.f, bits, cs, Some(&pw), &b.enc.inner, &plain, "4096"), api));
                }
            }
            let spots = [
                ("tail-first", (ct0 + stream.len()) * 8 + r.below(8) as usize),
                ("tail-33k", (ct0 + 33_000 + r.below(1000) as usize) * 8 + r.below(8) as usize),
                ("tail-last", (total - 11) * 8 + r.below(8) as usize),
                ("mac", (total - 10) * 8 + r.below(80) as usize),
            ];
            for (tag, bit) in spots {
                let mut f2 = Fields { body: b.f.body.clone(), extra: b.f.extra.clone(), pre: None, ..b.f };
                f2.body[bit / 8] ^= 1 << (bit % 8);
                let info = format!("{info}/flip-{tag}:{bit}");
                for api in APIS {
                    if (tag == "tail-33k" && all_apis) || api == "loop" || (api == "rte" && (method != 93 || tag == "tail-33k")) {
                        g.push(&format!("read.tail.flip.{tag}.m{method}"), with_api(read_line("tamper", &info, &f2, bits, cs, Some(&pw), &b.enc.inner, &plain, "4096"), api));
                    }
                }
            }
        }

        // ---- the repo fixture (password from /repo/tests/aes_encryption.rs)
        if let Ok(zb) = std::fs::read("/repo/tests/data/aes_archive.zip") {
            let pw = b"helloworld";
            for (name, f) in fixture_entries(&zb) {
                // locate the 0x9901 record (the fixture has an NTFS record in front of it)
                let mut o = 0usize;
                while o + 4 <= f.extra.len() && !(f.extra[o] == 0x01 && f.extra[o + 1] == 0x99) {
                    o += 4 + u16::from_le_bytes([f.extra[o + 2], f.extra[o + 3]]) as usize;
                }
                let aesrec = f.extra[o..o + 11].to_vec();
                let bits = match aesrec[8] { 1 => 128, 2 => 192, _ => 256 };
                let (k, sl) = (bits / 8, bits / 16);
                let dk = kdf(pw, &f.body[..sl], 2 * k + 2);
                let ct = &f.body[sl + 2..f.body.len() - 10];
                let ks = keystream(&dk[..k], (ct.len() + 15) / 16);
                let inner: Vec<u8> = ct.iter().zip(ks.iter()).map(|(a, b)| a ^ b).collect();
                let inner_method = u16::from_le_bytes([aesrec[9], aesrec[10]]);
                let plain = if inner_method == 8 { inflate_raw(&inner).expect("fixture inflates") } else { inner.clone() };
                assert_eq!(plain, b"Lorem ipsum dolor sit amet", "fixture content");
                let info = format!("fixture/{name}");
                for bufs in ["4096", "1", "7,0,3"] {
                    g.push("read.fixture", read_line("plain", &info, &f, bits, f.csize as u64, Some(pw), &inner, &plain, bufs));
                }
                g.push("read.fixture", read_line("pwreq", &info, &f, bits, f.csize as u64, None, &inner, &plain, "16"));
                g.push("read.fixture", read_line("wrongpw", &info, &f, bits, f.csize as u64, Some(b"HelloWorld"), &inner, &plain, "16"));
            }
        } else {
            g.push("read.fixture-missing", "aes.fixture-missing".into());
        }
        g
    }

    fn run(&self, line: &str) -> String {
        let (op, a) = parse_line(line);
        match op.as_str() {
            "aes.ctr" => run_ctr(&a),
            "aes.layer" => run_layer(&a),
            "aes.read" => run_read(&a),
            "aes.extra" => run_extra(&a),
            "aes.kat" => run_kat(&a),
            // maintenance only (never generated): search a second password with the same 2-byte verifier
            "aes.findcoll" => {
                let (pw, salt, bits) = match (get_hex(&a, "pw"), get_hex(&a, "salt"), get_u64(&a, "bits")) {
                    (Some(p), Some(s), Some(b)) => (p, s, b as usize),
                    _ => return "bad-op".into(),
                };
                let k = bits / 8;
                let want = kdf(&pw, &salt, 2 * k + 2)[2 * k..].to_vec();
                for i in 0u32..2_000_000 {
                    let cand = format!("wrong{i}").into_bytes();
                    let mut out = vec![0u8; 2 * k + 2];
                    pbkdf2::pbkdf2::<hmac::Hmac<sha1::Sha1>>(&cand, &salt, 1000, &mut out);
                    if out[2 * k..] == want[..] {
                        return format!("found {}", hex(&cand));
                    }
                }
                "none".into()
            }
            _ => "bad-op".into(),
        }
    }

    fn oracle(&self, line: &str, resp: &str) -> Vec<OracleFailure> {
        let (op, a) = parse_line(line);
        let mut fails = vec![];
        let mut fail = |w: String| fails.push(OracleFailure { what: w });
        if resp.contains("panic") {
            fail("the implementation panicked".into());
        }
        let exp = a.get("exp").map(|s| s.as_str()).unwrap_or("");
        match op.as_str() {
            "aes.ctr" => {
                if let (Some(d), Some(ks)) = (get_hex(&a, "data"), get_hex(&a, "ks")) {
                    let want: Vec<u8> = d.iter().zip(ks.iter()).map(|(x, y)| x ^ y).collect();
                    if resp != format!("ok {}", hex(&want)) {
                        fail("chunked key stream differs from the single-shot AES-CTR (little-endian counter from 1)".into());
                    }
                }
            }
            "aes.read" => {
                let plain = get_hex(&a, "plain").unwrap_or_default();
                let ok_plain = format!("read=ok len={} h={}", plain.len(), fnv64(&plain));
                let is_ok = resp.contains("read=ok");
                match exp {
                    "plain" => if !resp.contains(&ok_plain) { fail("right password did not yield exactly the original bytes".into()); },
                    "pwreq" => if !resp.ends_with("file=err passwordrequired") { fail("no password did not yield the password-required error".into()); },
                    "wrongpw" => if is_ok { fail("a wrong password was accepted and data returned".into()); },
                    "tamper" => if is_ok {
                        // includes the former K-I (declared compressed size reduced to the bare overhead: the entry read as
                        // a successful EMPTY one, code never compared) - repaired, so it is a violation like any other
                        fail("a modified non-empty entry was read to end-of-file without an error".into());
                    },
                    "emptytamper" => if is_ok && !resp.contains("read=ok len=0 ") { fail("empty entry returned data".into()); },
                    "crcerr" => if !resp.contains("read=err io:other") { fail("AE-1 entry with a wrong CRC was not rejected with the checksum error".into()); },
                    "err" | "rejected" => if is_ok { fail("a malformed / truncated / refused entry was read successfully".into()); },
                    _ => {}
                }
                if is_ok && !matches!(exp, "nopanic" | "quirk" | "tamper") && !resp.contains(&ok_plain) {
                    fail("a successful read returned bytes different from the original".into());
                }
            }
            "aes.kat" => {
                let want = format!("kat {}", a.get("want").cloned().unwrap_or_default());
                if resp != want {
                    fail(format!("known-answer test of a primitive shared by the harness's encryptor and the crate ({} {}): got `{resp}`, the published value is `{want}`",
                        a.get("prim").cloned().unwrap_or_default(), a.get("src").cloned().unwrap_or_default()));
                }
            }
            "aes.layer" => {
                let want = format!("len={} h={} ", a.get("elen").cloned().unwrap_or_default(), a.get("eh").cloned().unwrap_or_default());
                let complete = resp.starts_with("v=ok") && resp.contains(",eof ") || resp.contains("r=eof ");
                match exp {
                    "plain" => if !(complete && resp.contains(&want)) { fail("right password: decrypted bytes differ from the encryptor's input".into()); },
                    "tamper" | "err" => if complete { fail("a modified / truncated entry reached end-of-file without an error".into()); },
                    "emptytamper" => if complete && !resp.contains("len=0 ") { fail("empty entry returned data".into()); },
                    _ => {}
                }
            }
            _ => {}
        }
        fails
    }

    fn nontrivial(&self, line: &str, resp: &str) -> bool {
        if line.starts_with("aes.read") { resp.contains("file=ok") }
        else if line.starts_with("aes.layer") { resp.starts_with("v=ok") }
        else if line.starts_with("aes.kat") { resp.starts_with("kat ") }
        else { resp.starts_with("ok") }
    }
}
