//! C17: `start_file_aligned`, the extra-data calls and `validate_extra_data`, through the public API.
//!
//!   align.start [off=<n>] pre=<n> name_len=<n> large=<0|1> a=<n>
//!       → `ok ret=<returned pad> ds=<reader data_start> xlen=<local extra-length field> lx=<-|za:<n>|hex>
//!             cx=<hex of extra_data()> rt=<0|1> raw=<0|1>`  |  `err <class>`  |  `panic`
//!   align.validate large=<0|1> extra=<hex>
//!       → `api=<ok|err class|panic> hook=<ok|err class|panic>`
//!   align.extra [off=<n>] large=<0|1> mode=shared|split|centralonly local=<hex> central=<hex>
//!       → `ok ds=<n> xlen=<n> lx=<hex> cx=<hex> rt=<0|1> raw=<0|1>` | `err <class> at=<local|central|finish>` | `panic`
//!
//! `off` (default 0): the sink is a sparse one, positioned at `off` before `ZipWriter::new` — the archive begins
//! behind a hole of `off` bytes, so header offsets at and beyond 2^32 (where the central record gets a ZIP64
//! record of its own) cost nothing.  The local header lies at `off + pre`.
//!
//! `cx` is everything `ZipFile::extra_data()` returns: the central record's whole extra field, i.e. the ZIP64
//! record the writer generates (present iff a size or the header offset is ≥ 0xFFFFFFFF) followed by the central
//! extra data the caller supplied.
use super::{GenOut, OracleFailure, Stream};
use crate::prng::Rng;
use crate::util::*;
use super::z64::Sparse;
use std::io::{Cursor, Read, Seek, SeekFrom, Write};
use std::mem::ManuallyDrop;
use std::panic::AssertUnwindSafe;
use zip::write::FileOptions;
use zip::{CompressionMethod, ZipArchive, ZipWriter};

pub struct Align;

const CONTENT: &[u8] = b"aligned entry payload \x00\x01\x02\xff";
const PRE_NAME: &str = "p";

/// Header IDs of APPNOTE 6.3.9 sections 4.5.2 and 4.6.1 (the oracle's own copy).
pub const RESERVED: [u16; 49] = [
    0x0001, 0x0007, 0x0008, 0x0009, 0x000a, 0x000c, 0x000d, 0x000e, 0x000f, 0x0014, 0x0015, 0x0016, 0x0017,
    0x0018, 0x0019, 0x0020, 0x0021, 0x0022, 0x0023, 0x0065, 0x0066, 0x4690, 0x07c8, 0x2605, 0x2705, 0x2805,
    0x334d, 0x4341, 0x4453, 0x4704, 0x470f, 0x4b46, 0x4c41, 0x4d49, 0x4f4c, 0x5356, 0x5455, 0x554e, 0x5855,
    0x6375, 0x6542, 0x7075, 0x756e, 0x7855, 0xa11e, 0xa220, 0xfd4a, 0x9901, 0x9902,
];

fn opts(large: bool) -> FileOptions {
    FileOptions::default().compression_method(CompressionMethod::Stored).large_file(large)
}

/// In-memory sink, or (for `off` > 0) the sparse sink of the z64 stream positioned at `off`.
pub enum Sink {
    Mem(Cursor<Vec<u8>>),
    Sparse(Sparse),
}
impl Write for Sink {
    fn write(&mut self, b: &[u8]) -> std::io::Result<usize> {
        match self { Sink::Mem(c) => c.write(b), Sink::Sparse(s) => s.write(b) }
    }
    fn flush(&mut self) -> std::io::Result<()> { Ok(()) }
}
impl Read for Sink {
    fn read(&mut self, b: &mut [u8]) -> std::io::Result<usize> {
        match self { Sink::Mem(c) => c.read(b), Sink::Sparse(s) => s.read(b) }
    }
}
impl Seek for Sink {
    fn seek(&mut self, p: SeekFrom) -> std::io::Result<u64> {
        match self { Sink::Mem(c) => c.seek(p), Sink::Sparse(s) => s.seek(p) }
    }
}

type W = ZipWriter<Sink>;

/// The largest `off` / `pre` the stream runs (anything beyond is `bad-op` on both sides).
const MAX_OFF: u64 = 1 << 40;
const MAX_PRE: u64 = 1 << 20;

/// A writer whose destructor never runs (a writer left in a failed state would otherwise run
/// `finalize` again while unwinding or print to stderr).
fn new_writer(off: u64, pre: u64) -> Option<ManuallyDrop<W>> {
    if off > MAX_OFF || pre > MAX_PRE {
        return None;
    }
    let sink = if off > 0 {
        let mut s = Sparse::new();
        s.seek(SeekFrom::Start(off)).ok()?;
        Sink::Sparse(s)
    } else {
        Sink::Mem(Cursor::new(Vec::new()))
    };
    let mut zw = ManuallyDrop::new(ZipWriter::new(sink));
    if pre > 0 {
        let hdr = 30 + PRE_NAME.len() as u64;
        if pre < hdr {
            return None;
        }
        zw.start_file(PRE_NAME, opts(false)).ok()?;
        // chunks below 64 KiB: the sparse sink keeps those verbatim
        let mut left = (pre - hdr) as usize;
        let chunk = vec![0x55u8; 32768];
        while left > 0 {
            let k = left.min(chunk.len());
            zw.write_all(&chunk[..k]).ok()?;
            left -= k;
        }
    }
    Some(zw)
}

fn read_at(s: &mut Sink, pos: u64, n: usize) -> Option<Vec<u8>> {
    s.seek(SeekFrom::Start(pos)).ok()?;
    let mut v = vec![0u8; n];
    s.read_exact(&mut v).ok()?;
    Some(v)
}

struct ReadBack {
    ds: u64,
    xlen: u16,
    local_extra: Vec<u8>, // local extra field without the 20-byte ZIP64 record of large files
    central_extra: Vec<u8>,
    rt: bool,
    raw: bool,
}

/// Finish the archive, parse the local header at `header_start` by hand and re-open with the reader.
fn read_back(zw: &mut W, header_start: u64, large: bool, index: usize) -> Result<ReadBack, String> {
    zw.write_all(CONTENT).map_err(|e| format!("{} at=content", ioerr_class(&e)))?;
    let mut sink = zw.finish().map_err(|e| format!("{} at=finish", zerr_class(&e)))?;
    let fixed = read_at(&mut sink, header_start, 30).ok_or("bad-local-header")?;
    if fixed[..4] != [0x50, 0x4b, 0x03, 0x04] {
        return Err("bad-local-header".into());
    }
    let nlen = u16::from_le_bytes([fixed[26], fixed[27]]) as u64;
    let xlen = u16::from_le_bytes([fixed[28], fixed[29]]);
    let mut local_extra = read_at(&mut sink, header_start + 30 + nlen, xlen as usize).ok_or("bad-local-header")?;
    if large {
        if local_extra.len() < 20 || local_extra[..4] != [0x01, 0x00, 0x10, 0x00] {
            return Err("bad-zip64-local".into());
        }
        local_extra.drain(..20);
    }
    let (ds, central_extra, rt) = {
        let mut ar = ZipArchive::new(&mut sink).map_err(|e| format!("reader {}", zerr_class(&e)))?;
        let mut f = ar.by_index(index).map_err(|e| format!("reader {}", zerr_class(&e)))?;
        let ds = f.data_start();
        let central_extra = f.extra_data().to_vec();
        let mut got = vec![];
        let rt = f.read_to_end(&mut got).is_ok() && got == CONTENT;
        (ds, central_extra, rt)
    };
    let raw = read_at(&mut sink, ds, CONTENT.len()).map(|b| b == CONTENT).unwrap_or(false);
    Ok(ReadBack { ds, xlen, local_extra, central_extra, rt, raw })
}

fn show_lx(x: &[u8]) -> String {
    if x.len() >= 4 && x[0] == b'z' && x[1] == b'a' {
        let n = u16::from_le_bytes([x[2], x[3]]) as usize;
        if x.len() == 4 + n && x[4..].iter().all(|&b| b == 0) {
            return format!("za:{n}");
        }
    }
    hex(x)
}

fn run_start(off: u64, pre: u64, name_len: u64, large: bool, a: u64) -> String {
    if a > 65535 || name_len > 70000 {
        return "bad-op".into();
    }
    let mut zw = match new_writer(off, pre) {
        Some(z) => z,
        None => return "bad-op".into(),
    };
    let name = "n".repeat(name_len as usize);
    let r = catch(AssertUnwindSafe(|| {
        let ret = match zw.start_file_aligned(name, opts(large), a as u16) {
            Ok(r) => r,
            Err(e) => return zerr_class(&e),
        };
        let index = if pre > 0 { 1 } else { 0 };
        match read_back(&mut zw, off + pre, large, index) {
            Ok(b) => format!(
                "ok ret={ret} ds={} xlen={} lx={} cx={} rt={} raw={}",
                b.ds, b.xlen, show_lx(&b.local_extra), hex(&b.central_extra), b.rt as u8, b.raw as u8
            ),
            Err(e) => e,
        }
    }));
    r.unwrap_or_else(|_| "panic".into())
}

fn class_unit(r: Result<zip::result::ZipResult<()>, String>) -> String {
    match r {
        Ok(Ok(())) => "ok".into(),
        Ok(Err(e)) => zerr_class(&e),
        Err(_) => "panic".into(),
    }
}

fn run_validate(large: bool, extra: Vec<u8>) -> String {
    let mut zw = new_writer(0, 0).unwrap();
    let ex = extra.clone();
    let api = class_unit(catch(AssertUnwindSafe(|| {
        zw.start_file_with_extra_data("v", opts(large))?;
        zw.write_all(&ex)?;
        zw.end_extra_data().map(|_| ())
    })));
    let hook = class_unit(catch(AssertUnwindSafe(|| {
        use zip::verif_hooks::{AtomicU64, System, ZipFileData};
        let file = ZipFileData {
            system: System::Unix,
            version_made_by: 46,
            encrypted: false,
            using_data_descriptor: false,
            compression_method: CompressionMethod::Stored,
            compression_level: None,
            last_modified_time: zip::DateTime::default(),
            crc32: 0,
            compressed_size: 0,
            uncompressed_size: 0,
            file_name: "v".into(),
            file_name_raw: vec![],
            extra_field: extra,
            file_comment: String::new(),
            header_start: 0,
            central_header_start: 0,
            data_start: AtomicU64::new(0),
            external_attributes: 0,
            large_file: large,
            aes_mode: None,
        };
        zip::write::verif_hooks::validate_extra_data(&file)
    })));
    format!("api={api} hook={hook}")
}

fn run_extra(off: u64, large: bool, mode: &str, local: Vec<u8>, central: Vec<u8>) -> String {
    let mut zw = match new_writer(off, 0) {
        Some(z) => z,
        None => return "bad-op".into(),
    };
    let r = catch(AssertUnwindSafe(|| {
        if let Err(e) = zw.start_file_with_extra_data("x", opts(large)) {
            return format!("{} at=start", zerr_class(&e));
        }
        match mode {
            "shared" => {
                if let Err(e) = zw.write_all(&local) {
                    return format!("{} at=write", ioerr_class(&e));
                }
                if let Err(e) = zw.end_extra_data() {
                    return format!("{} at=local", zerr_class(&e));
                }
            }
            "split" | "centralonly" => {
                if mode == "split" {
                    if let Err(e) = zw.write_all(&local) {
                        return format!("{} at=write", ioerr_class(&e));
                    }
                }
                if let Err(e) = zw.end_local_start_central_extra_data() {
                    return format!("{} at=local", zerr_class(&e));
                }
                if let Err(e) = zw.write_all(&central) {
                    return format!("{} at=write", ioerr_class(&e));
                }
                if let Err(e) = zw.end_extra_data() {
                    return format!("{} at=central", zerr_class(&e));
                }
            }
            _ => return "bad-op".into(),
        }
        match read_back(&mut zw, off, large, 0) {
            Ok(b) => format!(
                "ok ds={} xlen={} lx={} cx={} rt={} raw={}",
                b.ds, b.xlen, hex(&b.local_extra), hex(&b.central_extra), b.rt as u8, b.raw as u8
            ),
            Err(e) => e,
        }
    }));
    r.unwrap_or_else(|_| "panic".into())
}

// ---------------------------------------------------------------------------------------------
// generators

/// Smallest header offset `pre` (0 or ≥ 31) for which the padding of alignment `a` is `want_pad`.
fn pre_for_pad(a: u64, want_pad: u64, name_len: u64, large: bool) -> Option<u64> {
    if a < 2 || want_pad >= a {
        return None;
    }
    let fixed = 30 + name_len + if large { 20 } else { 0 };
    // (ds + 4 + pad) % a == 0 and ds % a != 0
    let min_ds = 31 + fixed;
    let mut k = (min_ds + 4 + want_pad) / a + 1;
    loop {
        let ds = k * a - 4 - want_pad;
        if ds >= min_ds && ds % a != 0 {
            return Some(ds - fixed);
        }
        if ds % a == 0 {
            return None; // pad = a - 4 (mod a): the entry is already aligned, no padding is written
        }
        k += 1;
    }
}

fn reserved_id(r: &mut Rng) -> u64 {
    *r.pick(&RESERVED) as u64
}

fn free_id(r: &mut Rng) -> u64 {
    loop {
        let k = match r.below(4) {
            0 => *r.pick(&[32u64, 33, 0x617a, 0xffff, 0xfffe, 0x0024, 0x0064, 0x0067, 0x9900, 0x9903, 0xcafe]),
            _ => r.range(32, 65535),
        };
        if k > 31 && !RESERVED.contains(&(k as u16)) {
            return k;
        }
    }
}

fn record(id: u64, declared: u64, payload_len: usize, r: &mut Rng) -> Vec<u8> {
    let mut v = vec![id as u8, (id >> 8) as u8, declared as u8, (declared >> 8) as u8];
    v.extend(r.bytes(payload_len));
    v
}

/// One extra-data byte string; `kind` names what was built.
fn gen_extra(r: &mut Rng, max_total: usize) -> (String, Vec<u8>) {
    let n = r.below(5) as usize;
    let mut v = vec![];
    let mut kind = "wf";
    for _ in 0..n {
        let room = max_total.saturating_sub(v.len() + 4);
        let size = match r.below(8) {
            0 => 0,
            1 => 1,
            2 => r.below(300) as usize,
            _ => r.below(24) as usize,
        }
        .min(room);
        let id = match r.below(12) {
            0 => { kind = "reserved"; reserved_id(r) }
            1 => { kind = "low"; r.below(32) }
            2 => { kind = "zip64"; 1 }
            _ => free_id(r),
        };
        v.extend(record(id, size as u64, size, r));
    }
    match r.below(10) {
        0 if !v.is_empty() => {
            // truncated tail: cut 1..5 bytes
            let cut = (1 + r.below(5) as usize).min(v.len());
            v.truncate(v.len() - cut);
            kind = "truncated";
        }
        1 => {
            // trailing 1..3 bytes (incomplete header)
            let t = 1 + r.below(3) as usize;
            v.extend(r.bytes(t));
            kind = "tail";
        }
        2 => {
            // declared size exceeds what is left
            let have = r.below(6) as usize;
            let id = free_id(r);
            let declared = if r.chance(1, 4) { 65535 } else { have as u64 + 1 + r.below(200) };
            v.extend(record(id, declared, have, r));
            kind = "oversize";
        }
        _ => {}
    }
    (kind.to_string(), v)
}

/// Well-formed data of exactly `total` bytes (≥ 4) made of `parts` records.
fn exact_len(r: &mut Rng, total: usize, parts: usize) -> Vec<u8> {
    let mut v = vec![];
    let mut left = total;
    for _ in 1..parts {
        let size = (r.below(50) as usize).min(left.saturating_sub(8));
        if left < 8 {
            break;
        }
        let id = free_id(r);
        v.extend(record(id, size as u64, size, r));
        left -= 4 + size;
    }
    // a single record cannot carry more than 65535 payload bytes: fill the rest with empty records
    while left >= 4 {
        let size = (left - 4).min(65535);
        let id = free_id(r);
        v.extend(record(id, size as u64, size, r));
        left -= 4 + size;
    }
    v.extend(std::iter::repeat(0).take(left));
    v
}

fn wf_extra(x: &[u8]) -> bool {
    let mut d = x;
    if x.len() > 65535 {
        return false;
    }
    while !d.is_empty() {
        if d.len() < 4 {
            return false;
        }
        let id = u16::from_le_bytes([d[0], d[1]]);
        let size = u16::from_le_bytes([d[2], d[3]]) as usize;
        if id <= 31 || RESERVED.contains(&id) || size > d.len() - 4 {
            return false;
        }
        d = &d[4 + size..];
    }
    true
}

/// The ZIP64 record a central record must carry for an entry of this stream (its sizes are a few bytes): the
/// header offset alone, present iff it does not fit below the 32-bit marker value (APPNOTE 4.5.3, 4.4.16).
fn central_zip64(header_start: u64) -> Vec<u8> {
    if header_start >= 0xFFFF_FFFF {
        let mut v = vec![0x01, 0x00, 0x08, 0x00];
        v.extend(header_start.to_le_bytes());
        v
    } else {
        vec![]
    }
}

fn field<'a>(resp: &'a str, key: &str) -> Option<&'a str> {
    resp.split(' ').find_map(|kv| kv.strip_prefix(key).and_then(|r| r.strip_prefix('=')))
}

impl Stream for Align {
    fn name(&self) -> &'static str {
        "align"
    }

    fn gen(&self, seed: u64, tier: &str) -> GenOut {
        let mut g = GenOut::default();
        let thorough = tier == "thorough";
        g.exhaustive = thorough;
        g.rule = "align.start: alignments (quick: 13 boundary values + 200 random; thorough: every value 0..65535) x 3 \
                  preceding offsets (0, a random one, the one that makes the pad maximal = a-1) x large_file 0/1, plus \
                  every pad value 65500..65534 for alignments 65533..65535 (the 16-bit extra-length limit, with and \
                  without the 20-byte ZIP64 record); align.validate / align.extra: record lists over unreserved, \
                  reserved, <=31 and 0x0001 IDs, sizes 0..300 (+ single records up to 65531), truncated tails, \
                  incomplete headers, oversize declarations, exact total lengths 65511..65536, modes \
                  shared/split/centralonly x large_file; the same calls over a sparse sink positioned at \
                  off in {2^32-3 .. 2^32+1, 5 GiB} (header offset at / beyond the ZIP64 marker: the central record \
                  carries its own ZIP64 record in front of the caller's data), central extra lengths 65508..65535 \
                  there (K-G boundary 65523/65524). distinct = distinct op lines; non-trivial = the call \
                  sequence succeeded and the archive was read back"
            .into();
        let mut r = super::rng_for(seed, "align", 0);
        // ---- start_file_aligned
        let mut aligns: Vec<u64> = vec![0, 1, 2, 3, 4, 7, 8, 16, 64, 512, 4096, 32768, 65535];
        if thorough {
            aligns = (0..65536u64).collect();
        } else {
            for _ in 0..200 {
                let a = match r.below(4) {
                    0 => r.range(65500, 65535),
                    1 => 1 << r.below(16),
                    _ => r.below(65536),
                };
                aligns.push(a);
            }
        }
        for &a in &aligns {
            for large in [false, true] {
                let l = large as u8;
                let nl = if thorough { 1 + a % 7 } else { 1 + r.below(40) };
                g.push("start.pre0", format!("align.start pre=0 name_len={nl} large={l} a={a}"));
                let pre = 31 + r.below(if thorough { 300 } else { 5000 });
                g.push("start.prernd", format!("align.start pre={pre} name_len={nl} large={l} a={a}"));
                match pre_for_pad(a, a.saturating_sub(1), nl, large) {
                    Some(p) => g.push("start.maxpad", format!("align.start pre={p} name_len={nl} large={l} a={a}")),
                    None => g.push("start.maxpad", format!("align.start pre={} name_len={nl} large={l} a={a}", 31 + a)),
                }
            }
        }
        for a in [65533u64, 65534, 65535] {
            for pad in 65500..a {
                for large in [false, true] {
                    let nl = 1 + r.below(9);
                    if let Some(p) = pre_for_pad(a, pad, nl, large) {
                        g.push("start.limit", format!("align.start pre={p} name_len={nl} large={} a={a}", large as u8));
                    }
                }
            }
        }
        for nl in [0u64, 1, 255, 65535, 65536] {
            g.push("start.name", format!("align.start pre=0 name_len={nl} large=0 a=64"));
            g.push("start.name", format!("align.start pre=100 name_len={nl} large=1 a=4096"));
        }
        // ---- validate_extra_data and placement
        let n = if thorough { 60_000 } else { 3_000 };
        for i in 0..n {
            let (k, x) = gen_extra(&mut r, 2000);
            let large = r.below(2);
            g.push(&format!("validate.{k}"), format!("align.validate large={large} extra={}", hex(&x)));
            if i % 2 == 0 {
                let (k2, y) = gen_extra(&mut r, 600);
                let mode = *r.pick(&["shared", "split", "split", "centralonly"]);
                let _ = k2;
                g.push(
                    &format!("extra.{mode}"),
                    format!("align.extra large={large} mode={mode} local={} central={}", hex(&x), hex(&y)),
                );
            }
        }
        // every header ID once (thorough) / every reserved and low ID (quick)
        let ids: Vec<u64> = if thorough { (0..65536).collect() } else { (0..40).chain(RESERVED.iter().map(|&x| x as u64)).chain([0x617a, 0xffff]).collect() };
        for id in ids {
            let x = record(id, 2, 2, &mut r);
            g.push("validate.id", format!("align.validate large=0 extra={}", hex(&x)));
        }
        // total lengths around the 16-bit limit
        for total in [65511usize, 65512, 65514, 65515, 65516, 65517, 65531, 65534, 65535, 65536, 65539, 70000] {
            for parts in [1usize, 3] {
                for large in [0, 1] {
                    let x = exact_len(&mut r, total, parts);
                    g.push("validate.limit", format!("align.validate large={large} extra={}", hex(&x)));
                }
            }
        }
        for total in [65515usize, 65516, 65535, 65536] {
            for large in [0, 1] {
                let x = exact_len(&mut r, total, 2);
                let small = record(free_id(&mut r), 3, 3, &mut r);
                for mode in ["shared", "split", "centralonly"] {
                    g.push("extra.limit", format!("align.extra large={large} mode={mode} local={} central={}", hex(&x), hex(&small)));
                }
                g.push("extra.limit", format!("align.extra large={large} mode=split local={} central={}", hex(&small), hex(&x)));
            }
        }
        // ---- header offsets around 2^32 (sparse sink positioned at `off`): the central record gets a ZIP64 record
        // of its own exactly from 0xFFFFFFFF on, in front of whatever central extra data the caller supplied
        const OFFS: [u64; 6] = [0xFFFF_FFFD, 0xFFFF_FFFE, 0xFFFF_FFFF, 0x1_0000_0000, 0x1_0000_0001, 5 << 30];
        for &off in &OFFS {
            for large in [0u8, 1] {
                for a in [0u64, 64, 4096, 65535, r.below(65536)] {
                    let nl = 1 + r.below(40);
                    g.push("start.off", format!("align.start off={off} pre=0 name_len={nl} large={large} a={a}"));
                }
                let pre = 31 + r.below(3000);
                let a = 1 << r.below(16);
                g.push("start.off", format!("align.start off={off} pre={pre} name_len=3 large={large} a={a}"));
                // pre makes off + pre cross the threshold from below
                if off < 0xFFFF_FFFF {
                    g.push("start.off", format!("align.start off={} pre={} name_len=3 large={large} a={a}", off - 40, 40 + r.below(3)));
                }
                for mode in ["shared", "split", "centralonly"] {
                    let (lx, ly) = (4 + r.below(60) as usize, 4 + r.below(60) as usize);
                    let x = exact_len(&mut r, lx, 2);
                    let y = exact_len(&mut r, ly, 1);
                    g.push("extra.off", format!("align.extra off={off} large={large} mode={mode} local={} central={}", hex(&x), hex(&y)));
                }
            }
        }
        for _ in 0..40 {
            let off = *r.pick(&OFFS);
            let (_, x) = gen_extra(&mut r, 300);
            let (_, y) = gen_extra(&mut r, 300);
            let mode = *r.pick(&["shared", "split", "centralonly"]);
            let large = r.below(2);
            g.push("extra.off", format!("align.extra off={off} large={large} mode={mode} local={} central={}", hex(&x), hex(&y)));
        }
        // central extra data that every extra-data call accepts but that does not fit next to the 12-byte ZIP64
        // record of the central header (K-G): the exact boundary is 65523 / 65524 bytes
        if tier != "quickx" {
            let small = record(free_id(&mut r), 3, 3, &mut r);
            for total in 65508usize..=65535 {
                let x = exact_len(&mut r, total, 2);
                g.push("extra.off.limit", format!("align.extra off=4294967296 large=0 mode=centralonly local=- central={}", hex(&x)));
            }
            for total in [65515usize, 65516, 65523, 65524, 65535] {
                let x = exact_len(&mut r, total, 2);
                for (off, large, mode) in [
                    (0xFFFF_FFFEu64, 0, "centralonly"), (0xFFFF_FFFF, 0, "centralonly"), (5 << 30, 0, "split"),
                    (0x1_0000_0000, 0, "shared"), (0x1_0000_0000, 1, "centralonly"), (0x1_0000_0000, 1, "shared"),
                ] {
                    let (lo, ce) = if mode == "shared" { (&x, &small) } else { (&small, &x) };
                    g.push("extra.off.limit", format!("align.extra off={off} large={large} mode={mode} local={} central={}", hex(lo), hex(ce)));
                }
            }
        }
        g
    }

    fn run(&self, line: &str) -> String {
        let (op, a) = parse_line(line);
        let n = |k: &str| get_u64(&a, k);
        match op.as_str() {
            "align.start" => match (n("pre"), n("name_len"), n("large"), n("a")) {
                (Some(pre), Some(nl), Some(l), Some(al)) if l <= 1 => run_start(n("off").unwrap_or(0), pre, nl, l == 1, al),
                _ => "bad-op".into(),
            },
            "align.validate" => match (n("large"), get_hex(&a, "extra")) {
                (Some(l), Some(x)) if l <= 1 => run_validate(l == 1, x),
                _ => "bad-op".into(),
            },
            "align.extra" => match (n("large"), a.get("mode"), get_hex(&a, "local"), get_hex(&a, "central")) {
                (Some(l), Some(m), Some(lo), Some(ce)) if l <= 1 => run_extra(n("off").unwrap_or(0), l == 1, m, lo, ce),
                _ => "bad-op".into(),
            },
            _ => "bad-op".into(),
        }
    }

    fn oracle(&self, line: &str, resp: &str) -> Vec<OracleFailure> {
        let mut f = vec![];
        let (op, a) = parse_line(line);
        let n = |k: &str| get_u64(&a, k).unwrap_or(0);
        let mut bad = |w: String| f.push(OracleFailure { what: w });
        if resp == "bad-op" {
            return f;
        }
        if resp.contains("panic") {
            bad(format!("panic in {op}"));
            return f;
        }
        let num = |k: &str| field(resp, k).and_then(|v| v.parse::<u64>().ok());
        match op.as_str() {
            "align.start" => {
                if resp.starts_with("ok") {
                    let (al, pre, nl, large) = (n("a"), n("off") + n("pre"), n("name_len"), n("large"));
                    let (ds, ret, xlen) = (num("ds").unwrap_or(1), num("ret").unwrap_or(0), num("xlen").unwrap_or(0));
                    if al > 1 && ds % al != 0 {
                        bad(format!("entry data is not aligned: data_start {ds} % {al} = {}", ds % al));
                    }
                    if field(resp, "rt") != Some("1") || field(resp, "raw") != Some("1") {
                        bad(format!("content does not round-trip / is not at data_start: `{resp}`"));
                    }
                    let prelim = pre + 30 + nl + 20 * large;
                    if ds != prelim + ret {
                        bad(format!("returned padding {ret} is not data_start {ds} - preliminary data start {prelim}"));
                    }
                    if xlen != 20 * large + ret {
                        bad(format!("local extra-length field {xlen} != {} ", 20 * large + ret));
                    }
                    // nothing of the padding reaches the central record: its extra field is the ZIP64 record the
                    // format requires for this header offset (if any) and nothing else
                    let want_cx = central_zip64(pre);
                    if field(resp, "cx") != Some(hex(&want_cx).as_str()) {
                        bad(format!("padding leaked into the central record (expected extra_data() = `{}`): `{resp}`", hex(&want_cx)));
                    }
                    if al > 1 && ret >= al + 4 {
                        bad(format!("padding {ret} is not minimal for alignment {al}"));
                    }
                } else if !resp.starts_with("err ") {
                    bad(format!("unexpected response `{resp}`"));
                }
            }
            "align.validate" => {
                let x = get_hex(&a, "extra").unwrap_or_default();
                let want = wf_extra(&x) && x.len() as u64 + 20 * n("large") <= 65535;
                let api_ok = field(resp, "api") == Some("ok");
                if want != api_ok {
                    bad(format!("extra data acceptance differs from APPNOTE 4.5: well-formed={want}, got `{resp}`"));
                }
                if !want && !resp.starts_with("api=err") {
                    bad(format!("malformed extra data not refused with an error: `{resp}`"));
                }
            }
            "align.extra" => {
                let mode = a.get("mode").map(|s| s.as_str()).unwrap_or("");
                let large = n("large");
                let central_in = get_hex(&a, "central").unwrap_or_default();
                let local_in = if mode == "centralonly" { vec![] } else { get_hex(&a, "local").unwrap_or_default() };
                let fits = |x: &[u8]| wf_extra(x) && x.len() as u64 + 20 * large <= 65535;
                let want = fits(&local_in) && (mode == "shared" || fits(&central_in));
                let off = n("off");
                let z64 = central_zip64(off);
                let central_part = if mode == "shared" { &local_in } else { &central_in };
                // K-G: every extra-data call accepted the data, but the central record has no room for it
                // next to the ZIP64 record the header offset requires: `finish()` fails, for good
                let unfinishable = want && z64.len() + central_part.len() > 65535;
                if unfinishable && resp == "err invalid at=finish" {
                    bad(format!(
                        "K-G central-extra-unfinishable: every extra-data call accepted {} bytes of central extra data for an entry at \
                         offset {off}, whose central record also needs a {}-byte ZIP64 record: {} > 65535, finish() fails \
                         (InvalidArchive) and the archive can never be finished",
                        central_part.len(), z64.len(), z64.len() + central_part.len()
                    ));
                } else if want != resp.starts_with("ok") {
                    bad(format!("acceptance differs from APPNOTE 4.5: expected success={want}, got `{}`", &resp[..resp.len().min(60)]));
                }
                if resp.starts_with("ok") {
                    if field(resp, "lx") != Some(hex(&local_in).as_str()) {
                        bad("local header does not carry the local extra data verbatim".into());
                    }
                    // the reader returns the central record's whole extra field: the ZIP64 record of the format
                    // (exactly when the header offset needs one), then the caller's central part verbatim
                    let mut want_cx = z64.clone();
                    want_cx.extend_from_slice(central_part);
                    if field(resp, "cx") != Some(hex(&want_cx).as_str()) {
                        bad("central record (reader's extra_data) is not [ZIP64 record iff needed] ++ the central extra data verbatim".into());
                    }
                    if num("ds") != Some(off + 30 + 1 + 20 * large + local_in.len() as u64) || num("xlen") != Some(20 * large + local_in.len() as u64) {
                        bad(format!("data_start / local extra length inconsistent with the local extra data"));
                    }
                    if field(resp, "rt") != Some("1") || field(resp, "raw") != Some("1") {
                        bad("content does not round-trip".into());
                    }
                } else if !resp.starts_with("err ") {
                    bad(format!("unexpected response `{}`", &resp[..resp.len().min(60)]));
                }
            }
            _ => {}
        }
        f
    }

    fn nontrivial(&self, _line: &str, resp: &str) -> bool {
        resp.starts_with("ok") || resp.starts_with("api=ok")
    }
}
