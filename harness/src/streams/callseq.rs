//! `callseq` (C12): every sequence of `ZipWriter` calls up to a depth bound over a small alphabet that
//! covers the whole public call set, legal or not.  The op lines are ordinary `write.run` lines, so the
//! Lean side is `Driver/Ops/Write.lean` unchanged; what is new is the exhaustive generator and the
//! implementation-only oracle "no call panics; documented misuse returns an error".
use super::write::{make_line, WriteStream};
use super::{GenOut, OracleFailure, Stream};
use crate::util::*;
use std::io::{Cursor, Write};

pub struct CallSeq;

/// DOS date 1980-01-01 / time 0; the option token is `method,level,date,time,perm,large,password`.
const ALPHABET: &[&str] = &[
    "sf,61,0,n,33,0,n,0,n",       // start_file "a", Stored
    "sf,62,8,99,33,0,n,0,n",      // start_file "b", Deflated level 99   (refused: level out of range)
    "sf,63,8,n,33,0,n,0,n",       // start_file "c", Deflated default level
    "sf,69,0,n,33,0,n,0,7077",    // start_file "i", Stored, ZipCrypto password "pw"
    "sx,64,0,n,33,0,n,0,n",       // start_file_with_extra_data "d", Stored
    "sx,65,8,99,33,0,n,0,n",      // start_file_with_extra_data "e", Deflated level 99 (the D11 shape)
    "sa,66,0,n,33,0,n,0,n,4",     // start_file_aligned "f", align 4
    "w,6869",                     // write "hi"
    "w,feca0000",                 // write a well-formed extra record (id 0xcafe, empty) — or 4 data bytes
    "w,01000000",                 // write a ZIP64-id record (reserved as extra data) — or 4 data bytes
    "ex",                         // end_extra_data
    "el",                         // end_local_start_central_extra_data
    "dir,67,0,n,33,0,n,0,n",      // add_directory "g"
    "sym,68,74,0,n,33,0,n,0,n",   // add_symlink "h" -> "t"
    "c,6b",                       // set_raw_comment "k"
    "fl",                         // Write::flush
    "rc,0,0,same",                // raw_copy_file(source 0, entry 0)
    "fin",                        // finish
];

/// The reduced alphabet for one level more.
const CORE: &[usize] = &[0, 1, 4, 5, 7, 10, 11, 12, 15, 16, 17];   // no call of it ever installs an encoder: `fl` (15) meets stored / closed writers
/// … and the smallest one (start_file, sx with a refused level, write, end_extra_data, add_directory, finish).
const MINI: &[usize] = &[0, 5, 7, 10, 12, 17];

fn source_archive() -> Vec<u8> {
    let mut w = zip::ZipWriter::new(Cursor::new(Vec::new()));
    let o = zip::write::FileOptions::default()
        .compression_method(zip::CompressionMethod::Deflated)
        .last_modified_time(zip::DateTime::from_msdos(33, 0));
    w.start_file("src.txt", o).unwrap();
    w.write_all(b"source source source source").unwrap();
    w.finish().unwrap().into_inner()
}

fn enumerate(alpha: &[&str], depth: usize, out: &mut Vec<Vec<String>>) {
    let mut idx = vec![0usize; depth];
    loop {
        out.push(idx.iter().map(|&i| alpha[i].to_string()).collect());
        let mut k = depth;
        loop {
            if k == 0 { return; }
            k -= 1;
            idx[k] += 1;
            if idx[k] < alpha.len() { break; }
            idx[k] = 0;
        }
    }
}

/// What is known about the writer from the calls made and their outcomes alone.
#[derive(Clone, Copy, PartialEq)]
enum Tri { Yes, No, Unknown }

fn is_ok(tok: &str) -> bool { tok == "ok" || tok.starts_with("ok=") }

/// Why a start call with this method / level must fail (`None`: it need not).
fn refused(method: u16, level: Option<i32>) -> Option<String> {
    match super::write::level_range(method) {
        // a compression level outside the documented range of a compressing method
        Some(rg) => match level {
            Some(l) if !rg.contains(&l) => Some(format!("compression level {l} outside the documented range {}..={} of method {method}", rg.start(), rg.end())),
            _ => None,
        },
        None if method == 0 => None,
        None => Some(format!("unsupported compression method {method}")),
    }
}

/// "Documented misuse returns an error", judged on the implementation's own outcomes:
/// * a non-empty `write` while certainly no file is open (nothing started yet, or the last successful
///   call was add_directory / add_symlink / finish) must fail;
/// * `end_extra_data` / `end_local_start_central_extra_data` while certainly not in extra-data mode must fail;
/// * `start_file` / `start_file_aligned` with an unsupported method or an out-of-range level must fail;
/// * after a successful `finish` every call except `set_comment` and an empty `write` must fail.
/// A failed call leaves the tracked knowledge `Unknown` where the writer's state is not determined by
/// the outcome alone (e.g. a start call that failed after closing the previous entry).
pub fn misuse_oracle(calls: &[String], tokens: &[String]) -> Vec<String> {
    let mut fails = vec![];
    let mut open = Tri::No;      // a file accepts data / extra data
    let mut extra = Tri::No;     // extra-data mode
    let mut finished = false;
    for (i, (call, tok)) in calls.iter().zip(tokens.iter()).enumerate().skip(1) {
        let x: Vec<&str> = call.split(',').collect();
        let ok = is_ok(tok);
        if tok == "bad-call" || tok.starts_with("src:") { continue; }
        if finished && ok {
            let harmless = x[0] == "c" || x[0] == "drop" || (x[0] == "w" && x.get(1).map(|h| *h == "-" || h.is_empty()).unwrap_or(true));
            if !harmless { fails.push(format!("call {i} `{}` succeeded after a successful finish()", x[0])); }
        }
        match x[0] {
            "w" => {
                let empty = x.get(1).map(|h| *h == "-" || h.is_empty()).unwrap_or(true);
                if !empty && open == Tri::No && ok { fails.push(format!("call {i}: write succeeded although no file is open")); }
                if !ok { /* a failed write may have closed the writer (4 GiB limit): nothing else changes */ }
            }
            "ex" | "el" => {
                if extra == Tri::No && ok { fails.push(format!("call {i}: `{}` succeeded although extra-data mode was never begun", x[0])); }
                if ok { extra = if x[0] == "el" { Tri::Yes } else { Tri::No }; }
                else if extra == Tri::Yes { extra = Tri::Unknown; }
            }
            "sf" | "sx" | "sa" | "dir" | "sym" | "rc" => {
                if matches!(x[0], "sf" | "sa") {
                    if let Some(o) = super::write::Opts::parse(&x[2..9.min(x.len())]) {
                        if let (Some(why), true) = (refused(o.method, o.level), ok) { fails.push(format!("call {i}: `{}` succeeded with {why}", x[0])); }
                    }
                }
                if ok {
                    open = if matches!(x[0], "dir" | "sym") { Tri::No } else { Tri::Yes };
                    extra = if x[0] == "sx" { Tri::Yes } else { Tri::No };
                } else {
                    // the previous entry may or may not have been closed, an aligned start may have left its entry open
                    if open != Tri::No || matches!(x[0], "sa" | "sym" | "rc") { open = Tri::Unknown; }
                    if extra != Tri::No || x[0] == "sa" { extra = Tri::Unknown; }
                }
            }
            "fin" => {
                if ok { finished = true; open = Tri::No; extra = Tri::No; }
                else { if open != Tri::No { open = Tri::Unknown; } if extra != Tri::No { extra = Tri::Unknown; } }
            }
            _ => {}
        }
    }
    fails
}

impl Stream for CallSeq {
    fn name(&self) -> &'static str { "callseq" }

    fn gen(&self, _seed: u64, tier: &str) -> GenOut {
        let mut g = GenOut::default();
        g.exhaustive = true;
        let thorough = tier == "thorough";
        // (full-alphabet depth, core-alphabet depth, mini-alphabet depth)
        let (dfull, dcore, dmini) = if thorough { (4, 5, 6) } else { (3, 4, 0) };
        g.rule = format!(
            "EXHAUSTIVE: every sequence of writer calls of length 1..{dfull} over a {}-call alphabet covering the whole public call set (start_file stored / deflated / refused level / encrypted, start_file_with_extra_data valid and with a refused level, start_file_aligned, write of data / of a valid extra record / of a reserved record, end_extra_data, end_local_start_central_extra_data, add_directory, add_symlink, set_comment, Write::flush, raw copy, finish); every sequence of length {dcore} over a {}-call core alphabet{}; the writer is dropped at the end of every sequence. non-trivial = at least two calls succeeded and the sink is returned",
            ALPHABET.len(), CORE.len(),
            if dmini > 0 { format!("; every sequence of length {dmini} over a {}-call alphabet (start_file, start_file_with_extra_data with a refused level, write, end_extra_data, add_directory, finish)", MINI.len()) } else { String::new() });
        let src = source_archive();
        let mut seqs: Vec<Vec<String>> = vec![];
        for d in 1..=dfull { enumerate(ALPHABET, d, &mut seqs); }
        let core: Vec<&str> = CORE.iter().map(|&i| ALPHABET[i]).collect();
        enumerate(&core, dcore, &mut seqs);
        if dmini > 0 {
            let mini: Vec<&str> = MINI.iter().map(|&i| ALPHABET[i]).collect();
            enumerate(&mini, dmini, &mut seqs);
        }
        for s in seqs {
            let mut calls = vec!["new".to_string()];
            let kind = format!("depth{}", s.len());
            calls.extend(s);
            // `flush` inside a Deflated entry ends a block of its stream; the model looks the stream of an entry up
            // by (method, level, plaintext): a sequence that writes the same plaintext twice, once with and once
            // without such a flush (e.g. `sf c; fl; sf c`), cannot be compared and is left out (counted)
            if calls.iter().any(|c| c == "fl") && super::write::comp_collision(&super::write::run_calls(&calls, std::slice::from_ref(&src)).comp) {
                *g.dist.entry("skipped.flush-codec-row-collision".into()).or_insert(0) += 1;
                continue;
            }
            g.push(&kind, make_line(&calls, std::slice::from_ref(&src)));
        }
        g
    }

    fn run(&self, line: &str) -> String { WriteStream("write").run(line) }

    fn nontrivial(&self, line: &str, resp: &str) -> bool { WriteStream("write").nontrivial(line, resp) }

    fn oracle(&self, line: &str, resp: &str) -> Vec<OracleFailure> {
        let mut f = vec![];
        if resp.contains("panic") {
            f.push(OracleFailure { what: format!("a writer call panicked: {}", &resp[..resp.len().min(160)]) });
            return f;
        }
        let (_, a) = parse_line(line);
        let calls: Vec<String> = a.get("calls").map(|c| c.split(';').map(|s| s.to_string()).collect()).unwrap_or_default();
        let tokens: Vec<String> = resp.split(' ').filter(|t| !t.starts_with("final=")).map(|s| s.to_string()).collect();
        for w in misuse_oracle(&calls, &tokens) { f.push(OracleFailure { what: format!("misuse absorbed: {w}") }); }
        // finish() output reads back as exactly the entries whose creation succeeded (the write stream's
        // oracle), judged on the sequence up to the first successful finish: what is called afterwards
        // (e.g. a comment set on the closed writer) is not part of that archive
        let cut = calls.iter().zip(tokens.iter()).position(|(c, t)| c == "fin" && is_ok(t));
        match cut {
            Some(k) if k + 1 < calls.len() => {
                let srcs: Vec<Vec<u8>> = (0..8).filter_map(|i| get_hex(&a, &format!("src{i}"))).collect();
                let line2 = make_line(&calls[..=k], &srcs);
                let w = WriteStream("write");
                let resp2 = w.run(&line2);
                f.extend(w.oracle(&line2, &resp2));
            }
            _ => f.extend(WriteStream("write").oracle(line, resp)),
        }
        f
    }
}
