//! C20: cloned archive handles are independent and usable in parallel.
//!
//! `clones.run k=<handles> zip=<archive hex> data=<decoded contents, comma separated hex> script=<h:op[:arg],…>`
//!     opens ONE `ZipArchive<Cursor<Vec<u8>>>`, clones it `k` times and executes the call-level schedule
//!     `script` on one thread: item `h:open:i` = `by_index(i)` on clone `h`, `h:openraw:i` = `by_index_raw(i)`,
//!     `h:read:n` = read up to `n` bytes of the file clone `h` has open, `h:ds` = `data_start()`,
//!     `h:name` = name/size/crc/header_start of the open file, `h:close` = drop the file,
//!     `h:len` = `archive.len()`; `h:opendec:i:<pw hex>` = `by_index_decrypt(i, pw)`, `h:byname:<name hex>` = `by_name`,
//!     `h:bynamedec:<name hex>:<pw hex>` = `by_name_decrypt` (observations `ok` / `invalidpw` / error class).
//!     `keys=<entry>:<pw hex>:<content hex>,…` (optional) is given data for the MODEL only: what the harness's own
//!     AE-x / PKWARE implementations (aes.rs, pkware.rs - no crate code) say an encrypted entry decodes to under a
//!     password; the implementation side never looks at it.  Response: `opens:<number of successful opens>` then the observation of every call, `|`-separated.
//! `clones.threads n=<threads> rounds=<r> seed=<s>`
//!     multi-threaded stress: every round a fresh archive is opened, `n` threads clone it from a shared
//!     reference, and each reads all entries in a random order with random chunk sizes and `yield_now`
//!     sprinkled in, comparing everything with the solo results → `ok` or a mismatch description.
//!     (Observation of the implementation only; the model answers `ok`.)
//!
//! Oracle (implementation only): under the interleaving every handle observes exactly what it observes
//! when its script runs alone on a fresh clone of a freshly opened archive.
use super::{GenOut, OracleFailure, Stream};
use crate::util::*;
use std::io::{Cursor, Read, Write};
use std::panic::AssertUnwindSafe;
use zip::read::ZipFile;
use zip::{CompressionMethod, ZipArchive};

pub struct Clones;

type Arc_ = ZipArchive<Wander>;

/// The archive's reader in this stream: a `Cursor` whose `clone()` is an independent cursor standing at an
/// UNRELATED position (the original's, the start, or the end, in rotation). The property promises each handle "its
/// own cloned reader"; nothing says where a cloned reader stands, and the crate seeks before every read, so a
/// correct crate cannot tell. A handle that carries a remembered reader position over to its clone can.
pub struct Wander(Cursor<Vec<u8>>);
static WANDER_CLONES: std::sync::atomic::AtomicU64 = std::sync::atomic::AtomicU64::new(0);
impl Clone for Wander {
    fn clone(&self) -> Self {
        let n = WANDER_CLONES.fetch_add(1, std::sync::atomic::Ordering::Relaxed);
        let mut c = Cursor::new(self.0.get_ref().clone());
        c.set_position(match n % 3 { 0 => self.0.position(), 1 => 0, _ => self.0.get_ref().len() as u64 });
        Wander(c)
    }
}
impl Read for Wander {
    fn read(&mut self, buf: &mut [u8]) -> std::io::Result<usize> { self.0.read(buf) }
}
impl std::io::Seek for Wander {
    fn seek(&mut self, pos: std::io::SeekFrom) -> std::io::Result<u64> { self.0.seek(pos) }
}

// ---- compile-time part of the property: the handle is Send and Sync whenever its reader is -------------
// The property says "Send and Sync whenever its reader is": asserted PER TRAIT (a reader that is only Send
// must give a Send archive, a reader that is only Sync a Sync archive), generically and on concrete readers
// that have exactly one of the two.
fn assert_send_sync<T: Send + Sync>() {}
fn assert_send<T: Send>() {}
fn assert_sync<T: Sync>() {}
#[allow(dead_code)]
fn archive_is_send_sync_for_every_such_reader<R: Send + Sync>() {
    assert_send_sync::<ZipArchive<R>>();
}
#[allow(dead_code)]
fn archive_is_send_for_every_send_reader<R: Send>() {
    assert_send::<ZipArchive<R>>();
}
#[allow(dead_code)]
fn archive_is_sync_for_every_sync_reader<R: Sync>() {
    assert_sync::<ZipArchive<R>>();
}
/// `Cell` is `Send` but not `Sync`.
#[allow(dead_code)]
struct SendOnlyReader(Cursor<Vec<u8>>, std::cell::Cell<u8>);
/// A `MutexGuard` is `Sync` but not `Send`.
#[allow(dead_code)]
struct SyncOnlyReader(Cursor<Vec<u8>>, std::marker::PhantomData<std::sync::MutexGuard<'static, ()>>);
const _: fn() = || {
    assert_send_sync::<Arc_>();
    assert_send_sync::<ZipArchive<std::fs::File>>();
    assert_send::<SendOnlyReader>();
    assert_sync::<SyncOnlyReader>();
    assert_send::<ZipArchive<SendOnlyReader>>();
    assert_sync::<ZipArchive<SyncOnlyReader>>();
};

// ---- one handle: an archive clone plus the file it currently has open -----------------------------------
/// `ZipFile<'a>` borrows its archive mutably, so "open on handle 0, read on handle 1, resume handle 0"
/// cannot be written with plain references stored side by side.  The archive is therefore kept behind a raw
/// pointer obtained from `Box::into_raw` (stable address), and the borrow of the open file is extended to
/// `'static`.  Soundness argument: (1) the only reference ever created from `arch` while `file` is `Some`
/// is the one inside that `ZipFile`; every method first checks/clears `file`; (2) `file` is dropped before
/// the box is freed (`Drop` below).  This is harness code only.
struct Handle {
    file: Option<ZipFile<'static>>,
    arch: *mut Arc_,
}

impl Handle {
    fn new(a: Arc_) -> Handle {
        Handle { file: None, arch: Box::into_raw(Box::new(a)) }
    }
    fn open(&mut self, c: &Call) -> String {
        self.file = None; // the previous borrow ends here
        let p = self.arch;
        let r = catch(AssertUnwindSafe(move || {
            // SAFETY: no other reference to `*p` exists (file is None); the result is stored in `self.file`
            // and dropped before `*p` is touched again or freed.
            let a: &'static mut Arc_ = unsafe { &mut *p };
            match c {
                Call::OpenRaw(i) => a.by_index_raw(*i).map(Ok),
                Call::Open(i) => a.by_index(*i).map(Ok),
                Call::OpenDec(i, pw) => a.by_index_decrypt(*i, pw),
                Call::ByName(n) => a.by_name(&String::from_utf8_lossy(n)).map(Ok),
                Call::ByNameDec(n, pw) => a.by_name_decrypt(&String::from_utf8_lossy(n), pw),
                _ => unreachable!(),
            }
        }));
        match r {
            Ok(Ok(Ok(f))) => {
                self.file = Some(f);
                "ok".into()
            }
            Ok(Ok(Err(_))) => "invalidpw".into(),
            Ok(Err(e)) => zerr_class(&e),
            Err(_) => "panic".into(),
        }
    }
    fn read(&mut self, n: usize) -> String {
        let f = match self.file.as_mut() { Some(f) => f, None => return "nofile".into() };
        let r = catch(AssertUnwindSafe(move || {
            let mut buf = vec![0u8; n];
            let mut got = 0;
            while got < n {
                match f.read(&mut buf[got..]) {
                    Ok(0) => break,
                    Ok(k) => got += k,
                    Err(e) => return Err(e),
                }
            }
            buf.truncate(got);
            Ok(buf)
        }));
        match r {
            Ok(Ok(b)) => format!("b:{}", hex(&b)),
            Ok(Err(e)) => ioerr_class(&e),
            Err(_) => "panic".into(),
        }
    }
    fn ds(&mut self) -> String {
        match self.file.as_ref() { Some(f) => format!("ds:{}", f.data_start()), None => "nofile".into() }
    }
    fn name(&mut self) -> String {
        match self.file.as_ref() {
            Some(f) => format!("name:{},size:{},crc:{},hs:{}", hex(f.name_raw()), f.size(), f.crc32(), f.header_start()),
            None => "nofile".into(),
        }
    }
    fn close(&mut self) -> String {
        if self.file.is_some() { self.file = None; "closed".into() } else { "nofile".into() }
    }
    fn len(&mut self) -> String {
        if self.file.is_some() {
            // `archive.len()` while a `ZipFile` borrows the archive is rejected by the borrow checker
            return "busy".into();
        }
        // SAFETY: no `ZipFile` is alive, so no other reference to `*arch` exists.
        format!("len:{}", unsafe { &*self.arch }.len())
    }
    fn call(&mut self, c: &Call) -> String {
        match *c {
            Call::Open(_) | Call::OpenRaw(_) | Call::OpenDec(..) | Call::ByName(_) | Call::ByNameDec(..) => self.open(c),
            Call::Read(n) => self.read(n),
            Call::Ds => self.ds(),
            Call::Name => self.name(),
            Call::Close => self.close(),
            Call::Len => self.len(),
        }
    }
}

impl Drop for Handle {
    fn drop(&mut self) {
        self.file = None;
        // SAFETY: `arch` came from `Box::into_raw` and the only borrower was just dropped.
        unsafe { drop(Box::from_raw(self.arch)) };
    }
}

#[derive(Clone, Debug, PartialEq)]
enum Call { Open(usize), OpenRaw(usize), OpenDec(usize, Vec<u8>), ByName(Vec<u8>), ByNameDec(Vec<u8>, Vec<u8>), Read(usize), Ds, Name, Close, Len }

impl Call {
    fn show(&self, h: usize) -> String {
        match *self {
            Call::Open(i) => format!("{h}:open:{i}"),
            Call::OpenRaw(i) => format!("{h}:openraw:{i}"),
            Call::OpenDec(i, ref pw) => format!("{h}:opendec:{i}:{}", hex(pw)),
            Call::ByName(ref n) => format!("{h}:byname:{}", hex(n)),
            Call::ByNameDec(ref n, ref pw) => format!("{h}:bynamedec:{}:{}", hex(n), hex(pw)),
            Call::Read(n) => format!("{h}:read:{n}"),
            Call::Ds => format!("{h}:ds"),
            Call::Name => format!("{h}:name"),
            Call::Close => format!("{h}:close"),
            Call::Len => format!("{h}:len"),
        }
    }
}

fn parse_script(s: &str) -> Option<Vec<(usize, Call)>> {
    if s == "-" || s.is_empty() { return Some(vec![]); }
    let mut out = vec![];
    for item in s.split(',') {
        let p: Vec<&str> = item.split(':').collect();
        let h: usize = p.first()?.parse().ok()?;
        let c = match (p.get(1).copied()?, p.len()) {
            ("open", 3) => Call::Open(p[2].parse().ok()?),
            ("openraw", 3) => Call::OpenRaw(p[2].parse().ok()?),
            ("opendec", 4) => Call::OpenDec(p[2].parse().ok()?, unhex(p[3])?),
            ("byname", 3) => Call::ByName(unhex(p[2])?),
            ("bynamedec", 4) => Call::ByNameDec(unhex(p[2])?, unhex(p[3])?),
            ("read", 3) => { let n: usize = p[2].parse().ok()?; if n > 1 << 20 { return None; } Call::Read(n) }
            ("ds", 2) => Call::Ds,
            ("name", 2) => Call::Name,
            ("close", 2) => Call::Close,
            ("len", 2) => Call::Len,
            _ => return None,
        };
        out.push((h, c));
    }
    Some(out)
}

/// Open the archive once, clone it `k` times, run the call-level schedule.  `None`: not an archive.
fn exec(zip: &[u8], k: usize, calls: &[(usize, Call)]) -> Option<Vec<String>> {
    let base = match catch(AssertUnwindSafe(|| ZipArchive::new(Wander(Cursor::new(zip.to_vec()))))) {
        Ok(Ok(a)) => a,
        _ => return None,
    };
    let mut hs: Vec<Handle> = (0..k).map(|_| Handle::new(base.clone())).collect();
    drop(base);
    let mut out = Vec::with_capacity(calls.len());
    for (h, c) in calls {
        out.push(hs[*h].call(c));
    }
    Some(out)
}

// ---- archives --------------------------------------------------------------------------------------------
#[derive(Clone)]
struct Spec { name: &'static str, deflate: bool, len: usize, align: u16 }

fn content(ai: usize, ei: usize, sp: &Spec) -> Vec<u8> {
    if sp.deflate {
        // compressible: a short period
        (0..sp.len).map(|j| b'A' + ((ai * 5 + ei * 3 + j % 4) % 26) as u8).collect()
    } else {
        (0..sp.len).map(|j| (ai * 37 + ei * 59 + j * 11 + 1) as u8).collect()
    }
}

struct Built {
    zip: Vec<u8>,
    data: Vec<Vec<u8>>,
    /// (entry, password, decoded content) according to the harness's own crypto - given data for the model
    keys: Vec<(usize, Vec<u8>, Vec<u8>)>,
    /// candidate passwords of the archive (right ones, wrong ones, the empty one)
    pws: Vec<Vec<u8>>,
    names: Vec<Vec<u8>>,
}

/// `patch`: (entry, kind) with kind 0 = break the local header signature (open fails before the store),
/// kind 1 = set the compression method to 1 ("shrunk", no decoder) in both headers (by_index fails after
/// the store, by_index_raw works).
fn build(ai: usize, specs: &[Spec], patch: &[(usize, u8)]) -> Built {
    let mut w = zip::ZipWriter::new(Cursor::new(Vec::new()));
    let mut data = vec![];
    for (ei, sp) in specs.iter().enumerate() {
        let o = zip::write::FileOptions::default()
            .compression_method(if sp.deflate { CompressionMethod::Deflated } else { CompressionMethod::Stored })
            .last_modified_time(zip::DateTime::default());
        if sp.align > 0 { w.start_file_aligned(sp.name, o, sp.align).unwrap(); } else { w.start_file(sp.name, o).unwrap(); }
        let c = content(ai, ei, sp);
        w.write_all(&c).unwrap();
        data.push(c);
    }
    let mut zip = w.finish().unwrap().into_inner();
    if !patch.is_empty() {
        let mut a = ZipArchive::new(Wander(Cursor::new(zip.clone()))).unwrap();
        let mut pos = vec![];
        for i in 0..a.len() {
            let f = a.by_index_raw(i).unwrap();
            pos.push((f.header_start() as usize, f.central_header_start() as usize));
        }
        for &(e, kind) in patch {
            let (l, c) = pos[e];
            if kind == 0 {
                zip[l] ^= 1;
            } else {
                zip[l + 8] = 1; zip[l + 9] = 0;
                zip[c + 10] = 1; zip[c + 11] = 0;
            }
        }
    }
    Built { zip, data, keys: vec![], pws: vec![], names: specs.iter().map(|s| s.name.as_bytes().to_vec()).collect() }
}

fn archives() -> Vec<Built> {
    let s = |name, deflate, len, align| Spec { name, deflate, len, align };
    vec![
        build(0, &[s("a", false, 10, 0), s("bb", true, 40, 0)], &[]),
        build(1, &[s("x", true, 64, 0), s("yy", false, 7, 0), s("zzz", false, 0, 0)], &[]),
        build(2, &[s("p", false, 5, 0), s("dir/qq", true, 30, 16), s("rrr", false, 12, 0), s("ssss", true, 50, 0)], &[]),
        build(3, &[s("a", false, 9, 0), s("bb", false, 21, 0)], &[(1, 0)]),
        build(4, &[s("x", true, 33, 0), s("yy", false, 7, 0), s("zzz", true, 20, 0)], &[(1, 1)]),
        build(5, &[s("p", false, 6, 32), s("qq", true, 30, 0), s("rrr", false, 12, 0), s("s", false, 3, 0)], &[(0, 0), (2, 1)]),
    ]
}


// ---- archives with encrypted entries ------------------------------------------------------------------------
/// One entry given by its raw header fields and stored bytes (assembled without any crate code).
struct RawEntry { name: Vec<u8>, flag: u16, method: u16, crc: u32, usize_: u32, extra: Vec<u8>, body: Vec<u8> }

fn assemble(es: &[RawEntry]) -> Vec<u8> {
    use super::aes::{central_header, local_header};
    let (mut out, mut cd) = (vec![], vec![]);
    for e in es {
        let off = out.len() as u32;
        out.extend(local_header(&e.name, e.flag, e.method, e.crc, e.body.len() as u32, e.usize_, &e.extra));
        out.extend_from_slice(&e.body);
        cd.extend(central_header(&e.name, e.flag, e.method, e.crc, e.body.len() as u32, e.usize_, &e.extra, off));
    }
    let cd_off = out.len() as u32;
    out.extend_from_slice(&cd);
    out.extend_from_slice(&0x06054b50u32.to_le_bytes());
    out.extend_from_slice(&[0u8; 4]);
    out.extend_from_slice(&(es.len() as u16).to_le_bytes());
    out.extend_from_slice(&(es.len() as u16).to_le_bytes());
    out.extend_from_slice(&(cd.len() as u32).to_le_bytes());
    out.extend_from_slice(&cd_off.to_le_bytes());
    out.extend_from_slice(&0u16.to_le_bytes());
    out
}

fn raw_of(name: &[u8], f: super::aes::Fields) -> RawEntry {
    RawEntry { name: name.to_vec(), flag: f.flag, method: f.cmethod, crc: f.crc, usize_: f.usize_, extra: f.extra, body: f.body }
}

fn plain_raw(name: &[u8], content: &[u8], deflate: bool) -> RawEntry {
    let body = if deflate { super::aes::deflate_raw(content) } else { content.to_vec() };
    RawEntry { name: name.to_vec(), flag: 0, method: if deflate { 8 } else { 0 }, crc: crc32fast::hash(content), usize_: content.len() as u32, extra: vec![], body }
}

fn aes_raw(name: &[u8], ver: u16, bits: usize, method: u16, pw: &[u8], plain: &[u8], salt_seed: u8) -> RawEntry {
    let salt: Vec<u8> = (0..bits / 16).map(|j| salt_seed.wrapping_mul(31).wrapping_add(j as u8 * 7 + 1)).collect();
    let enc = super::aes::encrypt(bits, method, pw, plain, &salt);
    RawEntry { name: name.to_vec(), flag: 1, method: 99, crc: if ver == 1 { enc.crc } else { 0 }, usize_: plain.len() as u32,
        extra: super::aes::aes_extra(ver, (bits / 64 - 1) as u8, method), body: enc.payload }
}

/// ZipCrypto entries are written by the crate's writer (that is what produces them in practice) and lifted out
/// of its output by the independent central-directory walk of aes.rs.
fn zipcrypto_raws(items: &[(&str, bool, &[u8], &[u8])]) -> Vec<RawEntry> {
    use zip::unstable::write::FileOptionsExt;
    let mut w = zip::ZipWriter::new(Cursor::new(Vec::new()));
    for (name, deflate, pw, content) in items {
        let o = zip::write::FileOptions::default()
            .compression_method(if *deflate { CompressionMethod::Deflated } else { CompressionMethod::Stored })
            .last_modified_time(zip::DateTime::default())
            .with_deprecated_encryption(pw);
        w.start_file(*name, o).unwrap();
        w.write_all(content).unwrap();
    }
    let z = w.finish().unwrap().into_inner();
    super::aes::fixture_entries(&z).into_iter().map(|(n, f)| raw_of(n.as_bytes(), f)).collect()
}

/// What an encrypted entry decodes to under `pw` according to the harness's own implementations
/// (aes.rs: PBKDF2 / AES-CTR from the RustCrypto crates, pkware.rs: APPNOTE 6.1; flate2's raw inflate).
/// `None`: the password is refused (AES verification value / ZipCrypto check byte) - or the decrypted stream
/// does not inflate (callers must not use such a password).
fn harness_unlock(f: &super::aes::Fields, pw: &[u8]) -> Option<Vec<u8>> {
    let ex = &f.extra;
    let mut o = 0usize;
    let mut aes: Option<(usize, u16)> = None;
    while o + 4 <= ex.len() {
        let l = u16::from_le_bytes([ex[o + 2], ex[o + 3]]) as usize;
        if ex[o] == 0x01 && ex[o + 1] == 0x99 && l == 7 && o + 11 <= ex.len() {
            aes = Some((64 * (ex[o + 8] as usize + 1), u16::from_le_bytes([ex[o + 9], ex[o + 10]])));
        }
        o += 4 + l;
    }
    match aes {
        Some((bits, inner)) => {
            let dec = super::aes::tables2(bits, f.csize as u64, &f.body, Some(pw)).1?;
            if inner == 8 { super::aes::inflate_raw(&dec) } else { Some(dec) }
        }
        None => {
            if f.body.len() < 12 { return None; }
            let d = crate::pkware::Keys::new(pw).decrypt(&f.body);
            if d[11] != (f.crc >> 24) as u8 { return None; }
            if f.cmethod == 8 { super::aes::inflate_raw(&d[12..]) } else { Some(d[12..].to_vec()) }
        }
    }
}

/// Builds the `keys` table for all (encrypted entry, candidate password) pairs; `right[i]` is the password entry
/// `i` was encrypted with (`None` for plain entries) and `data[i]` its plaintext.
fn finish_crypto(zip: Vec<u8>, data: Vec<Vec<u8>>, right: Vec<Option<Vec<u8>>>, mut pws: Vec<Vec<u8>>) -> Built {
    let es = super::aes::fixture_entries(&zip);
    // a wrong password that passes the ZipCrypto check byte of a stored entry (1 in 256): reads garbage, then
    // "Invalid checksum" - a FAILING READ that must stay on the handle that asked for it
    for (_, f) in es.iter() {
        if f.flag & 1 == 1 && f.cmethod == 0 {
            for n in 0..100000u32 {
                let cand = format!("w{n}").into_bytes();
                let hits_deflated = es.iter().any(|(_, g)| g.flag & 1 == 1 && g.cmethod == 8 && g.body.len() >= 12
                    && crate::pkware::Keys::new(&cand).decrypt(&g.body[..12])[11] == (g.crc >> 24) as u8);
                if harness_unlock(f, &cand).is_some() && !hits_deflated { pws.push(cand); break; }
            }
            break;
        }
    }
    let mut keys = vec![];
    for (i, (_, f)) in es.iter().enumerate() {
        if f.flag & 1 == 0 { continue; }
        for pw in &pws {
            match harness_unlock(f, pw) {
                Some(c) => {
                    if Some(pw) == right[i].as_ref() { assert_eq!(c, data[i], "harness decryption of entry {i}"); }
                    keys.push((i, pw.clone(), c));
                }
                None => {
                    assert!(Some(pw) != right[i].as_ref(), "right password refused by the harness's own crypto");
                    // refused: must be by the verifier / check byte, not by a failed inflate of a passing password
                    if f.cmethod == 8 && f.body.len() >= 12 {
                        let d = crate::pkware::Keys::new(pw).decrypt(&f.body);
                        assert!(d[11] != (f.crc >> 24) as u8, "candidate password passes the check byte of a deflated ZipCrypto entry");
                    }
                }
            }
        }
    }
    let names = es.iter().map(|(n, _)| n.as_bytes().to_vec()).collect();
    Built { zip, data, keys, pws, names }
}

fn flip_crc(mut e: RawEntry) -> RawEntry { e.crc ^= 0x0100_0001; e }

/// Index 0: crate-written ZipCrypto + plain entries; 1: the crate's fixture tests/data/aes_archive.zip
/// (WinZip-made, AE-2, password "helloworld"); 2: harness-assembled mix of plain / AE-1 / AE-2 / ZipCrypto entries
/// with a duplicate name and three entries whose declared CRC-32 is wrong (plain stored, plain deflated, AE-1).
fn crypto_archives() -> Vec<Built> {
    let b = |s: &str| s.as_bytes().to_vec();
    let mut out = vec![];
    // 0
    {
        let c: Vec<Vec<u8>> = vec![b("plain entry"), (0..16u8).map(|j| j * 7 + 3).collect(), b("AAAABBBBAAAABBBBAAAABBBBAAAABBBBCCCC"), b("second key")];
        let zc = zipcrypto_raws(&[("zs", false, b"pw1", &c[1]), ("zd", true, b"pwd", &c[2]), ("z2", false, b"other", &c[3])]);
        let mut es = vec![plain_raw(b"plain", &c[0], false)];
        es.extend(zc);
        out.push(finish_crypto(assemble(&es), c, vec![None, Some(b("pw1")), Some(b("pwd")), Some(b("other"))], vec![b("pw1"), b("pwd"), b("other"), b("nope"), vec![]]));
    }
    // 1
    {
        let path = std::path::Path::new(env!("CARGO_MANIFEST_DIR")).join("..").join("..").join("repo/tests/data/aes_archive.zip");
        let zip = std::env::var("VERIF_REPO").ok().map(|r| std::path::Path::new(&r).join("tests/data/aes_archive.zip"))
            .and_then(|p| std::fs::read(p).ok())
            .or_else(|| std::fs::read("/repo/tests/data/aes_archive.zip").ok())
            .or_else(|| std::fs::read(&path).ok());
        if let Some(zip) = zip {
            let es = super::aes::fixture_entries(&zip);
            let data: Vec<Vec<u8>> = es.iter().map(|(_, f)| harness_unlock(f, b"helloworld").expect("fixture password")).collect();
            let right = es.iter().map(|_| Some(b("helloworld"))).collect();
            out.push(finish_crypto(zip, data, right, vec![b("helloworld"), b("helloworlD"), vec![], b("pw1")]));
        }
    }
    // 2
    {
        let c: Vec<Vec<u8>> = vec![b("p0"), (0..40u8).map(|j| j ^ 0x5a).collect(), b("xyzxyzxyzxyzxyzxyzxyzxyzxyz-inner-deflate"), b("dup"), b("zipcrypto!"), b("bad crc stored"), b("bad crc bad crc bad crc bad crc"), b("bad crc in AE-1")];
        let zc = zipcrypto_raws(&[("zc", false, b"s3cret", &c[4])]);
        let mut es = vec![
            plain_raw(b"p", &c[0], false),
            aes_raw(b"a", 2, 256, 0, b"s3cret", &c[1], 1),
            aes_raw(b"b", 1, 128, 8, b"s3cret", &c[2], 2),
            aes_raw(b"a", 2, 192, 0, b"other!", &c[3], 3),
        ];
        es.extend(zc);
        es.push(flip_crc(plain_raw(b"cs", &c[5], false)));
        es.push(flip_crc(plain_raw(b"cd", &c[6], true)));
        es.push(flip_crc(aes_raw(b"ca", 1, 128, 0, b"s3cret", &c[7], 4)));
        let right = vec![None, Some(b("s3cret")), Some(b("s3cret")), Some(b("other!")), Some(b("s3cret")), None, None, Some(b("s3cret"))];
        out.push(finish_crypto(assemble(&es), c, right, vec![b("s3cret"), b("other!"), b("S3cret"), vec![]]));
    }
    out
}

/// Template scripts over an archive with encrypted entries: `e` an encrypted entry with password `right`, `e2`
/// another one with a different password (or the same entry), `plain` a plain entry, `bad` an open whose reads fail.
fn crypto_templates(b: &Built) -> Vec<Vec<Call>> {
    let enc: Vec<usize> = { let mut v: Vec<usize> = b.keys.iter().map(|k| k.0).collect(); v.dedup(); v };
    let right_of = |i: usize| b.keys.iter().find(|k| k.0 == i && k.2 == b.data[i]).map(|k| k.1.clone()).unwrap_or_default();
    let e = enc[0];
    let e2 = *enc.iter().find(|&&i| right_of(i) != right_of(e)).unwrap_or(&enc[enc.len() - 1]);
    let right = right_of(e);
    let wrong = b.pws.iter().find(|p| !b.keys.iter().any(|k| k.0 == e && &k.1 == *p) && !p.is_empty()).cloned().unwrap_or_else(|| b"zzz".to_vec());
    let plain = (0..b.data.len()).find(|i| !enc.contains(i)).unwrap_or(0);
    // a failing read: an accepted password whose content differs from the plaintext (ZipCrypto check-byte pass),
    // else an entry with a wrong declared CRC (archive 2), else the wrong password again
    let bad: Call = match b.keys.iter().find(|k| k.2 != b.data[k.0]) {
        Some(k) => Call::OpenDec(k.0, k.1.clone()),
        None => if b.data.len() > 7 { Call::OpenDec(7, right_of(7)) } else { Call::OpenDec(e, wrong.clone()) },
    };
    vec![
        vec![Call::OpenDec(e, right.clone()), Call::Read(5), Call::Read(100)],
        vec![Call::OpenDec(e, wrong.clone()), Call::Ds, Call::Read(3)],
        vec![Call::OpenDec(e, vec![]), Call::OpenDec(e, right.clone()), Call::Ds],
        vec![Call::ByNameDec(b.names[e].clone(), wrong.clone()), Call::ByNameDec(b.names[e].clone(), right.clone()), Call::Read(100)],
        vec![Call::Open(e), Call::ByName(b.names[plain].clone()), Call::Read(100)],
        vec![Call::OpenDec(plain, wrong.clone()), Call::Read(100), Call::Name],
        vec![Call::OpenDec(e2, right.clone()), Call::OpenDec(e2, right_of(e2)), Call::Read(100)],
        vec![bad, Call::Read(100), Call::Read(1)],
    ]
}

fn random_crypto_script(r: &mut crate::prng::Rng, b: &Built) -> Vec<Call> {
    let n = b.data.len();
    let len = r.range(1, 4) as usize;
    let mut v = vec![];
    for j in 0..len {
        let idx = |r: &mut crate::prng::Rng| if r.chance(1, 12) { n + r.below(2) as usize } else { r.below(n as u64) as usize };
        let name = |r: &mut crate::prng::Rng| if r.chance(1, 10) { b"absent".to_vec() } else { r.pick(&b.names).clone() };
        let c = if j == 0 && r.chance(4, 5) || r.chance(1, 3) {
            match r.below(8) {
                0 => Call::Open(idx(r)),
                1 => Call::OpenRaw(idx(r)),
                2 => Call::ByName(name(r)),
                3 | 4 => Call::ByNameDec(name(r), r.pick(&b.pws).clone()),
                _ => Call::OpenDec(idx(r), r.pick(&b.pws).clone()),
            }
        } else {
            match r.below(10) {
                0..=4 => Call::Read(*r.pick(&[0usize, 1, 2, 3, 5, 8, 13, 100])),
                5..=6 => Call::Ds,
                7 => Call::Name,
                8 => Call::Close,
                _ => Call::Len,
            }
        };
        v.push(c);
    }
    v
}

fn line(b: &Built, k: usize, calls: &[(usize, Call)]) -> String {
    let data: Vec<String> = b.data.iter().map(|d| hex(d)).collect();
    let script: Vec<String> = calls.iter().map(|(h, c)| c.show(*h)).collect();
    let keys: Vec<String> = b.keys.iter().map(|(i, p, c)| format!("{i}:{}:{}", hex(p), hex(c))).collect();
    format!("clones.run k={k} zip={} data={}{} script={}", hex(&b.zip), data.join(","),
        if keys.is_empty() { String::new() } else { format!(" keys={}", keys.join(",")) },
        if script.is_empty() { "-".to_string() } else { script.join(",") })
}

/// all merges of `counts[h]` items per handle
fn merges(counts: &mut Vec<usize>, cur: &mut Vec<usize>, out: &mut Vec<Vec<usize>>) {
    if counts.iter().all(|&c| c == 0) { out.push(cur.clone()); return; }
    for h in 0..counts.len() {
        if counts[h] > 0 {
            counts[h] -= 1; cur.push(h);
            merges(counts, cur, out);
            cur.pop(); counts[h] += 1;
        }
    }
}

fn weave(scripts: &[Vec<Call>], order: &[usize]) -> Vec<(usize, Call)> {
    let mut ix = vec![0usize; scripts.len()];
    order.iter().map(|&h| { let c = scripts[h][ix[h]].clone(); ix[h] += 1; (h, c) }).collect()
}

// ---- threads ---------------------------------------------------------------------------------------------
fn threads(n: usize, rounds: usize, seed: u64) -> String {
    let mut specs = vec![];
    let names = ["t0", "t1.bin", "dir/t2", "t3", "t4.txt", "t5", "t6", "t7"];
    for (i, nm) in names.iter().enumerate() {
        specs.push(Spec { name: nm, deflate: i % 2 == 1, len: 50 + i * 777, align: if i == 2 { 64 } else { 0 } });
    }
    let b = build(7, &specs, &[]);
    // solo reference: a handle used alone
    let mut solo = vec![];
    {
        let mut a = ZipArchive::new(Wander(Cursor::new(b.zip.clone()))).unwrap();
        for i in 0..a.len() {
            let mut f = a.by_index(i).unwrap();
            let mut v = vec![];
            f.read_to_end(&mut v).unwrap();
            solo.push((f.name().to_string(), f.data_start(), f.crc32(), v));
        }
    }
    for (i, s) in solo.iter().enumerate() {
        if s.3 != b.data[i] { return format!("solo read of entry {i} differs from what was written"); }
    }
    let solo = &solo;
    for round in 0..rounds {
        let fresh = ZipArchive::new(Wander(Cursor::new(b.zip.clone()))).unwrap();
        let shared = &fresh; // `&ZipArchive` crosses threads: needs `Sync`
        let barrier = std::sync::Barrier::new(n);
        let barrier = &barrier;
        let res: Vec<Result<(), String>> = std::thread::scope(|sc| {
            let hs: Vec<_> = (0..n).map(|t| sc.spawn(move || -> Result<(), String> {
                let mut r = crate::prng::Rng::new(seed, "clones.threads", (round * 1000 + t) as u64);
                let mut mine = shared.clone(); // the clone moves nowhere else, but `fresh` is shared
                barrier.wait();
                let mut order: Vec<usize> = (0..solo.len()).collect();
                for i in (1..order.len()).rev() { order.swap(i, r.below(i as u64 + 1) as usize); }
                // sometimes start two threads on the same entry to race the very first stores
                if r.chance(1, 2) { order.insert(0, 0); }
                for &i in &order {
                    if r.chance(1, 3) { std::thread::yield_now(); }
                    let mut f = mine.by_index(i).map_err(|e| format!("thread {t} round {round}: by_index({i}) failed: {e:?}"))?;
                    if r.chance(1, 2) { std::thread::yield_now(); }
                    let d0 = f.data_start();
                    if d0 != solo[i].1 { return Err(format!("thread {t} round {round}: entry {i} data_start {d0} != solo {}", solo[i].1)); }
                    if f.name() != solo[i].0 || f.crc32() != solo[i].2 { return Err(format!("thread {t} round {round}: entry {i} metadata differs")); }
                    let mut v = vec![];
                    loop {
                        let chunk = 1 + r.below(900) as usize;
                        let mut buf = vec![0u8; chunk];
                        let k = f.read(&mut buf).map_err(|e| format!("thread {t} round {round}: entry {i} read error {e:?}"))?;
                        if k == 0 { break; }
                        v.extend_from_slice(&buf[..k]);
                        if r.chance(1, 4) { std::thread::yield_now(); }
                    }
                    if v != solo[i].3 { return Err(format!("thread {t} round {round}: entry {i} content differs from solo read ({} vs {} bytes)", v.len(), solo[i].3.len())); }
                    if f.data_start() != solo[i].1 { return Err(format!("thread {t} round {round}: entry {i} data_start changed after reading")); }
                }
                Ok(())
            })).collect();
            hs.into_iter().map(|h| h.join().unwrap_or_else(|_| Err("a thread panicked".into()))).collect()
        });
        for x in res { if let Err(e) = x { return e; } }
        // every round: encrypted entries (AE-1, AE-2, ZipCrypto) - threads present right, wrong and empty
        // passwords concurrently; each must get what the password gets on a handle used alone
        if let Err(e) = threads_crypto(n, round, seed) { return e; }
    }
    "ok".into()
}

fn threads_crypto(n: usize, round: usize, seed: u64) -> Result<(), String> {
    use std::sync::OnceLock;
    static ARCH: OnceLock<Built> = OnceLock::new();
    let b = ARCH.get_or_init(|| crypto_archives().pop().unwrap());
    let mut encs: Vec<usize> = b.keys.iter().map(|k| k.0).collect();
    encs.dedup();
    let encs = &encs;
    let fresh = ZipArchive::new(Wander(Cursor::new(b.zip.clone()))).map_err(|e| format!("crypto archive does not open: {e:?}"))?;
    let shared = &fresh;
    let barrier = std::sync::Barrier::new(n);
    let barrier = &barrier;
    let res: Vec<Result<(), String>> = std::thread::scope(|sc| {
        let hs: Vec<_> = (0..n).map(|t| sc.spawn(move || -> Result<(), String> {
            let mut r = crate::prng::Rng::new(seed, "clones.threads.crypto", (round * 1000 + t) as u64);
            let mut mine = shared.clone();
            barrier.wait();
            for _ in 0..3 {
                let i = *r.pick(encs);
                let pw = r.pick(&b.pws).clone();
                let want = b.keys.iter().find(|k| k.0 == i && k.1 == pw).map(|k| &k.2);
                if r.chance(1, 3) { std::thread::yield_now(); }
                match (mine.by_index_decrypt(i, &pw), want) {
                    (Ok(Err(_)), None) => {}
                    (Ok(Ok(mut f)), Some(w)) => {
                        let mut v = vec![];
                        let res = f.read_to_end(&mut v);
                        let intact = w == &b.data[i] && ![5usize, 6, 7].contains(&i);
                        if intact && (res.is_err() || &v != w) {
                            return Err(format!("thread {t} round {round}: entry {i} with an accepted password reads {res:?} / {} bytes, solo content has {}", v.len(), w.len()));
                        }
                        if !intact && res.is_ok() { return Err(format!("thread {t} round {round}: entry {i}: a read that fails alone succeeded")); }
                    }
                    (Ok(Ok(_)), None) => return Err(format!("thread {t} round {round}: entry {i} opened with a password that is refused on a handle used alone")),
                    (Ok(Err(_)), Some(_)) => return Err(format!("thread {t} round {round}: entry {i} refused a password that is accepted on a handle used alone")),
                    (Err(e), _) => return Err(format!("thread {t} round {round}: by_index_decrypt({i}) failed: {e:?}")),
                }
            }
            Ok(())
        })).collect();
        hs.into_iter().map(|h| h.join().unwrap_or_else(|_| Err("a thread panicked".into()))).collect()
    });
    for x in res { x?; }
    Ok(())
}

// ---- stream ----------------------------------------------------------------------------------------------
fn random_script(r: &mut crate::prng::Rng, n_entries: usize) -> Vec<Call> {
    let len = r.range(1, 4) as usize;
    let mut v = vec![];
    for j in 0..len {
        let idx = |r: &mut crate::prng::Rng| if r.chance(1, 12) { n_entries + r.below(2) as usize } else { r.below(n_entries as u64) as usize };
        let c = if j == 0 && r.chance(4, 5) || r.chance(1, 4) {
            if r.chance(1, 4) { Call::OpenRaw(idx(r)) } else { Call::Open(idx(r)) }
        } else {
            match r.below(10) {
                0..=3 => Call::Read(*r.pick(&[0usize, 1, 2, 3, 5, 8, 13, 100])),
                4..=6 => Call::Ds,
                7 => Call::Name,
                8 => Call::Close,
                _ => Call::Len,
            }
        };
        v.push(c);
    }
    v
}

impl Stream for Clones {
    fn name(&self) -> &'static str { "clones" }

    fn gen(&self, seed: u64, tier: &str) -> GenOut {
        let mut g = GenOut::default();
        let thorough = tier == "thorough";
        g.rule = "clones.run: 6 archives written by ZipWriter (2-4 stored/deflated entries, one with aligned local extra \
                  data; 3 of them patched: broken local signature / method without decoder); exhaustive part = ALL \
                  call-level interleavings of 2 handles x 8x8 template scripts of 4 calls (64 x 70) and of 3 handles x \
                  4x4x4 template scripts of 2 calls (64 x 90) (quick: each script tuple on one of the archives = 10240 lines; thorough: on all 6 archives = 61440, plus 3 handles x scripts of 3,3,2 calls: 16 x 560), random part = \
                  random archive, 2-3 handles, random scripts of 1-4 calls (indices incl. out-of-range), random merge \
                  order; ENCRYPTED part (run.crypto*): 3 archives - crate-written ZipCrypto stored/deflated + plain; the crate's \
                  fixture tests/data/aes_archive.zip (WinZip AE-2, 128/192/256, deflated and stored); harness-assembled mix \
                  (AE-1 deflated, AE-2 stored x2 with a DUPLICATE name, ZipCrypto, plain, and three entries with a wrong declared \
                  CRC-32: stored, deflated, AE-1) - calls by_index_decrypt / by_name / by_name_decrypt with right, wrong, empty \
                  and other-entry passwords plus a wrong password that passes the ZipCrypto check byte (reads garbage, then fails); \
                  all interleavings of 2 handles x 8x8 template scripts of 3 calls (64 x 20, quick: one archive per pair; \
                  thorough: all), the pair [clone A right password | clone B wrong password] in both orders for every encrypted \
                  entry x every candidate password, and random scripts; clones.threads: fresh archive per round, n threads clone it through a shared reference and read \
                  all entries in random order/chunks with yields. distinct = distinct op lines; non-trivial = at least \
                  one successful open in the response".into();
        g.exhaustive = true; // the template-script interleavings are enumerated completely in both tiers
        let archs = archives();
        let mut r = super::rng_for(seed, "clones", 0);
        // exhaustive interleavings of template scripts
        let t2 = |n: usize| -> Vec<Vec<Call>> { vec![
            vec![Call::Open(0), Call::Read(3), Call::Ds, Call::Read(100)],
            vec![Call::Open(1), Call::Ds, Call::Read(8), Call::Name],
            vec![Call::OpenRaw(1), Call::Read(3), Call::Open(0), Call::Ds],
            vec![Call::Open(0), Call::Read(1), Call::Close, Call::Ds],
            vec![Call::Open(n - 1), Call::Name, Call::Read(0), Call::Read(100)],
            vec![Call::Open(n), Call::Len, Call::OpenRaw(0), Call::Read(100)],
            vec![Call::Ds, Call::Open(1), Call::Len, Call::Read(3)],
            vec![Call::OpenRaw(0), Call::Ds, Call::OpenRaw(1), Call::Ds],
        ]};
        let t3: Vec<Vec<Call>> = vec![
            vec![Call::Open(0), Call::Read(100)],
            vec![Call::Open(1), Call::Ds],
            vec![Call::OpenRaw(1), Call::Read(3)],
            vec![Call::Open(0), Call::Ds],
        ];
        let mut m2 = vec![]; merges(&mut vec![4, 4], &mut vec![], &mut m2);
        let mut m3 = vec![]; merges(&mut vec![2, 2, 2], &mut vec![], &mut m3);
        let mut pairno = 0usize;
        // quick: each script tuple on one archive (round robin); thorough: on every archive
        for a in 0..8 { for b in 0..8 {
            pairno += 1;
            for (ai, ar) in archs.iter().enumerate() {
                if !thorough && ai != pairno % archs.len() { continue; }
                let t = t2(ar.data.len());
                let scripts = vec![t[a].clone(), t[b].clone()];
                for o in &m2 {
                    g.push("run.exh2", line(ar, 2, &weave(&scripts, o)));
                }
            }
        }}
        for a in 0..4 { for b in 0..4 { for c in 0..4 {
            pairno += 1;
            for (ai, ar) in archs.iter().enumerate() {
                if !thorough && ai != pairno % archs.len() { continue; }
                let scripts = vec![t3[a].clone(), t3[b].clone(), t3[c].clone()];
                for o in &m3 {
                    g.push("run.exh3", line(ar, 3, &weave(&scripts, o)));
                }
            }
        }}}
        if thorough {
            let mut m332 = vec![]; merges(&mut vec![3, 3, 2], &mut vec![], &mut m332);
            for a in 0..4 { for b in 0..4 {
                let ar = &archs[pairno % archs.len()]; pairno += 1;
                let t = t2(ar.data.len());
                let scripts = vec![t[a][..3].to_vec(), t[b + 2][..3].to_vec(), t3[(a + b) % 4].clone()];
                for o in &m332 { g.push("run.exh332", line(ar, 3, &weave(&scripts, o))); }
            }}
        }
        // random
        for _ in 0..(if thorough { 100000 } else { 6000 }) {
            let ar = r.pick(&archs);
            let k = r.range(2, 3) as usize;
            let scripts: Vec<Vec<Call>> = (0..k).map(|_| random_script(&mut r, ar.data.len())).collect();
            let mut left: Vec<usize> = scripts.iter().map(|s| s.len()).collect();
            let mut order = vec![];
            while left.iter().any(|&c| c > 0) {
                let h = r.below(k as u64) as usize;
                if left[h] > 0 { left[h] -= 1; order.push(h); }
            }
            g.push("run.random", line(ar, k, &weave(&scripts, &order)));
        }
        // ---- encrypted entries: right / wrong / empty passwords on AES and ZipCrypto entries, by index and by name,
        // password on a plain entry, reads that fail (check-byte collision, wrong declared CRC) ----
        let carchs = crypto_archives();
        let mut m33 = vec![]; merges(&mut vec![3, 3], &mut vec![], &mut m33);
        let mut pairno = 0usize;
        for a in 0..8 { for b in 0..8 {
            pairno += 1;
            for (ai, ar) in carchs.iter().enumerate() {
                if !thorough && ai != pairno % carchs.len() { continue; }
                let t = crypto_templates(ar);
                let scripts = vec![t[a].clone(), t[b].clone()];
                for o in &m33 {
                    g.push("run.cryptoexh2", line(ar, 2, &weave(&scripts, o)));
                }
            }
        }}
        if tier != "quickx" {
            // the decisive shape, on every archive and every encrypted entry: one clone validates the right
            // password, another one then presents a wrong / empty one (and the other way round)
            for ar in &carchs {
                let mut encs: Vec<usize> = ar.keys.iter().map(|k| k.0).collect(); encs.dedup();
                for &e in &encs {
                    let right = ar.keys.iter().find(|k| k.0 == e && k.2 == ar.data[e]).map(|k| k.1.clone()).unwrap_or_default();
                    for w in ar.pws.iter().filter(|p| **p != right) {
                        g.push("run.cryptopair", line(ar, 2, &[(0, Call::OpenDec(e, right.clone())), (1, Call::OpenDec(e, w.clone())), (1, Call::Read(100)), (0, Call::Read(100))]));
                        g.push("run.cryptopair", line(ar, 2, &[(1, Call::OpenDec(e, w.clone())), (0, Call::OpenDec(e, right.clone())), (1, Call::OpenDec(e, w.clone())), (0, Call::Read(100))]));
                    }
                }
            }
        }
        for _ in 0..(if thorough { 40000 } else { 1500 }) {
            let ar = r.pick(&carchs);
            let k = r.range(2, 3) as usize;
            let scripts: Vec<Vec<Call>> = (0..k).map(|_| random_crypto_script(&mut r, ar)).collect();
            let mut left: Vec<usize> = scripts.iter().map(|s| s.len()).collect();
            let mut order = vec![];
            while left.iter().any(|&c| c > 0) {
                let h = r.below(k as u64) as usize;
                if left[h] > 0 { left[h] -= 1; order.push(h); }
            }
            g.push("run.cryptorandom", line(ar, k, &weave(&scripts, &order)));
        }
        // degenerate shapes
        g.push("run.edge", line(&archs[0], 2, &[]));
        g.push("run.edge", line(&archs[0], 1, &[(0, Call::Open(0)), (0, Call::Read(100)), (0, Call::Read(1))]));
        // threads
        let tl: &[(usize, usize)] = if thorough { &[(2, 20000), (3, 10000), (4, 20000), (8, 10000), (16, 3000), (32, 1000)] } else { &[(2, 200), (4, 200), (8, 100), (16, 50)] };
        for (i, &(n, rounds)) in tl.iter().enumerate() {
            g.push("threads", format!("clones.threads n={n} rounds={rounds} seed={}", seed.wrapping_mul(31).wrapping_add(i as u64)));
        }
        g
    }

    fn run(&self, line: &str) -> String {
        let (op, a) = parse_line(line);
        match op.as_str() {
            "clones.run" => {
                let k = match get_u64(&a, "k") { Some(k) if k <= 16 => k as usize, _ => return "bad-op".into() };
                let zip = match get_hex(&a, "zip") { Some(z) => z, None => return "bad-op".into() };
                let calls = match a.get("script").and_then(|s| parse_script(s)) { Some(c) => c, None => return "bad-op".into() };
                if a.get("data").is_none() || calls.iter().any(|(h, _)| *h >= k) { return "bad-op".into(); }
                match exec(&zip, k, &calls) {
                    None => "bad-archive".into(),
                    Some(o) => {
                        // first token = response class (number of successful opens), then the observations
                        let opens = o.iter().filter(|x| *x == "ok").count();
                        format!("opens:{opens} {}", if o.is_empty() { "-".to_string() } else { o.join("|") })
                    }
                }
            }
            "clones.threads" => {
                let (n, rounds, seed) = match (get_u64(&a, "n"), get_u64(&a, "rounds"), get_u64(&a, "seed")) {
                    (Some(n), Some(r), Some(s)) if (1..=64).contains(&n) && r <= 100000 => (n as usize, r as usize, s),
                    _ => return "bad-op".into(),
                };
                catch(AssertUnwindSafe(move || threads(n, rounds, seed))).unwrap_or_else(|_| "panic".into())
            }
            _ => "bad-op".into(),
        }
    }

    fn oracle(&self, line: &str, resp: &str) -> Vec<OracleFailure> {
        let mut f = vec![];
        let (op, a) = parse_line(line);
        match op.as_str() {
            "clones.threads" => {
                if resp != "ok" { f.push(OracleFailure { what: format!("threads: {resp}") }); }
            }
            "clones.run" => {
                if resp == "bad-op" || resp == "bad-archive" { return f; }
                let k = get_u64(&a, "k").unwrap_or(0) as usize;
                let zip = get_hex(&a, "zip").unwrap_or_default();
                let calls = a.get("script").and_then(|s| parse_script(s)).unwrap_or_default();
                let body = resp.split_once(' ').map(|x| x.1).unwrap_or("");
                let obs: Vec<&str> = if body == "-" { vec![] } else { body.split('|').collect() };
                if obs.len() != calls.len() {
                    f.push(OracleFailure { what: format!("{} observations for {} calls", obs.len(), calls.len()) });
                    return f;
                }
                if obs.iter().any(|o| *o == "panic") { f.push(OracleFailure { what: "panic in an archive call".into() }); }
                let data: Vec<Vec<u8>> = a.get("data").map(|d| d.split(',').filter_map(unhex).collect()).unwrap_or_default();
                let keys: Vec<(usize, Vec<u8>, Vec<u8>)> = a.get("keys").filter(|k| *k != "-").map(|d| d.split(',').filter_map(|it| {
                    let p: Vec<&str> = it.split(':').collect();
                    if p.len() != 3 { return None; }
                    Some((p[0].parse().ok()?, unhex(p[1])?, unhex(p[2])?))
                }).collect()).unwrap_or_default();
                for h in 0..k {
                    let mine: Vec<(usize, Call)> = calls.iter().filter(|(x, _)| *x == h).map(|(_, c)| (0usize, c.clone())).collect();
                    let seen: Vec<&str> = calls.iter().zip(obs.iter()).filter(|((x, _), _)| *x == h).map(|(_, o)| *o).collect();
                    let alone = match exec(&zip, 1, &mine) { Some(o) => o, None => continue };
                    if alone.iter().map(|s| s.as_str()).collect::<Vec<_>>() != seen {
                        f.push(OracleFailure { what: format!("handle {h} observes [{}] under the interleaving but [{}] when used alone",
                            seen.join("|"), alone.join("|")) });
                    }
                    // decoded reads return the content that was written (a complete read of entry i = data[i])
                    // (for a decrypting open: the content the harness's own crypto gives for that password)
                    let mut open: Option<(usize, bool, Vec<u8>, Option<Vec<u8>>)> = None;
                    for ((_, c), o) in mine.iter().zip(seen.iter()) {
                        match c {
                            Call::Open(i) | Call::OpenRaw(i) => {
                                open = if *o == "ok" { Some((*i, matches!(c, Call::OpenRaw(_)), vec![], None)) } else { None };
                            }
                            Call::OpenDec(i, pw) => {
                                let exp = keys.iter().find(|k| k.0 == *i && &k.1 == pw).map(|k| k.2.clone());
                                let encrypted = keys.iter().any(|k| k.0 == *i);
                                if *o == "ok" && encrypted && exp.is_none() {
                                    f.push(OracleFailure { what: format!("handle {h}: entry {i} opened with a password the independent implementation refuses") });
                                }
                                if *o == "invalidpw" && exp.is_some() {
                                    f.push(OracleFailure { what: format!("handle {h}: entry {i} refuses a password the independent implementation accepts") });
                                }
                                open = if *o == "ok" { Some((*i, false, vec![], exp)) } else { None };
                            }
                            Call::ByName(_) | Call::ByNameDec(..) => open = None,
                            Call::Close => open = None,
                            Call::Read(_) => {
                                if let (Some((i, raw, acc, exp)), Some(hx)) = (open.as_mut(), o.strip_prefix("b:")) {
                                    acc.extend(unhex(hx).unwrap_or_default());
                                    let want = exp.as_ref().or(data.get(*i));
                                    if !*raw && want.map_or(false, |w| !w.starts_with(acc)) {
                                        f.push(OracleFailure { what: format!("handle {h}: bytes read from entry {i} are not a prefix of its content") });
                                    }
                                }
                            }
                            _ => {}
                        }
                    }
                }
            }
            _ => {}
        }
        f
    }

    fn nontrivial(&self, _line: &str, resp: &str) -> bool {
        resp == "ok" || (resp.starts_with("opens:") && !resp.starts_with("opens:0 "))
    }
}
