//! C18: DOS date/time packing, the checked constructor, `time` conversions.
use super::{GenOut, OracleFailure, Stream};
use crate::util::*;
use zip::DateTime;

pub struct Dos;

fn show(x: &DateTime) -> String {
    format!("{} {} {} {} {} {}", x.year(), x.month(), x.day(), x.hour(), x.minute(), x.second())
}

fn parts(x: &DateTime) -> String {
    let x2 = *x;
    let dp = match catch(move || x2.datepart()) {
        Ok(v) => v.to_string(),
        Err(_) => "panic".into(),
    };
    format!("dp={} tp={}", dp, x.timepart())
}

/// Gregorian calendar rule, written here from the rule itself (the oracle's own; neither the crate's nor `time`'s).
fn own_dim(y: i64, m: u64) -> u64 {
    match m {
        1 | 3 | 5 | 7 | 8 | 10 | 12 => 31,
        4 | 6 | 9 | 11 => 30,
        2 => if (y % 4 == 0 && y % 100 != 0) || y % 400 == 0 { 29 } else { 28 },
        _ => 0,
    }
}

/// Arithmetic reading of the two DOS words: (year, month, day, hour, minute, second).
fn own_unpack(d: u64, t: u64) -> [u64; 6] {
    [1980 + d / 512, d / 32 % 16, d % 32, t / 2048, t / 32 % 64, 2 * (t % 32)]
}

fn own_valid(f: &[u64; 6]) -> bool {
    f[2] >= 1 && f[2] <= own_dim(f[0] as i64, f[1]) && f[3] <= 23 && f[4] <= 59 && f[5] <= 59
}

fn mix(h: u64, v: u64) -> u64 { (h ^ v).wrapping_mul(0x100000001b3) }

/// What `dos.unpack` + `dos.totime` observe for one pair of words, folded into the digest (implementation).
fn digest_one(mut h: u64, d: u16, t: u16) -> u64 {
    let x = DateTime::from_msdos(d, t);
    let dp = catch(move || x.datepart()).map(|v| v as u64).unwrap_or(0xFFFF_FFFF);
    for v in [x.year() as u64, x.month() as u64, x.day() as u64, x.hour() as u64, x.minute() as u64, x.second() as u64, dp, x.timepart() as u64] {
        h = mix(h, v);
    }
    match x.to_time() {
        Err(_) => mix(h, 0),
        Ok(o) => {
            for v in [1u64, o.year() as u64, o.month() as u8 as u64, o.day() as u64, o.hour() as u64, o.minute() as u64, o.second() as u64] { h = mix(h, v); }
            h
        }
    }
}

/// The same digest from the arithmetic layout and the oracle's own calendar.
fn digest_own(mut h: u64, d: u64, t: u64) -> u64 {
    let f = own_unpack(d, t);
    for v in f.iter().copied().chain([d, t]) { h = mix(h, v); }
    if own_valid(&f) { for v in std::iter::once(1u64).chain(f.iter().copied()) { h = mix(h, v); } h } else { mix(h, 0) }
}

fn pack_t(h: u64, m: u64, s2: u64) -> u64 { h << 11 | m << 5 | s2 }
fn pack_d(y: u64, m: u64, d: u64) -> u64 { (y - 1980) << 9 | m << 5 | d }

/// Covering sets for the per-factor exhaustive sweep: valid and invalid partners.
fn cover_times() -> Vec<u64> {
    vec![pack_t(0, 0, 0), pack_t(23, 59, 29), pack_t(12, 30, 15), pack_t(24, 0, 0), pack_t(23, 60, 0), pack_t(23, 59, 30), pack_t(31, 63, 31)]
}
fn cover_dates() -> Vec<u64> {
    vec![pack_d(1980, 1, 1), pack_d(2107, 12, 31), pack_d(2024, 2, 29), pack_d(2000, 2, 29), pack_d(2023, 2, 29), pack_d(2100, 2, 29),
         pack_d(1980, 0, 0), pack_d(2107, 15, 31), pack_d(2021, 4, 31)]
}

const BOUND16: [u64; 14] = [0, 1, 2, 31, 32, 33, 511, 512, 0x7fff, 0x8000, 0xfffe, 0xffff, 0x21, 0x5a21];

impl Stream for Dos {
    fn name(&self) -> &'static str {
        "dos"
    }

    fn gen(&self, seed: u64, tier: &str) -> GenOut {
        let mut g = GenOut::default();
        g.rule = "dos.block (both tiers, EXHAUSTIVE PER FACTOR): all 2^16 date words x 7 covering time words (3 valid, 4 \
                  invalid) and all 2^16 time words x 9 covering date words (4 valid incl. both leap days, 5 invalid incl. \
                  2100-02-29, 2023-02-29, 04-31, month 0 / 15), in blocks of 8192, implementation digest = model digest = \
                  oracle's own arithmetic digest over fields, re-packed words and the to_time verdict - exhaustive for the \
                  2^32 pairs because the two words are handled independently (Props.C18.fromMsdos_words_independent, \
                  parts_independent, toTime_factors); dos.dim: every (year, month 0..15) of 1975..2112 against \
                  time::util::days_in_year_month (calendar rule = model parameter Spec.Dos.daysInMonth); dos.unpack: boundary \
                  words x boundary words + random 16-bit pairs; dos.ctor: every field at \
                  its boundary neighbours (others valid) + random joint values; dos.totime: every year 1980..2107 x month \
                  1..12 x day 28..31 x (a valid time, an invalid time), months 0/13..15 and days 0/1, plus every (y,m,d) at \
                  boundary times (thorough) or sampled (quick); dos.tryfrom: every \
                  valid calendar date 1979..2108 (thorough) or sampled, boundary times, UTC offsets and nanoseconds. distinct = distinct op \
                  lines; non-trivial = response is not an error".into();
        g.exhaustive = true; // dos.block: per-factor exhaustive in both tiers (see rule)
        for (kind, fixed) in cover_times().into_iter().map(|t| ("date", t)).chain(cover_dates().into_iter().map(|d| ("time", d))) {
            for lo in (0..65536u64).step_by(8192) {
                g.push("block", format!("dos.block kind={kind} fixed={fixed} lo={lo} n=8192"));
            }
        }
        for y in 1975..=2112i64 { for m in 0..16u64 {
            g.push("dim", format!("dos.dim y={y} m={m}"));
        }}
        let mut r = super::rng_for(seed, "dos", 0);
        for &d in BOUND16.iter() {
            for &t in BOUND16.iter() {
                g.push("unpack.boundary", format!("dos.unpack d={d} t={t}"));
            }
        }
        let n_rand = if tier == "thorough" { 2_000_000 } else { 60_000 };
        for _ in 0..n_rand {
            let (d, t) = (r.below(65536), r.below(65536));
            g.push("unpack.random", format!("dos.unpack d={d} t={t}"));
        }
        // constructor: per-field boundaries
        let ys = [0u64, 1979, 1980, 1981, 2000, 2106, 2107, 2108, 65535];
        let mos = [0u64, 1, 2, 11, 12, 13, 255];
        let ds = [0u64, 1, 2, 28, 29, 30, 31, 32, 255];
        let hs = [0u64, 1, 22, 23, 24, 255];
        let mis = [0u64, 1, 58, 59, 60, 255];
        let ss = [0u64, 1, 58, 59, 60, 61, 255];
        for &y in &ys { for &mo in &mos { for &d in &ds {
            g.push("ctor.boundary", format!("dos.ctor y={y} mo={mo} d={d} h=12 mi=30 s=30"));
        }}}
        for &h in &hs { for &mi in &mis { for &s in &ss {
            g.push("ctor.boundary", format!("dos.ctor y=2000 mo=6 d=15 h={h} mi={mi} s={s}"));
        }}}
        if tier == "thorough" {
            // every single field value exhaustively with the others valid
            for y in 0..65536u64 { g.push("ctor.exh", format!("dos.ctor y={y} mo=6 d=15 h=12 mi=30 s=30")); }
            for v in 0..256u64 {
                g.push("ctor.exh", format!("dos.ctor y=2000 mo={v} d=15 h=12 mi=30 s=30"));
                g.push("ctor.exh", format!("dos.ctor y=2000 mo=6 d={v} h=12 mi=30 s=30"));
                g.push("ctor.exh", format!("dos.ctor y=2000 mo=6 d=15 h={v} mi=30 s=30"));
                g.push("ctor.exh", format!("dos.ctor y=2000 mo=6 d=15 h=12 mi={v} s=30"));
                g.push("ctor.exh", format!("dos.ctor y=2000 mo=6 d=15 h=12 mi=30 s={v}"));
            }
        }
        for _ in 0..(if tier == "thorough" { 200_000 } else { 10_000 }) {
            let y = if r.chance(3, 4) { r.range(1978, 2109) } else { r.below(65536) };
            let f = |r: &mut crate::prng::Rng, hi: u64| if r.chance(9, 10) { r.below(hi + 3) } else { r.below(256) };
            let (mo, d, h, mi, s) = (f(&mut r, 12), f(&mut r, 31), f(&mut r, 23), f(&mut r, 59), f(&mut r, 60));
            g.push("ctor.random", format!("dos.ctor y={y} mo={mo} d={d} h={h} mi={mi} s={s}"));
        }
        // to_time over from_msdos values: all dates at boundary times
        let times = [0u64, 1, 0x7fff, 0xbf7d /*23:59:58*/, 0xbf7e /*23:59:60*/, 0xc000 /*24:00:00*/, 0xbfa0, 0xffff];
        let step = if tier == "thorough" { 1 } else { 7 };
        let mut k = 0u64;
        for d in 0..65536u64 {
            k += 1;
            if k % step != 0 { continue; }
            let t = times[(d % times.len() as u64) as usize];
            g.push("totime.alldates", format!("dos.totime d={d} t={t}"));
        }
        // days 28..31 (and 0, 1) of EVERY month of EVERY year with a valid AND an invalid time: the calendar rule
        // (days per month, leap years, the century rule at 2100) decides whether `to_time` succeeds
        let valid_times = [pack_t(0, 0, 0), pack_t(12, 30, 15), pack_t(23, 59, 29), pack_t(6, 0, 1)];
        let invalid_times = [pack_t(24, 0, 0), pack_t(23, 60, 0), pack_t(23, 59, 30), pack_t(31, 63, 31)];
        for y in 1980..=2107u64 { for m in 1..=12u64 { for day in 28..=31u64 {
            let k = (y + m + day) as usize;
            g.push("totime.monthend", format!("dos.totime d={} t={}", pack_d(y, m, day), valid_times[k % 4]));
            g.push("totime.monthend", format!("dos.totime d={} t={}", pack_d(y, m, day), invalid_times[k % 4]));
        }}}
        for y in [1980u64, 1999, 2000, 2023, 2024, 2100, 2104, 2107] { for m in [0u64, 1, 2, 12, 13, 14, 15] { for day in [0u64, 1, 27, 28, 29, 30, 31] {
            g.push("totime.edges", format!("dos.totime d={} t={}", pack_d(y, m, day), valid_times[((y + m + day) % 4) as usize]));
        }}}
        for &t in &times {
            for d in [0x21u64, 0x5a5d, 0x585d /*2024-02-29*/, 0x565d /*2023-02-29*/, 0xff9f] {
                g.push("totime.boundary", format!("dos.totime d={d} t={t}"));
            }
        }
        // try_from over valid calendar values
        for y in 1975..=2112i64 {
            for mo in 1..=12u64 {
                let dim = match mo { 1|3|5|7|8|10|12 => 31, 4|6|9|11 => 30,
                    _ => if (y % 4 == 0 && y % 100 != 0) || y % 400 == 0 { 29 } else { 28 } };
                for d in 1..=dim {
                    if tier != "thorough" && !(d == 1 || d == dim || r.chance(1, 10)) { continue; }
                    let (h, mi, s) = *r.pick(&[(0u64,0u64,0u64),(23,59,59),(12,30,31),(0,0,1)]);
                    g.push("tryfrom.dates", format!("dos.tryfrom y={y} mo={mo} d={d} h={h} mi={mi} s={s}"));
                }
            }
        }
        // non-UTC offsets around the ends of the range: the range check is on the local calendar year
        for (y, mo, d) in [(1979i64, 12u64, 31u64), (1980, 1, 1), (2107, 12, 31), (2108, 1, 1), (2000, 6, 15)] {
            for (h, mi) in [(0u64, 0u64), (0, 30), (12, 0), (23, 30), (23, 59)] {
                for off in [0i64, 3600, -3600, -18000, 32400, -43200, 50400, 1800, -86399, 86399] {
                    g.push("tryfrom.offset", format!("dos.tryfrom y={y} mo={mo} d={d} h={h} mi={mi} s=0 off={off}"));
                }
            }
        }
        // nanoseconds and offsets together: dropped / read in the value's own offset
        for off in [0i64, 3600, -3600, 19800, -34200] { for ns in [0u64, 1, 500_000_000, 999_999_999] {
            g.push("tryfrom.offset", format!("dos.tryfrom y=2020 mo=6 d=15 h=12 mi=0 s=0 off={off} ns={ns}"));
            g.push("tryfrom.offset", format!("dos.tryfrom y=2107 mo=12 d=31 h=23 mi=59 s=59 off={off} ns={ns}"));
        }}
        for y in [-9999i64, -1, 0, 1, 1979, 2108, 9999] {
            g.push("tryfrom.far", format!("dos.tryfrom y={y} mo=1 d=1 h=0 mi=0 s=0"));
        }
        g
    }

    fn run(&self, line: &str) -> String {
        let (op, a) = parse_line(line);
        let n = |k: &str| get_u64(&a, k);
        match op.as_str() {
            "dos.unpack" => {
                let (d, t) = match (n("d"), n("t")) { (Some(d), Some(t)) => (d as u16, t as u16), _ => return "bad-op".into() };
                match catch(move || DateTime::from_msdos(d, t)) {
                    Ok(x) => format!("{} {}", show(&x), parts(&x)),
                    Err(_) => "panic".into(),
                }
            }
            "dos.ctor" => {
                let v: Option<Vec<u64>> = ["y", "mo", "d", "h", "mi", "s"].iter().map(|k| n(k)).collect();
                let v = match v { Some(v) => v, None => return "bad-op".into() };
                match catch(move || DateTime::from_date_and_time(v[0] as u16, v[1] as u8, v[2] as u8, v[3] as u8, v[4] as u8, v[5] as u8)) {
                    Ok(Ok(x)) => format!("ok {} {}", show(&x), parts(&x)),
                    Ok(Err(())) => "err".into(),
                    Err(_) => "panic".into(),
                }
            }
            "dos.totime" => {
                let (d, t) = match (n("d"), n("t")) { (Some(d), Some(t)) => (d as u16, t as u16), _ => return "bad-op".into() };
                let r = catch(move || {
                    let x = DateTime::from_msdos(d, t);
                    match x.to_time() {
                        Ok(o) => {
                            let back = match DateTime::try_from(o) {
                                Ok(y) => format!("back={}", show(&y)),
                                Err(_) => "back=err".into(),
                            };
                            format!("ok {} {} {} {} {} {} {}", o.year(), o.month() as u8, o.day(), o.hour(), o.minute(), o.second(), back)
                        }
                        Err(_) => "err".into(),
                    }
                });
                r.unwrap_or_else(|_| "panic".into())
            }
            "dos.tryfrom" => {
                let y = match get_i64(&a, "y") { Some(y) => y, None => return "bad-op".into() };
                let v: Option<Vec<u64>> = ["mo", "d", "h", "mi", "s"].iter().map(|k| n(k)).collect();
                let v = match v { Some(v) => v, None => return "bad-op".into() };
                let r = catch(move || {
                    let month = match time::Month::try_from(v[0] as u8) { Ok(m) => m, Err(_) => return "invalid-cal".to_string() };
                    let date = match time::Date::from_calendar_date(y as i32, month, v[1] as u8) { Ok(d) => d, Err(_) => return "invalid-cal".to_string() };
                    let tm = match time::Time::from_hms(v[2] as u8, v[3] as u8, v[4] as u8) { Ok(t) => t, Err(_) => return "invalid-cal".to_string() };
                    // the conversion reads the LOCAL calendar fields of the value; `off` (seconds) chooses its UTC offset
                    let off = get_i64(&a, "off").unwrap_or(0);
                    let offset = match time::UtcOffset::from_whole_seconds(off as i32) { Ok(o) => o, Err(_) => return "invalid-cal".to_string() };
                    let ns = get_u64(&a, "ns").unwrap_or(0);
                    let tm = match tm.replace_nanosecond(ns as u32) { Ok(t) => t, Err(_) => return "invalid-cal".to_string() };
                    let o = time::PrimitiveDateTime::new(date, tm).assume_offset(offset);
                    match DateTime::try_from(o) {
                        Ok(x) => {
                            let back = match x.to_time() {
                                Ok(o2) => {
                                    let same = (o2.year(), o2.month(), o2.day(), o2.hour(), o2.minute(), o2.second()) == (o.year(), o.month(), o.day(), o.hour(), o.minute(), o.second());
                                    // shift: whole seconds between the two instants (the sub-second part of the argument is dropped: floor)
                                    let shift = if same { o2.unix_timestamp() - o.unix_timestamp() } else { 0 };
                                    format!("{} off2={} ns2={} shift={}", if same { "back=same" } else { "back=diff" }, o2.offset().whole_seconds(), o2.nanosecond(), shift)
                                }
                                Err(_) => "back=err".to_string(),
                            };
                            format!("ok {} {}", show(&x), back)
                        }
                        Err(_) => "err".into(),
                    }
                });
                r.unwrap_or_else(|_| "panic".into())
            }
            "dos.dim" => {
                let (y, m) = match (get_i64(&a, "y"), n("m")) { (Some(y), Some(m)) => (y, m), _ => return "bad-op".into() };
                catch(move || {
                    let days = match time::Month::try_from(m as u8) { Ok(mo) => time::util::days_in_year_month(y as i32, mo) as u64, Err(_) => 0 };
                    format!("ok {} leap={}", days, time::util::is_leap_year(y as i32) as u8)
                }).unwrap_or_else(|_| "panic".into())
            }
            "dos.block" => {
                let (fixed, lo, cnt) = match (n("fixed"), n("lo"), n("n")) { (Some(f), Some(l), Some(c)) if f < 65536 && l + c <= 65536 => (f, l, c), _ => return "bad-op".into() };
                let by_date = match a.get("kind").map(|s| s.as_str()) { Some("date") => true, Some("time") => false, _ => return "bad-op".into() };
                catch(move || {
                    let mut h = 0xcbf29ce484222325u64;
                    for w in lo..lo + cnt {
                        h = if by_date { digest_one(h, w as u16, fixed as u16) } else { digest_one(h, fixed as u16, w as u16) };
                    }
                    format!("ok {h}")
                }).unwrap_or_else(|_| "panic".into())
            }
            _ => "bad-op".into(),
        }
    }

    fn oracle(&self, line: &str, resp: &str) -> Vec<OracleFailure> {
        let mut f = vec![];
        let (op, a) = parse_line(line);
        let n = |k: &str| get_u64(&a, k).unwrap_or(0);
        if resp.contains("panic") {
            f.push(OracleFailure { what: format!("panic in {op}") });
            return f;
        }
        match op.as_str() {
            "dos.unpack" => {
                // pack(unpack(d,t)) == (d,t)
                let want = format!("dp={} tp={}", n("d"), n("t"));
                if !resp.ends_with(&want) {
                    f.push(OracleFailure { what: format!("unpack-then-pack is not the identity: got `{resp}` want suffix `{want}`") });
                }
            }
            "dos.ctor" => {
                let (y, mo, d, h, mi, s) = (n("y"), n("mo"), n("d"), n("h"), n("mi"), n("s"));
                let doc = (1980..=2107).contains(&y) && (1..=12).contains(&mo) && (1..=31).contains(&d) && h <= 23 && mi <= 59 && s <= 60;
                if doc != resp.starts_with("ok") {
                    f.push(OracleFailure { what: format!("constructor acceptance differs from the documented ranges: documented={doc} got `{resp}`") });
                }
                if doc {
                    // accepted values survive pack/unpack up to 2 s
                    let p: Vec<&str> = resp.split(' ').collect();
                    let dp: u16 = p[7].trim_start_matches("dp=").parse().unwrap_or(0);
                    let tp: u16 = p[8].trim_start_matches("tp=").parse().unwrap_or(0);
                    let x = DateTime::from_msdos(dp, tp);
                    let ok = x.year() as u64 == y && x.month() as u64 == mo && x.day() as u64 == d && x.hour() as u64 == h
                        && x.minute() as u64 == mi && x.second() as u64 == s / 2 * 2;
                    if !ok {
                        f.push(OracleFailure { what: format!("accepted value does not survive the DOS round trip: `{resp}` → {}", show(&x)) });
                    }
                }
            }
            "dos.dim" => {
                let (y, m) = (get_i64(&a, "y").unwrap_or(0), n("m"));
                let want = format!("ok {} leap={}", own_dim(y, m), ((y % 4 == 0 && y % 100 != 0) || y % 400 == 0) as u8);
                if resp != want {
                    f.push(OracleFailure { what: format!("the time crate's calendar differs from the Gregorian rule: got `{resp}` want `{want}`") });
                }
            }
            "dos.block" => {
                let by_date = a.get("kind").map(|s| s == "date").unwrap_or(true);
                let (fixed, lo, cnt) = (n("fixed"), n("lo"), n("n"));
                let mut h = 0xcbf29ce484222325u64;
                for w in lo..lo + cnt { h = if by_date { digest_own(h, w, fixed) } else { digest_own(h, fixed, w) }; }
                if resp != format!("ok {h}") {
                    // find the first word of the block that differs
                    let bad = (lo..lo + cnt).find(|&w| {
                        let (d, t) = if by_date { (w, fixed) } else { (fixed, w) };
                        digest_one(1, d as u16, t as u16) != digest_own(1, d, t)
                    });
                    f.push(OracleFailure { what: format!("unpack / re-pack / to_time differ from the DOS layout + Gregorian calendar in this block (first differing word: {bad:?})") });
                }
            }
            "dos.totime" => {
                let fields = own_unpack(n("d"), n("t"));
                if own_valid(&fields) != resp.starts_with("ok") {
                    f.push(OracleFailure { what: format!("to_time verdict differs from the calendar: {:?} is {}a valid timestamp, got `{resp}`", fields, if own_valid(&fields) { "" } else { "not " }) });
                }
                if resp.starts_with("ok") {
                    let x = DateTime::from_msdos(n("d") as u16, n("t") as u16);
                    if !resp.ends_with(&format!("back={}", show(&x))) {
                        f.push(OracleFailure { what: format!("to_time then try_from is not the identity: `{resp}`") });
                    }
                }
            }
            "dos.tryfrom" => {
                let y = get_i64(&a, "y").unwrap_or(0);
                let inr = (1980..=2107).contains(&y);
                if resp != "invalid-cal" && inr != resp.starts_with("ok") {
                    f.push(OracleFailure { what: format!("try_from range differs from 1980..=2107: `{resp}`") });
                }
                if resp.starts_with("ok") && !resp.contains("back=same") {
                    f.push(OracleFailure { what: format!("try_from then to_time does not return the same wall-clock fields: `{resp}`") });
                }
                // same wall-clock fields, in UTC, whole second: the instant moves by exactly the argument's offset
                let off = get_i64(&a, "off").unwrap_or(0);
                if resp.starts_with("ok") && !resp.ends_with(&format!("off2=0 ns2=0 shift={off}")) {
                    f.push(OracleFailure { what: format!("try_from then to_time: expected offset UTC, nanosecond 0 and a shift of {off} s: `{resp}`") });
                }
            }
            _ => {}
        }
        f
    }
}
