//! `fault.*` (C11): every I/O call of a scenario fails once.  The sink/source is a `Cursor` behind a
//! wrapper that counts read / write / flush / seek calls and fails the k-th with an injected error.
//! The model issues the same I/O call sequence (checked: `ncalls` of the fault-free run and every
//! per-k outcome), so the fault index means the same call on both sides.
use super::write::{run_calls_sink, show_final, SinkInfo};
use super::{GenOut, OracleFailure, Stream};
use crate::prng::Rng;
use crate::util::*;
use std::cell::Cell;
use std::io::{Cursor, Read, Seek, SeekFrom, Write};
use std::rc::Rc;

pub struct Fault;

/// The fault: index of the failing I/O call and the `io::ErrorKind` it fails with.  The kind matters: code that
/// inspects `e.kind()` (the probe seek of `get_directory_counts` takes `InvalidInput` for "file too short") or that
/// gives a kind a meaning (`UnexpectedEof`) must not take a device failure of that kind for something else.
pub type Flt = Option<(u64, std::io::ErrorKind)>;

/// names as printed by `util::io_kind` / `Out.className` (`injected` = `ConnectionAborted`)
/// `interrupted`: the one kind std's loops (`read_exact`, `write_all`, `read_to_end`, `io::copy`) do not forward but
/// retry - inside them such a failure is invisible (one more I/O call), outside them (a bare `read` / `seek` / `flush`)
/// it surfaces like any other.  Rotated on the ops whose model describes that (`INTR_OPS`).
pub const KINDS: [(&str, std::io::ErrorKind); 8] = [
    ("injected", std::io::ErrorKind::ConnectionAborted),
    ("invalidinput", std::io::ErrorKind::InvalidInput),
    ("eof", std::io::ErrorKind::UnexpectedEof),
    ("invaliddata", std::io::ErrorKind::InvalidData),
    ("other", std::io::ErrorKind::Other),
    ("writezero", std::io::ErrorKind::WriteZero),
    ("brokenpipe", std::io::ErrorKind::BrokenPipe),
    ("interrupted", std::io::ErrorKind::Interrupted),
];

pub struct FaultIo {
    pub inner: Cursor<Vec<u8>>,
    pub calls: Rc<Cell<u64>>,
    pub fail_at: Flt,
    /// every `read` that reached the device: (bytes asked for, bytes delivered) - how the pull pattern of a
    /// decoder is measured (`fault.stream … pulled= cbuf=`)
    pub reads: Rc<std::cell::RefCell<Vec<(u64, u64)>>>,
}
impl FaultIo {
    pub fn new(bytes: Vec<u8>, fail_at: Flt) -> FaultIo {
        FaultIo { inner: Cursor::new(bytes), calls: Rc::new(Cell::new(0)), fail_at, reads: Rc::new(std::cell::RefCell::new(vec![])) }
    }
    fn tick(&mut self) -> std::io::Result<()> {
        let c = self.calls.get();
        self.calls.set(c + 1);
        match self.fail_at {
            Some((k, kind)) if k == c => Err(std::io::Error::new(kind, "injected fault")),
            _ => Ok(()),
        }
    }
}
impl Read for FaultIo {
    fn read(&mut self, buf: &mut [u8]) -> std::io::Result<usize> {
        self.tick()?;
        let n = self.inner.read(buf)?;
        self.reads.borrow_mut().push((buf.len() as u64, n as u64));
        Ok(n)
    }
}
impl Write for FaultIo {
    fn write(&mut self, buf: &[u8]) -> std::io::Result<usize> { self.tick()?; self.inner.write(buf) }
    fn flush(&mut self) -> std::io::Result<()> { self.tick()?; self.inner.flush() }
}
impl Seek for FaultIo {
    // `stream_position` is deliberately NOT overridden: the default is `seek(Current(0))`, one call
    fn seek(&mut self, s: SeekFrom) -> std::io::Result<u64> { self.tick()?; self.inner.seek(s) }
}
impl SinkInfo for FaultIo {
    fn sink_bytes(&self) -> Vec<u8> { self.inner.get_ref().clone() }
    fn pos(&self) -> u64 { self.inner.position() }
}


/// open + read every entry with a SMALL caller buffer; after the first error of an entry, `read` is called once
/// more on the same `ZipFile` (callers do retry), then the next entry is read.  Archives with encrypted and
/// compressed entries (`pw` for the encrypted ones).  Oracle-only: the model does not describe per-call
/// behaviour of the external cipher / codec layers, the property does not need it either (no panic; all calls
/// Ok implies the failure-free result).
fn run_enc(bytes: Vec<u8>, pw: &[u8], bufsz: usize, k: Flt) -> (String, u64, bool) {
    let io = FaultIo::new(bytes, k);
    let calls = io.calls.clone();
    let pw = pw.to_vec();
    let r = catch(std::panic::AssertUnwindSafe(move || {
        let mut any_err = false;
        let mut a = match zip::ZipArchive::new(io) { Ok(a) => a, Err(e) => return (format!("open={}", super::read::cls_z(&e)), true) };
        let mut s = format!("open=ok n={}", a.len());
        let mut buf = vec![0u8; bufsz.max(1)];
        for i in 0..a.len() {
            let opened = if pw.is_empty() { a.by_index(i).map(Ok) } else { a.by_index_decrypt(i, &pw) };
            let r = match opened {
                Err(e) => { any_err = true; super::read::cls_z(&e) }
                Ok(Err(_)) => { any_err = true; "err:invalidpassword".to_string() }
                Ok(Ok(mut f)) => {
                    let mut h = crc32fast::Hasher::new();
                    let mut n = 0usize;
                    let res;
                    loop {
                        match f.read(&mut buf) {
                            Ok(0) => { res = format!("ok:{}:{}", h.clone().finalize(), n); break; }
                            Ok(c) => { h.update(&buf[..c]); n += c; }
                            Err(e) => {
                                any_err = true;
                                // the caller tries again: this must not panic
                                let again = match f.read(&mut buf) { Ok(c) => format!("ok{c}"), Err(_) => "err".to_string() };
                                res = format!("{}+retry:{again}", super::read::cls_io(&e));
                                break;
                            }
                        }
                    }
                    res
                }
            };
            s += &format!(" {i}={r}");
        }
        (s, any_err)
    }));
    match r { Ok((s, e)) => (s, calls.get(), e), Err(_) => ("panic".into(), calls.get(), true) }
}

fn enc_archive(r: &mut Rng) -> (Vec<u8>, Vec<u8>) {
    use std::io::Write;
    match r.below(4) {
        0 | 1 => {
            // WinZip AES (built by the harness's own AE-x encryptor): tiny payloads make the last ciphertext chunk
            // shorter than the authentication code
            let pw = b"fault-pw".to_vec();
            let n = *r.pick(&[0usize, 1, 5, 10, 11, 26, 100]);
            let plain = r.bytes(n);
            let salt_len = *r.pick(&[8usize, 12, 16]);
            let bits = match salt_len { 8 => 128, 12 => 192, _ => 256 };
            let salt = r.bytes(salt_len);
            (super::aes::aes_archive(*r.pick(&[1u16, 2]), bits, *r.pick(&[0u16, 8]), &pw, &plain, &salt), pw)
        }
        2 => {
            // ZipCrypto entries written by the crate
            let pw = b"zc".to_vec();
            let mut w = zip::ZipWriter::new(Cursor::new(vec![]));
            for i in 0..r.range(1, 3) {
                let o = zip::write::FileOptions::default().compression_method(*r.pick(&[zip::CompressionMethod::Stored, zip::CompressionMethod::Deflated]));
                use zip::unstable::write::FileOptionsExt;
                let _ = w.start_file(format!("e{i}"), o.with_deprecated_encryption(&pw));
                let n = r.below(60) as usize;
                let _ = w.write_all(&r.bytes(n));
            }
            (w.finish().map(|c| c.into_inner()).unwrap_or_default(), pw)
        }
        _ => {
            // compressed, unencrypted
            let mut w = zip::ZipWriter::new(Cursor::new(vec![]));
            for i in 0..r.range(1, 4) {
                let o = zip::write::FileOptions::default().compression_method(*r.pick(&[zip::CompressionMethod::Deflated, zip::CompressionMethod::Bzip2, zip::CompressionMethod::Zstd]));
                let _ = w.start_file(format!("c{i}"), o);
                let n = r.below(300) as usize;
                let _ = w.write_all(&b"abcabcabd".repeat(n / 9 + 1)[..n]);
            }
            (w.finish().map(|c| c.into_inner()).unwrap_or_default(), vec![])
        }
    }
}

/// a `kind=interrupted` fault the model does not describe: a write scenario with COMPRESSING entries.  The encoders
/// (flate2, bzip2, zstd) hand their output to the sink in loops of their own, which do not retry `Interrupted`
/// (`zio::Writer::dump`: `self.obj.write(&self.buf)?`), and their destructors write again; the writer model coalesces an
/// encoder's output into ONE `write_all` (I/O inside codecs is opaque, DESIGN R8), which at `MI` would retry.  Judged by
/// the oracle alone.  Everything else - stored and ZipCrypto entries, every header / directory write, `new_append`,
/// the seekable reader, the streaming ops - is compared with the `MI` / `M.retried` models.
fn intr_unmodelled(op: &str, a: &std::collections::BTreeMap<String, String>) -> bool {
    op == "fault.write" && a.get("kind").map(|s| s.as_str()) == Some("interrupted") && a.get("k").map(|s| s.as_str()) != Some("none")
        && a.get("comp").map(|s| s.as_str() != "-" && !s.is_empty()).unwrap_or(false)
}

fn k_of(a: &std::collections::BTreeMap<String, String>) -> Flt {
    let k: u64 = match a.get("k").map(|s| s.as_str()) { None | Some("none") => return None, Some(v) => v.parse().ok()? };
    let kind = match a.get("kind") { None => std::io::ErrorKind::ConnectionAborted, Some(n) => KINDS.iter().find(|x| x.0 == n.as_str())?.1 };
    Some((k, kind))
}

/// open + read every entry sequentially with one large buffer
fn run_read(bytes: Vec<u8>, k: Flt) -> (String, u64) {
    let io = FaultIo::new(bytes, k);
    let calls = io.calls.clone();
    let r = catch(std::panic::AssertUnwindSafe(move || {
        let mut a = match zip::ZipArchive::new(io) { Ok(a) => a, Err(e) => return format!("open={}", super::read::cls_z(&e)) };
        let mut s = format!("open=ok n={}", a.len());
        let mut buf = vec![0u8; 1 << 20];
        for i in 0..a.len() {
            let r = match a.by_index(i) {
                Err(e) => super::read::cls_z(&e),
                Ok(mut f) => {
                    let mut h = crc32fast::Hasher::new();
                    let mut n = 0usize;
                    let mut res = String::new();
                    loop {
                        match f.read(&mut buf) {
                            Ok(0) => { res = format!("ok:{}:{}", h.clone().finalize(), n); break; }
                            Ok(c) => { h.update(&buf[..c]); n += c; }
                            Err(e) => { res = super::read::cls_io(&e); break; }
                        }
                    }
                    res
                }
            };
            s += &format!(" {i}={r}");
        }
        s
    }));
    (r.unwrap_or_else(|_| "panic".into()), calls.get())
}

fn run_write(calls: &[String], srcs: &[Vec<u8>], k: Flt) -> (String, u64, Option<Vec<u8>>, bool) {
    let (s, n, fin, all_ok, _) = run_write_pos(calls, srcs, k);
    (s, n, fin, all_ok)
}

/// as `run_write`, plus the position the sink was handed back at by the first successful `finish()`
fn run_write_pos(calls: &[String], srcs: &[Vec<u8>], k: Flt) -> (String, u64, Option<Vec<u8>>, bool, Option<u64>) {
    let first: Vec<&str> = calls[0].split(',').collect();
    let base = if first[0] == "ap" { unhex(first[1]).unwrap_or_default() } else { vec![] };
    let io = FaultIo::new(base, k);
    let cnt = io.calls.clone();
    let ro = run_calls_sink(calls, srcs, io);
    let mut s = ro.tokens.join(" ");
    if let Some(f) = &ro.fin { s += " "; s += &show_final(f); }
    // `src:…` is the refusal of the SOURCE archive's `by_index_raw` (index out of range), not an answer of the writer
    let all_ok = ro.tokens.iter().all(|t| t == "ok" || t.starts_with("ok=") || t.starts_with("src:"));
    (s, cnt.get(), ro.fin, all_ok, ro.end_pos)
}

fn srcs_of(a: &std::collections::BTreeMap<String, String>) -> Vec<Vec<u8>> {
    (0..8).filter_map(|i| get_hex(a, &format!("src{i}"))).collect()
}

fn stored_opts(r: &mut Rng) -> String {
    format!("0,n,{},{},{},{},n", 0x21 + (r.below(100) as u16) * 512, r.below(0xbf00), if r.chance(1, 2) { r.below(512).to_string() } else { "n".into() }, r.chance(1, 6) as u8)
}

/// One item of a plain (stored) call sequence.  Families: 0..=3 ordinary entry, 4 directory, 5 symlink, 6 comment,
/// 7 extra-data mode (local, optionally central-only part) ended explicitly, 8 aligned entry, 9 extra-data mode
/// ended implicitly.
fn family_calls(r: &mut Rng, fam: u64, calls: &mut Vec<String>) {
    match fam {
        0..=3 => {
            // names as the caller passes them (`&str`: valid UTF-8, also non-ASCII ones); no NUL
            let name: Vec<u8> = super::write::rand_utf8_name(r).into_iter().map(|b| if b == 0 { b'_' } else { b }).collect();
            calls.push(format!("sf,{},{}", hex(&name), stored_opts(r)));
            for _ in 0..r.below(3) { let n = r.below(40) as usize; calls.push(format!("w,{}", hex(&r.bytes(n)))); }
        }
        4 => calls.push(format!("dir,{},{}", hex(b"d/"), stored_opts(r))),
        5 => calls.push(format!("sym,{},{},{}", hex(b"lnk"), hex(b"t/p"), stored_opts(r))),
        6 => calls.push(format!("c,{}", hex(b"cmt"))),
        7 => {
            calls.push(format!("sx,{},{}", hex(b"x"), stored_opts(r)));
            calls.push(format!("w,{}", hex(&[0xfe, 0xca, 2, 0, 1, 2])));
            if r.chance(1, 2) { calls.push("el".into()); calls.push(format!("w,{}", hex(&[0xef, 0xbe, 1, 0, 9]))); }
            calls.push("ex".into());
            calls.push(format!("w,{}", hex(b"data")));
        }
        9 => {
            // extra-data mode ended IMPLICITLY - by the next entry, by finish or by drop (`finish_file` calls
            // `end_extra_data` itself): non-empty, valid extra data, so the implicit end writes the extra field
            // and back-patches the header through the faulting sink
            calls.push(format!("sx,{},{}", hex(b"xi"), stored_opts(r)));
            calls.push(format!("w,{}", hex(&[0xfe, 0xca, 3, 0, 7, 8, 9])));
            if r.chance(1, 3) { calls.push("el".into()); calls.push(format!("w,{}", hex(&[0xef, 0xbe, 2, 0, 4, 5]))); }
        }
        _ => {
            // `start_file_aligned`: the padding record is written and the header back-patched through the sink
            let al = *r.pick(&[0u32, 1, 2, 4, 16, 64, 512, 3, 7, 4096]);
            calls.push(format!("sa,{},{},{al}", hex(b"al"), stored_opts(r)));
            if r.chance(3, 4) { let n = r.below(40) as usize; calls.push(format!("w,{}", hex(&r.bytes(n)))); }
        }
    }
}

const NFAM: u64 = 10;

/// A stored call sequence of 1..4 items ending in finish / drop / finish twice; `force` puts one item of that
/// family at a random place (so that every family is emitted in every run, whatever the seed).
fn write_scenario(r: &mut Rng, base: Option<&Vec<u8>>, force: Option<u64>) -> Vec<String> {
    let mut calls = vec![match base { Some(b) => format!("ap,{}", hex(b)), None => "new".into() }];
    let n = r.range(1, 4);
    let at = r.below(n);
    for j in 0..n {
        let fam = match force { Some(f) if j == at => f, _ => r.below(NFAM) };
        family_calls(r, fam, &mut calls);
        // `Write::flush` on a stored entry / in extra-data mode / with no entry open: one `flush` of the sink, which
        // fails like every other I/O call
        if r.chance(1, 3) { calls.push("fl".into()); }
    }
    calls.push(if r.chance(3, 4) { "fin".into() } else { "drop".into() });
    if r.chance(1, 3) && calls.last().unwrap() == "fin" { calls.push("fin".into()); }
    // ... and on the closed writer (BrokenPipe, no I/O), also after a finish that failed under the fault
    if r.chance(1, 3) && calls.last().unwrap() == "fin" { calls.push("fl".into()); }
    calls
}

/// A small source archive for raw copies: from the writer (stored / deflated) or, with data descriptors, from the
/// independent builder.  `whole`: the source reader (`write::ShortSrc`, chunk size a function of the bytes) delivers
/// every entry in one read, so the copy loop issues ONE sink write per entry as the model says; otherwise it
/// delivers 1 / 7 byte pieces (one sink write each: judged by the oracle alone).
fn rc_source(r: &mut Rng, whole: bool) -> Vec<u8> {
    for _ in 0..64 {
        let b = if r.chance(2, 3) {
            let mut w = zip::ZipWriter::new(Cursor::new(vec![]));
            for j in 0..r.range(1, 3) {
                let o = zip::write::FileOptions::default().compression_method(*r.pick(&[zip::CompressionMethod::Stored, zip::CompressionMethod::Deflated]))
                    .unix_permissions(0o640).large_file(r.chance(1, 8));
                let _ = w.start_file(format!("s{j}"), o);
                let n = r.below(120) as usize;
                let _ = w.write_all(&r.bytes(n));
            }
            w.finish().map(|c| c.into_inner()).unwrap_or_default()
        } else {
            let (mut l, _) = super::read::rand_layout(r);
            for e in l.entries.iter_mut() { e.method = 0; e.data.truncate(64); e.usize_ = e.data.len() as u64; e.crc = crc32fast::hash(&e.data); e.flags &= !1; }
            l.entries.truncate(3);
            l.prefix.truncate(16);
            l.trailing.clear();
            crate::mkzip::build(&l).bytes
        };
        let chunk = super::write::ShortSrc::new(b.clone()).chunk();
        if whole == (chunk >= 4000) { return b; }
    }
    // 64 rejections in a row (probability 2^-26 at best): an empty archive, nothing to copy
    zip::ZipWriter::new(Cursor::new(vec![])).finish().map(|c| c.into_inner()).unwrap_or_default()
}

/// Raw copies INTO the faulting sink, between ordinary entries; entry indices run one past the source's last
/// entry (the refused handle is the call's outcome).
fn rc_scenario(r: &mut Rng, nsrc_entries: usize) -> Vec<String> {
    let mut calls = vec!["new".to_string()];
    if r.chance(1, 2) { family_calls(r, 0, &mut calls); }
    for _ in 0..r.range(1, 3) {
        let nm = if r.chance(1, 2) { "same".to_string() } else { hex(b"renamed") };
        calls.push(format!("rc,0,{},{nm}", r.below(nsrc_entries as u64 + 1)));
        if r.chance(1, 4) { calls.push(format!("w,{}", hex(b"stray"))); }
    }
    if r.chance(1, 2) { let f = r.below(NFAM); family_calls(r, f, &mut calls); }
    calls.push(if r.chance(3, 4) { "fin".into() } else { "drop".into() });
    if r.chance(1, 3) && calls.last().unwrap() == "fin" { calls.push("fin".into()); }
    calls
}

/// The fault lines of one scenario: every I/O call index `k` of the fault-free run, the kind of the injected error
/// rotating with `k` (offset by the scenario index); `probe`: scenarios that open an archive (`ZipArchive::new`,
/// `new_append`) get a second line with kind `InvalidInput` for every `k`, the one kind the crate's code inspects.
fn push_faults(g: &mut GenOut, label: &str, prefix: &str, i: u64, n: u64, probe: bool) {
    for k in 0..n {
        let rot = KINDS[((i + k) % KINDS.len() as u64) as usize].0;
        let mut kinds = vec![rot];
        if probe && rot != "invalidinput" { kinds.push("invalidinput"); }
        for kind in kinds {
            g.push(label, format!("{prefix} k={k} kind={kind}"));
            *g.dist.entry(format!("kind.{kind}")).or_insert(0) += 1;
        }
    }
}

/// `dist` counters per scenario family: op lines whose call list contains the family.
fn count_families(g: &mut GenOut, calls: &[String], lines: u64) {
    let mut seen: Vec<&str> = vec![];
    for (j, c) in calls.iter().enumerate() {
        let t = c.split(',').next().unwrap_or("");
        let fam = match t {
            "ap" => "append-base", "sf" => "file", "dir" => "dir", "sym" => "symlink", "c" => "comment", "sx" => "extra-data",
            "el" => "extra-central", "sa" => "aligned", "rc" => "rawcopy", "drop" => "drop", "fl" => "flush",
            "fin" if j > 0 && calls[j - 1] == "fin" => "fin-twice",
            _ => continue,
        };
        if !seen.contains(&fam) { seen.push(fam); }
    }
    // extra-data mode left open: an `sx` whose next start / fin / drop comes before any `ex`
    let mut open = false;
    for c in calls {
        match c.split(',').next().unwrap_or("") {
            "sx" => { if open && !seen.contains(&"extra-implicit-end") { seen.push("extra-implicit-end"); } open = true; }
            "ex" => open = false,
            "sf" | "sa" | "dir" | "sym" | "rc" | "fin" | "drop" => { if open && !seen.contains(&"extra-implicit-end") { seen.push("extra-implicit-end"); } open = false; }
            _ => {}
        }
    }
    for fam in seen { *g.dist.entry(format!("fam.{fam}")).or_insert(0) += lines; }
}

/// call sequences through the compressing encoders and the ZipCrypto layer (small contents: each encoder hands
/// its whole output to the sink in one `write` when the entry is closed, as the model says)
fn codec_scenario(r: &mut Rng) -> Vec<String> {
    let mut calls = vec!["new".to_string()];
    for i in 0..r.range(1, 3) {
        let m = *r.pick(&[8u16, 12, 93, 0, 8]);
        let pw = if r.chance(1, 3) { hex(b"pw") } else { "n".into() };
        let o = format!("{m},n,{},{},n,{},{pw}", 0x21 + (r.below(100) as u16) * 512, r.below(0xbf00), r.chance(1, 6) as u8);
        calls.push(format!("sf,{},{o}", hex(format!("c{i}").as_bytes())));
        for _ in 0..r.below(3) { let n = r.below(60) as usize; calls.push(format!("w,{}", hex(&b"abcabcabd".repeat(n / 9 + 1)[..n]))); }
    }
    calls.push(if r.chance(3, 4) { "fin".into() } else { "drop".into() });
    // callers retry: a second finish after a failed one (and the implicit finalisation on drop after that)
    if r.chance(1, 2) && calls.last().unwrap() == "fin" { calls.push("fin".into()); }
    calls
}

/// Raw copy with the fault on the SOURCE archive's reader (a short-reading one): `raw_copy_file` must report a
/// source read error, never return Ok for a truncated copy.  Returns (outcome tokens, source I/O calls, result).
fn run_rawcopy(src: Vec<u8>, chunk: usize, k: Flt) -> (String, u64, Option<String>) {
    struct Short { inner: FaultIo, chunk: usize }
    impl Read for Short { fn read(&mut self, buf: &mut [u8]) -> std::io::Result<usize> { let n = buf.len().min(self.chunk.max(1)); self.inner.read(&mut buf[..n]) } }
    impl Seek for Short { fn seek(&mut self, p: SeekFrom) -> std::io::Result<u64> { self.inner.seek(p) } }
    let io = FaultIo::new(src, k);
    let calls = io.calls.clone();
    let r = catch(std::panic::AssertUnwindSafe(move || {
        let mut toks = vec![];
        let mut a = match zip::ZipArchive::new(Short { inner: io, chunk }) { Ok(a) => a, Err(e) => return (format!("open={}", super::read::cls_z(&e)), None) };
        toks.push("open=ok".to_string());
        let mut w = zip::ZipWriter::new(Cursor::new(vec![]));
        let _ = w.start_file("before", zip::write::FileOptions::default().compression_method(zip::CompressionMethod::Stored));
        let _ = w.write_all(b"first");
        let mut all_ok = true;
        for i in 0..a.len() {
            let t = match a.by_index_raw(i) {
                Err(e) => { all_ok = false; super::read::cls_z(&e) }
                Ok(f) => match w.raw_copy_file(f) { Ok(()) => "ok".to_string(), Err(e) => { all_ok = false; super::read::cls_z(&e) } },
            };
            toks.push(format!("rc{i}={t}"));
        }
        let _ = w.start_file("after", zip::write::FileOptions::default().compression_method(zip::CompressionMethod::Stored));
        let _ = w.write_all(b"last");
        match w.finish() {
            // every call returned Ok: what the archive reads back as (an archive that does not read back at all is
            // a result too: "unreadable")
            Ok(c) => { toks.push("fin=ok".into()); let l = if all_ok { Some(listing(c.get_ref()).unwrap_or_else(|| "unreadable".into())) } else { None }; (toks.join(" "), l) }
            Err(e) => { toks.push(format!("fin={}", super::read::cls_z(&e))); (toks.join(" "), None) }
        }
    }));
    match r { Ok((s, l)) => (s, calls.get(), l), Err(_) => ("panic".into(), calls.get(), None) }
}

/// What one run of the streaming entry loop showed.
pub struct SRun {
    /// one token per `read_zipfile_from_stream` call: `<i>=<name>:ok:<crc>:<len>` (the consumer got `len` bytes),
    /// `<i>=<name>:<error class>` (one of the consumer's reads failed), `<i>=<error class>` (the call itself
    /// failed), `end` (the central directory was reached)
    pub toks: Vec<String>,
    pub ncalls: u64,
    pub any_err: bool,
    /// index of the entry in whose drop-time drain the fault fired (the reads `Drop for ZipFile` issues)
    pub drain_hit: Option<usize>,
    /// per entry handed out: (compression method, compressed bytes the consumer's reads pulled from the device,
    /// largest read they asked for, do the reads follow the pattern `min(left, largest)` each delivered in full)
    pub pulls: Vec<(u16, u64, u64, bool)>,
}

/// `true` iff the device reads `rd` (asked, delivered) are those of `Model.takeLoop chunk p p`: each asks for
/// `min(left, chunk)` bytes and gets them, until `p` bytes are delivered.
fn pattern_regular(rd: &[(u64, u64)], p: u64, chunk: u64) -> bool {
    let mut left = p;
    for &(asked, got) in rd {
        if left == 0 || asked != left.min(chunk) || got != asked { return false; }
        left -= got;
    }
    left == 0
}

/// The streaming reader under faults: of every entry the consumer asks for `consume` decoded bytes (buffers of
/// `min(left, 65536)`, again until it has them, end-of-file or an error: `read::consume_k`), then drops the
/// handle, so the drain on drop runs into the fault as well; neither a read nor the drop may panic.
/// `Err(())`: a panic.
fn run_streaming(bytes: Vec<u8>, consume: usize, k: Flt) -> Result<SRun, ()> {
    let io = FaultIo::new(bytes, k);
    let calls = io.calls.clone();
    let calls2 = io.calls.clone();
    let log = io.reads.clone();
    let r = catch(std::panic::AssertUnwindSafe(move || {
        let mut io = io;
        let mut run = SRun { toks: vec![], ncalls: 0, any_err: false, drain_hit: None, pulls: vec![] };
        for i in 0..64 {
            match zip::read::read_zipfile_from_stream(&mut io) {
                Ok(None) => { run.toks.push("end".into()); break; }
                Err(e) => { run.any_err = true; run.toks.push(format!("{i}={}", super::read::cls_z(&e))); break; }
                Ok(Some(mut f)) => {
                    let l0 = log.borrow().len();
                    let (got, err) = super::read::consume_k(&mut f, consume);
                    {
                        let lg = log.borrow();
                        let rd = &lg[l0..];
                        let pulled: u64 = rd.iter().map(|x| x.1).sum();
                        let chunk = rd.iter().map(|x| x.0).max().unwrap_or(65536);
                        run.pulls.push((super::read::method_u16(f.compression()), pulled, chunk, pattern_regular(rd, pulled, chunk)));
                    }
                    let name = hex(f.name().as_bytes());
                    match err {
                        Some(e) => { run.any_err = true; run.toks.push(format!("{i}={name}:{}", super::read::cls_io(&e))); }
                        None => run.toks.push(format!("{i}={name}:ok:{}:{}", crc32fast::hash(&got), got.len())),
                    }
                    // `f` is dropped here: the rest of the entry is drained from the faulty stream
                    let before = calls2.get();
                    drop(f);
                    if let Some((kk, _)) = k { if before <= kk && kk < calls2.get() { run.drain_hit = Some(i); } }
                }
            }
        }
        run
    }));
    match r { Ok(mut run) => { run.ncalls = calls.get(); Ok(run) }, Err(_) => Err(()) }
}

/// The `pulled=` / `cbuf=` arguments of a `fault.stream` line from the fault-free run: for a Stored entry the
/// consumer pulls what it asks for (`consume`; the model caps it at the compressed size itself, whatever entry
/// turns up at that index under a fault), for a compressed one what was measured.  `None`: some decoder's reads
/// do not follow the `takeLoop` pattern (the scenario is then judged by the oracle alone).
fn pull_args(free: &SRun, consume: usize) -> Option<String> {
    if free.pulls.iter().any(|p| !p.3) { return None; }
    let pulled: Vec<String> = free.pulls.iter().map(|p| if p.0 == 0 { consume.to_string() } else { p.1.to_string() }).collect();
    let cbuf: Vec<String> = free.pulls.iter().map(|p| if p.0 == 0 { "65536".to_string() } else { p.2.max(1).to_string() }).collect();
    let j = |v: Vec<String>| if v.is_empty() { "-".to_string() } else { v.join(",") };
    Some(format!("pulled={} cbuf={}", j(pulled), j(cbuf)))
}

/// The one known way for a streaming run to return Ok everywhere with other entries (K-J), as narrowly as the
/// implementation alone can tell: (a) every call returned Ok, (b) the fault fired in a read issued by the
/// drop-time drain of entry `j` (a drain only touches the device when the consumer left part of the entry unread),
/// (c) the run agrees with the fault-free one up to and including entry `j` and differs at the very next call.
fn is_kj(run: &SRun, free: &SRun) -> bool {
    if run.any_err { return false; }
    let j = match run.drain_hit { Some(j) => j, None => return false };
    run.toks.len() > j && free.toks.len() > j && run.toks[..=j] == free.toks[..=j] && run.toks.get(j + 1) != free.toks.get(j + 1)
}

/// `ZipStreamReader::visit` under faults, with a visitor that asks for `consume` decoded bytes of every entry
/// (`read::consume_k`) and returns a read error to `visit` (as `extract` does: `io::copy(..)?`).  Tokens: one
/// `<i>=<name>:ok:<crc>:<len>` per completed `visit_file`, then — only when `visit` returned Ok — one `m=<name>` per
/// metadata record, then `visit=ok` / `visit=<error class>`.  `pulls` as in `run_streaming`.
fn run_visit(bytes: Vec<u8>, consume: usize, k: Flt) -> Result<SRun, ()> {
    struct V { consume: usize, toks: Vec<String>, metas: Vec<String>, pulls: Vec<(u16, u64, u64, bool)>, log: Rc<std::cell::RefCell<Vec<(u64, u64)>>> }
    impl zip::unstable::stream::ZipStreamVisitor for V {
        fn visit_file(&mut self, f: &mut zip::read::ZipFile<'_>) -> zip::result::ZipResult<()> {
            let i = self.pulls.len();
            let l0 = self.log.borrow().len();
            let (got, err) = super::read::consume_k(f, self.consume);
            {
                let lg = self.log.borrow();
                let rd = &lg[l0..];
                let pulled: u64 = rd.iter().map(|x| x.1).sum();
                let chunk = rd.iter().map(|x| x.0).max().unwrap_or(65536);
                self.pulls.push((super::read::method_u16(f.compression()), pulled, chunk, pattern_regular(rd, pulled, chunk)));
            }
            if let Some(e) = err { return Err(e.into()); }
            self.toks.push(format!("{i}={}:ok:{}:{}", hex(f.name().as_bytes()), crc32fast::hash(&got), got.len()));
            Ok(())
        }
        fn visit_additional_metadata(&mut self, m: &zip::unstable::stream::ZipStreamFileMetadata) -> zip::result::ZipResult<()> {
            self.metas.push(format!("m={}", hex(m.name().as_bytes())));
            Ok(())
        }
    }
    let io = FaultIo::new(bytes, k);
    let calls = io.calls.clone();
    let log = io.reads.clone();
    let r = catch(std::panic::AssertUnwindSafe(move || {
        let mut v = V { consume, toks: vec![], metas: vec![], pulls: vec![], log };
        let res = zip::unstable::stream::ZipStreamReader::new(io).visit(&mut v);
        let mut run = SRun { toks: v.toks, ncalls: 0, any_err: res.is_err(), drain_hit: None, pulls: v.pulls };
        match res {
            Ok(()) => { run.toks.extend(v.metas); run.toks.push("visit=ok".into()); }
            Err(e) => run.toks.push(format!("visit={}", super::read::cls_z(&e))),
        }
        run
    }));
    match r { Ok(mut run) => { run.ncalls = calls.get(); Ok(run) }, Err(_) => Err(()) }
}

/// A writer-made archive with compressed (and stored) entries for the streaming scenarios; `big`: one entry of
/// incompressible data whose compressed stream spans several decoder pulls and several 64 KiB drain reads.
fn comp_stream_archive(r: &mut Rng, big: bool) -> Vec<u8> {
    let mut w = zip::ZipWriter::new(Cursor::new(vec![]));
    for i in 0..r.range(1, 4) {
        let mut m = *r.pick(&[zip::CompressionMethod::Deflated, zip::CompressionMethod::Bzip2, zip::CompressionMethod::Zstd, zip::CompressionMethod::Stored]);
        if big && i == 0 { m = *r.pick(&[zip::CompressionMethod::Deflated, zip::CompressionMethod::Bzip2, zip::CompressionMethod::Zstd]); }
        let _ = w.start_file(format!("c{i}"), zip::write::FileOptions::default().compression_method(m));
        if big && i == 0 {
            let n = r.range(140_000, 200_000) as usize;
            let _ = w.write_all(&r.bytes(n));
        } else {
            let n = r.below(300) as usize;
            let _ = w.write_all(&b"abcabcabd".repeat(n / 9 + 1)[..n]);
        }
    }
    w.finish().map(|c| c.into_inner()).unwrap_or_default()
}

/// A stream whose first entry hides, exactly zero, one or two 64 KiB drain reads behind the bytes the consumer takes,
/// something that parses as the continuation of a ZIP stream: a nested stored archive (its first local header)
/// or a central-directory signature.  `Drop for ZipFile` drains in 64 KiB reads and ends silently at an error,
/// so a fault in the second / third drain read leaves the stream positioned right there.
fn nested_stream_archive(r: &mut Rng, consume: usize) -> Vec<u8> {
    let stored = zip::write::FileOptions::default().compression_method(zip::CompressionMethod::Stored);
    let inner = {
        let mut w = zip::ZipWriter::new(Cursor::new(vec![]));
        let _ = w.start_file("evil", stored);
        let _ = w.write_all(b"evil data");
        w.finish().map(|c| c.into_inner()).unwrap_or_default()
    };
    let mut content = r.bytes(consume);
    // 0: the FIRST drain read is the one that matters (the Lean witness `nestedStream`), 1 / 2: the second / third
    content.extend(std::iter::repeat(0x2eu8).take(65536 * r.below(3) as usize));
    if r.chance(2, 3) { content.extend_from_slice(&inner); } else { content.extend_from_slice(b"PK\x01\x02 not a central header"); }
    let mut w = zip::ZipWriter::new(Cursor::new(vec![]));
    let _ = w.start_file("a", stored);
    let _ = w.write_all(&content);
    let _ = w.start_file("b", stored);
    let _ = w.write_all(b"seventeen bytes!!");
    w.finish().map(|c| c.into_inner()).unwrap_or_default()
}

fn listing(bytes: &[u8]) -> Option<String> {
    let mut a = zip::ZipArchive::new(Cursor::new(bytes.to_vec())).ok()?;
    let mut s = format!("n={} c={}", a.len(), hex(a.comment()));
    for i in 0..a.len() {
        let mut f = a.by_index(i).ok()?;
        let mut b = vec![];
        f.read_to_end(&mut b).ok()?;
        #[allow(deprecated)]
        let m = f.compression().to_u16();
        s += &format!(" | {} {} {} {:?} x={}", hex(f.name().as_bytes()), m, crc32fast::hash(&b), f.unix_mode(), hex(f.extra_data()));
    }
    Some(s)
}

impl Stream for Fault {
    fn name(&self) -> &'static str { "fault" }

    fn gen(&self, seed: u64, tier: &str) -> GenOut {
        let mut g = GenOut::default();
        g.rule = "scenarios: (read) open + read every entry of small stored archives from the independent builder (prefix, ZIP64 end records, descriptors, comments) and the writer; (write) stored call sequences incl. directories, symlinks, extra data (local and central-only), comments, aligned entries, raw copies into the faulting sink, Write::flush (stored entries, extra-data mode, closed writer), finish/drop, second finish, and append onto bases (writer-made and from the independent builder) - one `fam.<family>` counter each; compressing / ZipCrypto entries with the codec tables; for each scenario the fault-free run and then a hard error injected at EVERY I/O call index k (exhaustive per scenario), its io::ErrorKind rotating over 8 kinds incl. Interrupted (`kind.*` counters; scenarios that open an archive: every k also with InvalidInput, the kind get_directory_counts inspects; Interrupted is compared with the model everywhere: the streaming ops - M.retried -, fault.read - the MI instance of the generic parsers, openArchiveI + byIndexReadB with a bare-read consumer -, fault.write - the generic writer GW at MI: write_all retries, seek / flush are bare, newAppendI; only write scenarios with COMPRESSING entries are judged by the oracle alone under Interrupted, the encoders' own output loops do not retry); (stream) read_zipfile_from_stream with a consumer that asks for `consume` bytes of each entry and drops it, compared call by call with Model.streamEntryCI (stored entries exact; deflate / bzip2 / zstd entries with the decoders' measured pull pattern pulled= / cbuf=; one nested-archive scenario behind 64 KiB drain reads = K-J, one incompressible entry spanning several decoder pulls and drain reads), and the same streams through ZipStreamReader::visit (fault.visit, Model.visitFile / drainE / visitCentral: no known finding there). non-trivial = a fault run (k given)".into();
        let nscen = if tier == "thorough" { 2000 } else { 80 };
        // a writer-made archive: a plain call sequence, finished
        let finished = |r: &mut Rng| -> Vec<u8> {
            let calls = write_scenario(r, None, None);
            let mut c2 = calls.clone(); if c2.last().unwrap() != "fin" { let n = c2.len() - 1; c2[n] = "fin".into(); }
            super::write::run_calls(&c2, &[]).fin.unwrap_or_default()
        };
        let small_builder = |r: &mut Rng| -> Vec<u8> {
            let (mut l, _) = super::read::rand_layout(r);
            for e in l.entries.iter_mut() { e.method = 0; e.data.truncate(64); e.usize_ = e.data.len() as u64; e.crc = crc32fast::hash(&e.data); e.flags &= !1; }
            l.entries.truncate(3);
            l.prefix.truncate(16);
            l.trailing.clear();
            crate::mkzip::build(&l).bytes
        };
        // one write scenario: the fault-free line, then one line per I/O call index
        let push_write = |g: &mut GenOut, i: u64, kind: &str, op: &str, calls: &[String], srcs: &[Vec<u8>], tables: &str| {
            let (_, n, _, _) = run_write(calls, srcs, None);
            let mut tail = tables.to_string();
            for (j, s) in srcs.iter().enumerate() { tail += &format!(" src{j}={}", hex(s)); }
            g.push(&format!("{kind}.free"), format!("{op} calls={}{tail} k=none", calls.join(";")));
            let before = g.ops.len();
            push_faults(g, &format!("{kind}.k"), &format!("{op} calls={}{tail}", calls.join(";")), i, n, calls[0].starts_with("ap,"));
            count_families(g, calls, (g.ops.len() - before) as u64 + 1);
        };
        for i in 0..nscen {
            let mut r = super::rng_for(seed, "fault", i);
            // every scenario class has its own residues mod 16 (NB: each arm must be reachable - a class that is
            // never emitted shows as a missing `gen.<class>` / `fam.<family>` counter in the evidence)
            match i % 16 {
                1 | 9 => {
                    // streaming reader, partial consumption, drain on drop: compared call by call with the model
                    // (`streamEntryC` per entry) under every fault index.  Residue 1: stored entries (exact); residue 9:
                    // compressed entries with the measured pull pattern of the decoders (`pulled=` compressed bytes
                    // per entry, `cbuf=` the decoder's read size; oracle-only - `fault.streamo` - should a decoder's
                    // reads not follow the takeLoop pattern).  One scenario per 80 (none in the further-seed tier, the
                    // lines are long): a nested archive / central signature behind 64 KiB drain reads (K-J); one
                    // with an incompressible entry spanning several decoder pulls and several drain reads.
                    let nested = i % 80 == 9 && tier != "quickx";
                    let big = i % 80 == 41 && tier != "quickx";
                    let consume = if nested { *r.pick(&[0usize, 4, 100]) } else if big { *r.pick(&[0usize, 1, 40000, 70000, 250000]) } else { *r.pick(&[0usize, 1, 7, 1000]) };
                    let bytes = if nested { nested_stream_archive(&mut r, consume) } else if i % 16 == 9 { comp_stream_archive(&mut r, big) } else { finished(&mut r) };
                    if nested { *g.dist.entry("stream.nested-behind-drain".into()).or_insert(0) += 1; }
                    if big { *g.dist.entry("stream.big-compressed".into()).or_insert(0) += 1; }
                    let free = match run_streaming(bytes.clone(), consume, None) { Ok(f) => f, Err(()) => continue };
                    for p in &free.pulls { *g.dist.entry(format!("stream.entry.m{}{}", p.0, if p.1 > 0 && p.1 < 1 << 16 { ".pulled-part" } else if p.1 == 0 { ".pulled-none" } else { ".pulled-64k+" })).or_insert(0) += 1; }
                    let codec = super::read::codec_table(&bytes);
                    let (op, tail) = match pull_args(&free, consume) {
                        Some(pa) => ("fault.stream", format!(" codec={codec} {pa}")),
                        None => { *g.dist.entry("stream.pattern-unmodelled".into()).or_insert(0) += 1; ("fault.streamo", String::new()) }
                    };
                    g.push("stream.free", format!("{op} bytes={} consume={consume}{tail} k=none", hex(&bytes)));
                    push_faults(&mut g, "stream.k", &format!("{op} bytes={} consume={consume}{tail}", hex(&bytes)), i, free.ncalls, false);
                    // the same stream through `ZipStreamReader::visit` (visitor: the same consumer, a read error is
                    // returned to `visit`): the entry is drained EXPLICITLY after `visit_file` and a read error of
                    // that drain is `visit`'s error (repair of K-J for the visitor API) - every second scenario,
                    // always the nested and the big one
                    if nested || big || (i / 16) % 2 == 0 {
                        if let Ok(vfree) = run_visit(bytes.clone(), consume, None) {
                            let (vop, vtail) = match pull_args(&vfree, consume) {
                                Some(pa) => ("fault.visit", format!(" codec={codec} {pa}")),
                                None => { *g.dist.entry("visit.pattern-unmodelled".into()).or_insert(0) += 1; ("fault.visito", String::new()) }
                            };
                            if nested { *g.dist.entry("visit.nested-behind-drain".into()).or_insert(0) += 1; }
                            g.push("visit.free", format!("{vop} bytes={} consume={consume}{vtail} k=none", hex(&bytes)));
                            push_faults(&mut g, "visit.k", &format!("{vop} bytes={} consume={consume}{vtail}", hex(&bytes)), i, vfree.ncalls, false);
                        }
                    }
                }
                3 | 11 => {
                    // encrypted / compressed read scenario, small caller buffers, retry after an error (oracle only)
                    let (bytes, pw) = enc_archive(&mut r);
                    let bufsz = *r.pick(&[1usize, 8, 64, 1 << 16]);
                    let (_, n, _) = run_enc(bytes.clone(), &pw, bufsz, None);
                    let pwh = if pw.is_empty() { "-".to_string() } else { hex(&pw) };
                    g.push("enc.free", format!("fault.enc bytes={} pw={pwh} buf={bufsz} k=none", hex(&bytes)));
                    push_faults(&mut g, "enc.k", &format!("fault.enc bytes={} pw={pwh} buf={bufsz}", hex(&bytes)), i, n, false);
                }
                5 => {
                    // codec scenarios carry the codec tables (as `make_line` of the write stream builds them): the model
                    // describes the encoder destructor's retry on the error path (`Model.emitFinish`, M2), so outcomes,
                    // sink bytes and call counts are compared exactly for every fault index
                    let calls = codec_scenario(&mut r);
                    let ro = super::write::run_calls(&calls, &[]);
                    let tables = format!(" comp={} zc={}", if ro.comp.is_empty() { "-".into() } else { ro.comp.join(";") }, if ro.zc.is_empty() { "-".into() } else { ro.zc.join(";") });
                    push_write(&mut g, i, "writec", "fault.write", &calls, &[], &tables);
                }
                7 => {
                    // raw copy with the fault on the source reader (oracle only)
                    let src = {
                        let mut w = zip::ZipWriter::new(Cursor::new(vec![]));
                        for j in 0..r.range(1, 3) {
                            let o = zip::write::FileOptions::default().compression_method(*r.pick(&[zip::CompressionMethod::Stored, zip::CompressionMethod::Deflated]));
                            let _ = w.start_file(format!("s{j}"), o);
                            let n = r.range(20, 400) as usize;
                            let _ = w.write_all(&r.bytes(n));
                        }
                        w.finish().map(|c| c.into_inner()).unwrap_or_default()
                    };
                    let chunk = *r.pick(&[1usize, 7, 64, 100000]);
                    let (_, n, _) = run_rawcopy(src.clone(), chunk, None);
                    g.push("rawcopy.free", format!("fault.rawcopy src={} chunk={chunk} k=none", hex(&src)));
                    push_faults(&mut g, "rawcopy.k", &format!("fault.rawcopy src={} chunk={chunk}", hex(&src)), i, n, false);
                }
                13 => {
                    // raw copies INTO the faulting sink: compared with the model when the source reader delivers each
                    // entry whole (one sink write per entry), oracle-only behind a 1 / 7-byte source reader
                    let whole = (i / 16) % 3 != 2;
                    let src = rc_source(&mut r, whole);
                    let nent = zip::ZipArchive::new(Cursor::new(src.clone())).map(|a| a.len()).unwrap_or(0);
                    let calls = rc_scenario(&mut r, nent);
                    if whole { push_write(&mut g, i, "write-rc", "fault.write", &calls, &[src], ""); }
                    else { push_write(&mut g, i, "writeo-rc", "fault.writeo", &calls, &[src], ""); }
                }
                6 | 14 | 15 => {
                    // plain (stored) call sequences: 6 = fresh sink, 14 = appended onto a base (writer-made or from the
                    // independent builder), 15 = either; in 6 and 14 one item of a family that rotates with the scenario
                    // index is forced, so directories, symlinks, comments, extra-data mode and aligned entries are each
                    // emitted in every run of at least 80 scenarios
                    let with_base = i % 16 == 14 || (i % 16 == 15 && r.chance(1, 4));
                    let base = if with_base { Some(if r.chance(2, 3) { finished(&mut r) } else { small_builder(&mut r) }) } else { None };
                    let force = if i % 16 == 15 { None } else { Some(4 + (i / 16 + if i % 16 == 14 { 3 } else { 0 }) % (NFAM - 4)) };
                    let calls = write_scenario(&mut r, base.as_ref(), force);
                    push_write(&mut g, i, "write", "fault.write", &calls, &[], "");
                }
                _ => {
                    // read scenario
                    let bytes = if r.chance(1, 2) { small_builder(&mut r) } else { finished(&mut r) };
                    let (_, n) = run_read(bytes.clone(), None);
                    g.push("read.free", format!("fault.read bytes={} k=none", hex(&bytes)));
                    push_faults(&mut g, "read.k", &format!("fault.read bytes={}", hex(&bytes)), i, n, true);
                }
            }
        }
        // how the `Interrupted` lines are judged: compared with the models with std's convention, or (compressing write
        // scenarios only) by the oracle alone
        let mut intr = (0u64, 0u64);
        for l in &g.ops {
            let (op, a) = parse_line(l);
            if a.get("kind").map(|s| s.as_str()) == Some("interrupted") && !op.ends_with('o') && op != "fault.enc" && op != "fault.writec" && op != "fault.rawcopy" {
                if intr_unmodelled(&op, &a) { intr.1 += 1 } else { intr.0 += 1 }
            }
        }
        g.dist.insert("interrupted.compared".into(), intr.0);
        g.dist.insert("interrupted.oracle-only-compressing".into(), intr.1);
        g
    }

    fn run(&self, line: &str) -> String {
        let (op, a) = parse_line(line);
        let k = k_of(&a);
        if intr_unmodelled(&op, &a) { return "oracle-only".into(); }
        // `Interrupted` inside std's retry loops is described by the model for the streaming ops (`M.retried`) and the
        // seekable reader (`Model/Interrupted.lean`: the generic parsers at `MI`; this harness's own entry-reading loop in
        // `run_read` is a bare `read` loop, which does not retry - modelled as such: `byIndexReadB`)
        match op.as_str() {
            "fault.read" => {
                let (s, n) = run_read(get_hex(&a, "bytes").unwrap_or_default(), k);
                format!("{s} ncalls={n}")
            }
            "fault.enc" | "fault.writec" | "fault.writeo" | "fault.rawcopy" | "fault.streamo" | "fault.visito" => "oracle-only".into(),
            "fault.visit" => {
                match run_visit(get_hex(&a, "bytes").unwrap_or_default(), get_u64(&a, "consume").unwrap_or(0) as usize, k) {
                    Ok(r) => format!("{} ncalls={}", r.toks.join(" "), r.ncalls),
                    Err(()) => "panic".into(),
                }
            }
            "fault.stream" => {
                match run_streaming(get_hex(&a, "bytes").unwrap_or_default(), get_u64(&a, "consume").unwrap_or(0) as usize, k) {
                    Ok(r) => format!("{} ncalls={}", r.toks.join(" "), r.ncalls),
                    Err(()) => "panic".into(),
                }
            }
            "fault.write" => {
                let calls: Vec<String> = a.get("calls").map(|c| c.split(';').map(|s| s.to_string()).collect()).unwrap_or_default();
                if calls.is_empty() { return "bad-op".into(); }
                let (s, n, _, _) = run_write(&calls, &srcs_of(&a), k);
                format!("{s} ncalls={n}")
            }
            _ => "bad-op".into(),
        }
    }

    fn nontrivial(&self, line: &str, _resp: &str) -> bool { !line.ends_with("k=none") }

    fn oracle(&self, line: &str, resp: &str) -> Vec<OracleFailure> {
        let mut f = vec![];
        if resp.contains("panic") {
            f.push(OracleFailure { what: format!("panic under an injected I/O fault: {}", &resp[..resp.len().min(200)]) });
            return f;
        }
        let (op, a) = parse_line(line);
        let k = k_of(&a);
        if op == "fault.stream" || op == "fault.streamo" {
            let bytes = get_hex(&a, "bytes").unwrap_or_default();
            let consume = get_u64(&a, "consume").unwrap_or(0) as usize;
            let run = match run_streaming(bytes.clone(), consume, k) {
                Ok(r) => r,
                Err(()) => { f.push(OracleFailure { what: format!("panic under an injected I/O fault in the streaming reader (read or drain on drop): k={k:?} consume={consume}") }); return f; }
            };
            if k.is_some() && !run.any_err {
                let free = match run_streaming(bytes, consume, None) { Ok(r) => r, Err(()) => return f };
                if run.toks != free.toks {
                    let (res, fr) = (run.toks.join(" "), free.toks.join(" "));
                    // the one known way (known finding K-J): the fault fired in a read issued by `Drop for ZipFile`
                    // (which cannot report it and ends the drain), and what follows in the stream parses as entries -
                    // `is_kj`: all Ok, fault inside the drain of entry j, runs equal up to j and different at j+1;
                    // the same symptom with the fault anywhere else, or a difference anywhere else, is a violation
                    if is_kj(&run, &free) { f.push(OracleFailure { what: format!("K-J stream-drain-fault-swallowed: a read error while a dropped streamed entry is drained ends the drain silently; the next read_zipfile_from_stream parses the undrained rest of the entry: every call Ok, entries `{res}` instead of `{fr}`") }); }
                    else { f.push(OracleFailure { what: format!("streaming reader: every call succeeded under the fault but the result differs from the fault-free run (fault {}): `{res}` vs `{fr}`", match run.drain_hit { Some(j) => format!("inside the drain of entry {j}, but the runs do not first differ at the call after it"), None => "outside every drop-time drain".to_string() }) }); }
                }
            }
            return f;
        }
        if op == "fault.visit" || op == "fault.visito" {
            let bytes = get_hex(&a, "bytes").unwrap_or_default();
            let consume = get_u64(&a, "consume").unwrap_or(0) as usize;
            let run = match run_visit(bytes.clone(), consume, k) {
                Ok(r) => r,
                Err(()) => { f.push(OracleFailure { what: format!("panic under an injected I/O fault in ZipStreamReader::visit: k={k:?} consume={consume}") }); return f; }
            };
            // `visit` returns a Result and drains every entry itself: NO known finding here - Ok under a fault with
            // anything but the fault-free visits is a violation, wherever the fault fired
            if k.is_some() && !run.any_err {
                let free = match run_visit(bytes, consume, None) { Ok(r) => r, Err(()) => return f };
                if run.toks != free.toks {
                    f.push(OracleFailure { what: format!("ZipStreamReader::visit returned Ok under the fault but visited other entries than the fault-free run: `{}` vs `{}`", run.toks.join(" "), free.toks.join(" ")) });
                }
            }
            return f;
        }
        if op == "fault.rawcopy" {
            let src = get_hex(&a, "src").unwrap_or_default();
            let chunk = get_u64(&a, "chunk").unwrap_or(7) as usize;
            let (res, _, l) = run_rawcopy(src.clone(), chunk, k);
            if res.contains("panic") { f.push(OracleFailure { what: format!("panic under an injected fault on the source of a raw copy: k={k:?}") }); return f; }
            if k.is_some() {
                if let Some(lk) = l {
                    // every call returned Ok: the copy must be what the failure-free run produces
                    let (_, _, lf) = run_rawcopy(src, chunk, None);
                    if Some(&lk) != lf.as_ref() { f.push(OracleFailure { what: format!("raw copy: every call succeeded under a fault on the source reader but the archive differs from the fault-free run: {lk:?} vs {lf:?}") }); }
                }
            }
            return f;
        }
        if op == "fault.enc" {
            let bytes = get_hex(&a, "bytes").unwrap_or_default();
            let pw = get_hex(&a, "pw").unwrap_or_default();
            let bufsz = get_u64(&a, "buf").unwrap_or(8) as usize;
            let (res, _, any_err) = run_enc(bytes.clone(), &pw, bufsz, k);
            if res.contains("panic") { f.push(OracleFailure { what: format!("panic under an injected I/O fault (encrypted/compressed entries, retry after the error): k={k:?}") }); return f; }
            if k.is_some() && !any_err {
                let (free, _, _) = run_enc(bytes, &pw, bufsz, None);
                if res != free { f.push(OracleFailure { what: format!("reader: every call succeeded under the fault but the result differs from the fault-free run: `{res}` vs `{free}`") }); }
            }
            return f;
        }
        if k.is_none() { return f; }
        match op.as_str() {
            "fault.read" => {
                let bytes = get_hex(&a, "bytes").unwrap_or_default();
                let (free, _) = run_read(bytes.clone(), None);
                // every call returned a value: open ok and every entry ok ⇒ identical to the fault-free run
                let own;
                let resp = if resp == "oracle-only" { let (s, n) = run_read(bytes, k); if s.contains("panic") { f.push(OracleFailure { what: format!("panic under an injected I/O fault: k={k:?}") }); return f; } own = format!("{s} ncalls={n}"); own.as_str() } else { resp };
                let all_ok = resp.starts_with("open=ok") && !resp.contains("=err");
                let r = resp.rsplit_once(" ncalls=").map(|x| x.0).unwrap_or(resp);
                if all_ok && r != free { f.push(OracleFailure { what: format!("reader: every call succeeded under the fault but the result differs from the fault-free run: `{r}` vs `{free}`") }); }
            }
            "fault.write" | "fault.writec" | "fault.writeo" => {
                let calls: Vec<String> = a.get("calls").map(|c| c.split(';').map(|s| s.to_string()).collect()).unwrap_or_default();
                let srcs = srcs_of(&a);
                let (resp_w, _, fin_k, all_ok, pos_k) = run_write_pos(&calls, &srcs, k);
                if resp_w.contains("panic") { f.push(OracleFailure { what: format!("panic under an injected I/O fault: {}", &resp_w[..resp_w.len().min(200)]) }); return f; }
                // `drop` returns no Result (the crate documents that dropping "may silently fail"): a run counts
                // as a success only if it contains an explicit finish()
                let has_fin = calls.iter().any(|c| c == "fin");
                if all_ok && has_fin {
                    let (_, _, fin_free, _, pos_free) = run_write_pos(&calls, &srcs, None);
                    let (lk, lf) = (fin_k.as_deref().and_then(listing), fin_free.as_deref().and_then(listing));
                    if lk != lf { f.push(OracleFailure { what: format!("writer: every call succeeded under the fault but the archive reads back differently: {:?} vs {:?}", lk, lf) }); }
                    // "a result identical to the failure-free run" is, for a writer, the BYTES it produced (and where
                    // it left the sink): two archives that list alike need not be the same archive - a directory
                    // written behind the old one (D22: `new_append` ignored the failure of its repositioning seek)
                    // leaves dead bytes inside the file and every later offset shifted
                    else if fin_k != fin_free || pos_k != pos_free {
                        let (bk, bf) = (fin_k.unwrap_or_default(), fin_free.unwrap_or_default());
                        let at = bk.iter().zip(bf.iter()).position(|(x, y)| x != y).unwrap_or(bk.len().min(bf.len()));
                        f.push(OracleFailure { what: format!("writer: every call succeeded under the fault but the bytes written differ from the fault-free run: {} vs {} bytes, first difference at offset {at}, sink handed back at {:?} vs {:?} (both read back as {:?})", bk.len(), bf.len(), pos_k, pos_free, lk) });
                    }
                }
            }
            _ => {}
        }
        f
    }
}
