//! C07: `ZipArchive::extract` / `ZipStreamReader::extract` against a real directory.
//!
//! `fs.extract which=<seek|stream> priv=<0|1> dmode=<oct> fmode=<oct> root=<absent|oct mode> entries=<e,e,…|->`
//! with `e = <name>:<local name|=>:<kind>:<attrs>:<data>` (names and data in hex, `-` = empty, `=` = the
//! local header carries the same name; kind `f` readable / `c` wrong CRC / `u` unsupported compression
//! method; attrs `n` = external attributes 0, `u<oct>` = made-by Unix with `mode << 16`, `d<hex>` =
//! made-by DOS with these external attributes).
//! → `<class> root=<absent|oct> tree=<items|-> outside=<none|paths>`; items `<path>:d:<mode>` /
//! `<path>:f:<mode>:<data hex>` sorted bytewise, `path` = hex-rendered components joined by '/'.
//!
//! Implementation side: the archive is built with the independent builder `crate::mkzip` (UTF-8 flag
//! set, stored), then extracted into a FRESH sandbox `<framework>/.work/sbx/<pid>-<n>/root` whose
//! sibling `canary/keep` is a known file.  The sandbox directory (root AND siblings) is snapshotted
//! recursively before and after (relative path, kind, content, mode & 0o7777, symlink targets) and
//! removed afterwards.  The extraction itself runs in a CHILD PROCESS (`zvharness fs-child …`, re-exec
//! of this binary) that is jailed into the sandbox base with chroot(2) before it touches the archive;
//! its umask is `0o777 & !dmode` (C library's `umask`, declared `extern "C"`, no extra crate), and
//! `priv=0` makes it drop to the effective uid 65534 so that permission bits restrict (generated only
//! when the harness is the superuser; a harness that is not the superuser runs everything `priv=0`,
//! un-jailed, behind the name guard below).
//!
//! CONTAINMENT (matters exactly when the crate is broken, e.g. under a mutation): the target directory
//! sits `PAD` padding directories below the per-op sandbox base (`<base>/p/p/…/p/{root,canary}`), and
//! `run` REFUSES (`bad-op`) every op with a name that could lead a careless extractor out of the base:
//! an absolute name must start with `/@SBX@` (the token is replaced by the absolute path of the padded
//! working directory — that is how absolute names are pointed at the canary and never at a system path)
//! and no name may climb more than `PAD` levels ('/' and '\\' both read as separators, also for the part
//! before a NUL); entry contents (a link target if the crate ever made real symlinks) obey the same rule.
//! The model sees the token unexpanded; both sides reject such a name for its leading '/'.
use super::{GenOut, OracleFailure, Stream};
use crate::mkzip;
use crate::prng::Rng;
use crate::util::*;
use std::collections::{BTreeMap, BTreeSet};
use std::ffi::OsStr;
use std::fs;
use std::io::Cursor;
use std::os::unix::ffi::OsStrExt;
use std::os::unix::fs::PermissionsExt;
use std::path::{Path, PathBuf};
use std::sync::atomic::{AtomicU64, Ordering};

extern "C" {
    fn umask(mask: u32) -> u32;
    fn seteuid(uid: u32) -> i32;
    fn geteuid() -> u32;
}

pub struct FsStream;

const TOKEN: &[u8] = b"@SBX@";
const NOBODY: u32 = 65534;
/// padding directories between the sandbox base and the working directory
const PAD: usize = 10;
static COUNTER: AtomicU64 = AtomicU64::new(0);

#[derive(Clone, Debug, PartialEq)]
enum Attrs {
    None,
    Unix(u32),
    Dos(u32),
}

#[derive(Clone, Debug)]
struct Ent {
    name: Vec<u8>,
    lname: Option<Vec<u8>>,
    kind: char,
    attrs: Attrs,
    data: Vec<u8>,
}

impl Ent {
    fn render(&self) -> String {
        let at = match &self.attrs {
            Attrs::None => "n".to_string(),
            Attrs::Unix(m) => format!("u{:o}", m),
            Attrs::Dos(x) => format!("d{:x}", x),
        };
        let ln = match &self.lname {
            None => "=".to_string(),
            Some(l) => hex(l),
        };
        format!("{}:{}:{}:{}:{}", hex(&self.name), ln, self.kind, at, hex(&self.data))
    }
    fn local(&self) -> &[u8] {
        self.lname.as_deref().unwrap_or(&self.name)
    }
    /// `unix_mode()` as documented: None when the attributes are 0; Unix → high 16 bits; DOS →
    /// 0o40775 / 0o100664, write bits stripped when read-only.
    fn mode(&self) -> Option<u32> {
        match self.attrs {
            Attrs::None => None,
            Attrs::Unix(m) => {
                if m == 0 {
                    None
                } else {
                    Some(m)
                }
            }
            Attrs::Dos(x) => {
                if x == 0 {
                    None
                } else {
                    let m = if x & 0x10 != 0 { 0o40775 } else { 0o100664 };
                    Some(if x & 1 != 0 { m & 0o555 } else { m })
                }
            }
        }
    }
}

fn parse_entries(s: &str) -> Option<Vec<Ent>> {
    if s == "-" || s.is_empty() {
        return Some(vec![]);
    }
    let mut out = vec![];
    for e in s.split(',') {
        let f: Vec<&str> = e.split(':').collect();
        if f.len() != 5 {
            return None;
        }
        let name = unhex(f[0])?;
        let lname = if f[1] == "=" { None } else { Some(unhex(f[1])?) };
        let kind = match f[2] {
            "f" => 'f',
            "c" => 'c',
            "u" => 'u',
            _ => return None,
        };
        let attrs = if f[3] == "n" {
            Attrs::None
        } else if let Some(o) = f[3].strip_prefix('u') {
            let m = u32::from_str_radix(o, 8).ok()?;
            if m >= 65536 {
                return None;
            }
            Attrs::Unix(m)
        } else if let Some(x) = f[3].strip_prefix('d') {
            Attrs::Dos(u32::from_str_radix(x, 16).ok()?)
        } else {
            return None;
        };
        let data = unhex(f[4])?;
        out.push(Ent { name, lname, kind, attrs, data });
    }
    Some(out)
}

fn framework_root() -> PathBuf {
    if let Ok(d) = std::env::var("ZV_ROOT") {
        return PathBuf::from(d);
    }
    // <root>/harness/target/<profile>/zvharness
    if let Ok(exe) = std::env::current_exe() {
        if let Some(p) = exe.ancestors().nth(4) {
            if p.join("harness").is_dir() {
                return p.to_path_buf();
            }
        }
    }
    std::env::temp_dir().join("zvharness-root")
}

fn sbx_parent() -> PathBuf {
    let p = framework_root().join(".work").join("sbx");
    // the unprivileged cases (euid 65534) must be able to reach the sandbox: when the framework lives below a
    // directory without search permission for others (a copy under /root, say), use a scratch directory under the
    // system temp dir instead (created at run time, removed with each sandbox)
    let reachable = p.ancestors().filter(|a| a.is_dir()).all(|a| fs::metadata(a).map(|m| m.permissions().mode() & 0o001 != 0).unwrap_or(false));
    if reachable { p } else { std::env::temp_dir().join(format!("zvharness-sbx-{}", unsafe { libc_getuid() })) }
}

extern "C" { #[link_name = "getuid"] fn libc_getuid() -> u32; }

/// (kind, mode & 0o7777, content or link target)
type Snap = BTreeMap<Vec<Vec<u8>>, (char, u32, Vec<u8>)>;

/// Run `f` on an object the harness owns with owner read (+ search for directories) granted for the duration:
/// a harness that is not the superuser must still be able to look into what an extraction left with mode 000.
fn with_owner_access<T>(p: &Path, is_dir: bool, f: impl Fn() -> std::io::Result<T>) -> std::io::Result<T> {
    match f() {
        Ok(v) => Ok(v),
        Err(e) => {
            let md = fs::symlink_metadata(p)?;
            let mode = md.permissions().mode() & 0o7777;
            let need = if is_dir { 0o500 } else { 0o400 };
            if md.file_type().is_symlink() || mode & need == need || fs::set_permissions(p, fs::Permissions::from_mode(mode | need)).is_err() {
                return Err(e);
            }
            let r = f();
            let _ = fs::set_permissions(p, fs::Permissions::from_mode(mode));
            r
        }
    }
}

fn snapshot_into(dir: &Path, rel: &mut Vec<Vec<u8>>, out: &mut Snap) {
    let listed = with_owner_access(dir, true, || fs::read_dir(dir).map(|rd| rd.flatten().map(|e| (e.file_name(), e.path())).collect::<Vec<_>>()));
    let rd = match listed {
        Ok(r) => r,
        Err(_) => {
            out.insert({ let mut k = rel.clone(); k.push(b"?unreadable".to_vec()); k }, ('?', 0, vec![]));
            return;
        }
    };
    // entries of a directory without search permission cannot even be stat-ed by a harness that is not the superuser
    let dir_mode = fs::symlink_metadata(dir).map(|m| m.permissions().mode() & 0o7777).ok();
    let widened = match dir_mode {
        Some(m) if m & 0o500 != 0o500 && unsafe { geteuid() } != 0 => fs::set_permissions(dir, fs::Permissions::from_mode(m | 0o500)).is_ok(),
        _ => false,
    };
    snapshot_entries(rd, rel, out);
    if widened {
        let _ = fs::set_permissions(dir, fs::Permissions::from_mode(dir_mode.unwrap()));
    }
}

fn snapshot_entries(rd: Vec<(std::ffi::OsString, PathBuf)>, rel: &mut Vec<Vec<u8>>, out: &mut Snap) {
    for (name, p) in rd {
        let md = match fs::symlink_metadata(&p) {
            Ok(m) => m,
            Err(_) => continue,
        };
        rel.push(name.as_bytes().to_vec());
        let mode = md.permissions().mode() & 0o7777;
        let ft = md.file_type();
        if ft.is_dir() {
            out.insert(rel.clone(), ('d', mode, vec![]));
            snapshot_into(&p, rel, out);
        } else if ft.is_file() {
            out.insert(rel.clone(), ('f', mode, with_owner_access(&p, false, || fs::read(&p)).unwrap_or_else(|_| b"?unreadable".to_vec())));
        } else if ft.is_symlink() {
            let t = fs::read_link(&p).map(|t| t.as_os_str().as_bytes().to_vec()).unwrap_or_default();
            out.insert(rel.clone(), ('l', mode, t));
        } else {
            out.insert(rel.clone(), ('o', mode, vec![]));
        }
        rel.pop();
    }
}

fn snapshot(dir: &Path) -> Snap {
    let mut s = Snap::new();
    snapshot_into(dir, &mut vec![], &mut s);
    s
}

fn render_path(p: &[Vec<u8>]) -> String {
    if p.is_empty() {
        return ".".into();
    }
    p.iter().map(|c| hex(c)).collect::<Vec<_>>().join("/")
}

fn expand(name: &[u8], base: &Path) -> Option<Vec<u8>> {
    if !name.windows(TOKEN.len()).any(|w| w == TOKEN) {
        return Some(name.to_vec());
    }
    if name.first() != Some(&b'/') {
        return None; // the token may only follow a leading '/': see the module comment
    }
    let b = base.as_os_str().as_bytes();
    let mut out = vec![];
    let mut i = 0;
    while i < name.len() {
        if name[i..].starts_with(TOKEN) {
            out.extend_from_slice(b);
            i += TOKEN.len();
        } else {
            out.push(name[i]);
            i += 1;
        }
    }
    Some(out)
}


/// Deepest climb above the starting directory of a byte string read as a path (segments split at `seps`).
fn climb_with(name: &[u8], seps: &[u8]) -> usize {
    let mut d: i64 = 0;
    let mut min: i64 = 0;
    for seg in name.split(|b| seps.contains(b)) {
        match seg {
            b"" | b"." => {}
            b".." => {
                d -= 1;
                min = min.min(d);
            }
            _ => d += 1,
        }
    }
    (-min) as usize
}

fn climb(name: &[u8]) -> usize {
    let head = name.split(|&b| b == 0).next().unwrap_or(b"");
    [climb_with(name, b"/"), climb_with(name, b"/\\"), climb_with(head, b"/"), climb_with(head, b"/\\")]
        .into_iter()
        .max()
        .unwrap_or(0)
}

/// May this (unexpanded) name or content be handed to a possibly broken extractor?
fn contained(name: &[u8]) -> bool {
    let has_token = name.windows(TOKEN.len()).any(|w| w == TOKEN);
    if name.first() == Some(&b'/') || name.first() == Some(&b'\\') {
        // absolute: only through the token, and then judged relative to the working directory
        let rest = match name.strip_prefix(b"/@SBX@") {
            Some(r) => r,
            None => return false,
        };
        if !(rest.is_empty() || rest[0] == b'/') || rest.windows(TOKEN.len()).any(|w| w == TOKEN) {
            return false;
        }
        return climb(rest) <= PAD;
    }
    !has_token && climb(name) <= PAD
}

fn workdir(base: &Path) -> PathBuf {
    let mut w = base.to_path_buf();
    for _ in 0..PAD {
        w.push("p");
    }
    w
}

fn build_archive(ents: &[Ent], base: &Path) -> Option<Vec<u8>> {
    let mut es = vec![];
    for e in ents {
        let name = expand(&e.name, base)?;
        if name.len() > 65535 {
            return None;
        }
        let mut z = mkzip::Entry::stored(&name, &e.data);
        z.flags |= 0x0800;
        if let Some(l) = &e.lname {
            let l = expand(l, base)?;
            if l.len() > 65535 {
                return None;
            }
            z.local_name = Some(l);
        }
        match e.attrs {
            Attrs::None => {
                z.made_by = (3 << 8) | 20;
                z.ext_attrs = 0;
            }
            Attrs::Unix(m) => {
                z.made_by = (3 << 8) | 20;
                z.ext_attrs = m << 16;
            }
            Attrs::Dos(x) => {
                z.made_by = 20;
                z.ext_attrs = x;
            }
        }
        match e.kind {
            'c' => z.crc ^= 0x5a5a_5a5a,
            'u' => z.method = 1,
            _ => {}
        }
        es.push(z);
    }
    Some(mkzip::build(&mkzip::Layout::new(es)).bytes)
}

struct Outcome {
    class: String,
    before: Snap,
    after: Snap,
}

/// Can the harness run a call with permission checks in force (by dropping its effective uid)?
fn unpriv_available() -> bool {
    unsafe { geteuid() == 0 }
}

/// The working directory as the extractor sees it: inside the jail the sandbox base is "/".
fn workdir_in(base: &Path, jailed: bool) -> PathBuf {
    if jailed {
        workdir(Path::new("/"))
    } else {
        workdir(base)
    }
}

/// `zvharness fs-child <base> <archive file> <seek|stream> <umask oct> <drop 0|1> <jail 0|1>`:
/// ONE extraction, in its own process, jailed into the sandbox base with chroot(2) so that not even a
/// broken extractor handed a hostile name can reach anything else.  Prints the result class.
/// Without the jail (`jail=0`: the harness is not the superuser) the parent's name guard is the only
/// containment; the parent passes `jail=0` only after that guard accepted every name.
pub fn child_main(args: &[String]) -> i32 {
    if args.len() != 6 {
        println!("err harness:usage");
        return 2;
    }
    let base = PathBuf::from(&args[0]);
    let bytes = match fs::read(&args[1]) {
        Ok(b) => b,
        Err(_) => {
            println!("err harness:archive");
            return 2;
        }
    };
    let which = args[2].clone();
    let um = u32::from_str_radix(&args[3], 8).unwrap_or(0o022);
    let drop_to_nobody = args[4] == "1";
    let jailed = args[5] == "1";
    if jailed {
        if std::os::unix::fs::chroot(&base).is_err() || std::env::set_current_dir("/").is_err() {
            println!("err harness:nojail");
            return 3;
        }
    } else if unsafe { geteuid() } == 0 {
        // the superuser never extracts outside a jail
        println!("err harness:nojail");
        return 3;
    }
    let root = workdir_in(&base, jailed).join("root");
    unsafe { umask(um) };
    if drop_to_nobody && unsafe { seteuid(NOBODY) } != 0 {
        println!("err harness:seteuid");
        return 3;
    }
    let r = catch(move || -> Result<(), String> {
        match which.as_str() {
            "seek" => {
                let mut ar = zip::ZipArchive::new(Cursor::new(bytes)).map_err(|e| format!("open:{}", zerr_class(&e)))?;
                ar.extract(&root).map_err(|e| zerr_class(&e))
            }
            _ => zip::unstable::stream::ZipStreamReader::new(Cursor::new(bytes)).extract(&root).map_err(|e| zerr_class(&e)),
        }
    });
    println!(
        "{}",
        match r {
            Ok(Ok(())) => "ok".to_string(),
            Ok(Err(c)) => c,
            Err(_) => "panic".to_string(),
        }
    );
    0
}

fn run_extract(which: &str, privileged: bool, dmode: u32, root_mode: Option<u32>, ents: &[Ent]) -> Result<Outcome, String> {
    let euid = unsafe { geteuid() };
    if privileged && euid != 0 {
        return Err("env-mismatch:not-superuser".into());
    }
    // containment 1: the name guard
    for e in ents {
        if !contained(&e.name) || !contained(e.local()) || e.data.first() == Some(&b'/') || climb(&e.data) > PAD {
            return Err("bad-op".into());
        }
    }
    // containment 2: the extraction runs in a child process jailed into the sandbox (superuser only)
    let jailed = euid == 0;
    let parent = sbx_parent();
    fs::create_dir_all(&parent).map_err(|e| format!("env-mismatch:sbx:{e}"))?;
    let _ = fs::set_permissions(&parent, fs::Permissions::from_mode(0o777));
    let n = COUNTER.fetch_add(1, Ordering::SeqCst);
    let base = parent.join(format!("{}-{}", std::process::id(), n));
    let archive = parent.join(format!("{}-{}.zip", std::process::id(), n));
    let _ = fs::remove_dir_all(&base);
    let drop_to_nobody = !privileged && euid == 0;
    let wd = workdir(&base);
    let bytes = build_archive(ents, &workdir_in(&base, jailed)).ok_or_else(|| "bad-op".to_string())?;
    fs::write(&archive, &bytes).map_err(|e| format!("env-mismatch:archive:{e}"))?;
    let old_umask = unsafe { umask(0o022) };
    if drop_to_nobody && unsafe { seteuid(NOBODY) } != 0 {
        unsafe { umask(old_umask) };
        let _ = fs::remove_file(&archive);
        return Err("env-mismatch:seteuid".into());
    }
    // the sandbox: base/p/…/p/ = wd (all 0o755), wd/canary/ (0o755), wd/canary/keep (0o644), wd/root/ (root_mode),
    // owned by the uid the extraction will run as
    let setup = (|| -> std::io::Result<()> {
        let mut d = base.clone();
        fs::create_dir(&d)?;
        fs::set_permissions(&d, fs::Permissions::from_mode(0o755))?;
        for _ in 0..PAD {
            d.push("p");
            fs::create_dir(&d)?;
            fs::set_permissions(&d, fs::Permissions::from_mode(0o755))?;
        }
        fs::create_dir(wd.join("canary"))?;
        fs::set_permissions(wd.join("canary"), fs::Permissions::from_mode(0o755))?;
        fs::write(wd.join("canary/keep"), b"canary")?;
        fs::set_permissions(wd.join("canary/keep"), fs::Permissions::from_mode(0o644))?;
        if let Some(m) = root_mode {
            fs::create_dir(wd.join("root"))?;
            fs::set_permissions(wd.join("root"), fs::Permissions::from_mode(m))?;
        }
        Ok(())
    })();
    if drop_to_nobody {
        unsafe { seteuid(0) };
    }
    unsafe { umask(old_umask) };
    if let Err(e) = setup {
        make_removable(&base);
        let _ = fs::remove_dir_all(&base);
        let _ = fs::remove_file(&archive);
        return Err(format!("env-mismatch:setup:{e}"));
    }
    let before = snapshot(&base);
    let class = match std::env::current_exe() {
        Ok(exe) => {
            let out = std::process::Command::new(exe)
                .arg("fs-child")
                .arg(&base)
                .arg(&archive)
                .arg(which)
                .arg(format!("{:o}", 0o777 & !dmode))
                .arg(if drop_to_nobody { "1" } else { "0" })
                .arg(if jailed { "1" } else { "0" })
                .env_remove("RUST_BACKTRACE")
                .stderr(std::process::Stdio::null())
                .output();
            match out {
                Ok(o) => {
                    let s = String::from_utf8_lossy(&o.stdout).trim().to_string();
                    if s.is_empty() {
                        "panic".to_string() // the child died without reporting
                    } else {
                        s
                    }
                }
                Err(e) => format!("env-mismatch:spawn:{e}"),
            }
        }
        Err(e) => format!("env-mismatch:exe:{e}"),
    };
    let after = snapshot(&base);
    // make everything removable, then remove
    make_removable(&base);
    let _ = fs::remove_dir_all(&base);
    let _ = fs::remove_file(&archive);
    if class.starts_with("env-mismatch") || class.starts_with("err harness:") {
        return Err(class);
    }
    Ok(Outcome { class, before, after })
}

fn make_removable(dir: &Path) {
    let _ = fs::set_permissions(dir, fs::Permissions::from_mode(0o755));
    if let Ok(rd) = fs::read_dir(dir) {
        for e in rd.flatten() {
            if let Ok(md) = fs::symlink_metadata(e.path()) {
                if md.file_type().is_dir() {
                    make_removable(&e.path());
                }
            }
        }
    }
}

/// Is the snapshot key (relative to the sandbox base) the target directory or below it?
fn in_root(k: &[Vec<u8>]) -> bool {
    k.len() > PAD && k[..PAD].iter().all(|c| c == b"p") && k[PAD] == b"root"
}

/// Paths outside the target are shown relative to the working directory; `^` marks one above it.
fn render_outside(k: &[Vec<u8>]) -> String {
    if k.len() >= PAD && k[..PAD].iter().all(|c| c == b"p") {
        render_path(&k[PAD..])
    } else {
        format!("^{}", render_path(k))
    }
}

fn render_outcome(o: &Outcome) -> String {
    let mut items: Vec<String> = vec![];
    let mut root_s = "absent".to_string();
    for (k, (kind, mode, data)) in &o.after {
        if !in_root(k) {
            continue;
        }
        if k.len() == PAD + 1 {
            root_s = if *kind == 'd' { format!("{:o}", mode) } else { "file".into() };
            continue;
        }
        let p = render_path(&k[PAD + 1..]);
        items.push(match kind {
            'd' => format!("{p}:d:{:o}", mode),
            'f' => format!("{p}:f:{:o}:{}", mode, hex(data)),
            c => format!("{p}:{c}:{:o}:{}", mode, hex(data)),
        });
    }
    items.sort();
    let mut outside: BTreeSet<String> = BTreeSet::new();
    for (k, v) in &o.before {
        if !in_root(k) && o.after.get(k) != Some(v) {
            outside.insert(render_outside(k));
        }
    }
    for k in o.after.keys() {
        if !in_root(k) && !o.before.contains_key(k) {
            outside.insert(render_outside(k));
        }
    }
    // (the target directory existing beforehand and vanishing would show up as root=absent)
    format!(
        "{} root={} tree={} outside={}",
        o.class,
        root_s,
        if items.is_empty() { "-".to_string() } else { items.join(",") },
        if outside.is_empty() { "none".to_string() } else { outside.into_iter().collect::<Vec<_>>().join(",") }
    )
}

// ------------------------------------------------------------------------------------------------
// independent reading of the property for the oracle

/// The name is relative, NUL-free and never climbs above its start.
fn name_safe(name: &[u8]) -> bool {
    if name.contains(&0) || name.first() == Some(&b'/') {
        return false;
    }
    let mut d: i64 = 0;
    for seg in name.split(|&b| b == b'/') {
        match seg {
            b"" | b"." => {}
            b".." => {
                d -= 1;
                if d < 0 {
                    return false;
                }
            }
            _ => d += 1,
        }
    }
    true
}

/// Plain names: non-empty ordinary components only (no ".", "..", empty segment), optional final '/'.
fn plain_components(name: &[u8]) -> Option<(Vec<Vec<u8>>, bool)> {
    if name.is_empty() || name.contains(&0) || name[0] == b'/' {
        return None;
    }
    let is_dir = *name.last().unwrap() == b'/';
    let body = if is_dir { &name[..name.len() - 1] } else { name };
    let mut comps = vec![];
    for seg in body.split(|&b| b == b'/') {
        if seg.is_empty() || seg == b"." || seg == b".." {
            return None;
        }
        comps.push(seg.to_vec());
    }
    Some((comps, is_dir))
}

#[derive(Clone, Debug, PartialEq)]
enum Want {
    Dir(Option<u32>),
    File(Vec<u8>, Option<u32>),
}

/// For an archive of plain, mutually consistent names: the expected tree (None = not applicable).
/// A mode of `None` means "whatever the default is".
fn expected_tree(ents: &[Ent]) -> Option<BTreeMap<Vec<Vec<u8>>, Want>> {
    let mut t: BTreeMap<Vec<Vec<u8>>, Want> = BTreeMap::new();
    for e in ents {
        if e.kind != 'f' || e.lname.is_some() {
            return None;
        }
        let (comps, is_dir) = plain_components(&e.name)?;
        let ndirs = if is_dir { comps.len() } else { comps.len() - 1 };
        for k in 1..=ndirs {
            match t.get(&comps[..k]) {
                Some(Want::File(..)) => return None,
                Some(Want::Dir(_)) => {}
                None => {
                    t.insert(comps[..k].to_vec(), Want::Dir(None));
                }
            }
        }
        let m = e.mode().map(|m| m & 0o7777);
        if is_dir {
            if let Some(m) = m {
                t.insert(comps.clone(), Want::Dir(Some(m)));
            }
        } else {
            let old = match t.get(&comps) {
                Some(Want::Dir(_)) => return None,
                Some(Want::File(_, om)) => *om,
                None => None,
            };
            t.insert(comps.clone(), Want::File(e.data.clone(), m.or(old)));
        }
    }
    Some(t)
}

// ------------------------------------------------------------------------------------------------
// generator

const COMPS: [&str; 14] = ["a", "b", "c", "d", "e", "a", "b", "x y", "\u{e9}t\u{e9}", "a\\b", "..\\x", "f.txt", "LongComponentName_0123456789", "\u{1f600}"];
const ODD: [&str; 8] = ["..", ".", "", "..", ".", "...", " ", ".a"];
const MODES: [u32; 22] = [
    0o100644, 0o100600, 0o100755, 0o100000, 0o100444, 0o100200, 0o104755, 0o102755, 0o101644, 0o107777, 0o644, 0o755, 0o40755,
    0o40700, 0o40000, 0o40500, 0o42755, 0o41777, 0o120777, 0o160000, 0o177777, 0o7,
];

fn rand_mode(r: &mut Rng) -> u32 {
    match r.below(4) {
        0 => r.below(0o10000) as u32 | (*r.pick(&[0o100000u32, 0o40000, 0o120000, 0])),
        _ => *r.pick(&MODES),
    }
}

fn rand_attrs(r: &mut Rng, dirish: bool) -> Attrs {
    match r.below(10) {
        0..=2 => Attrs::None,
        3 => Attrs::Dos(*r.pick(&[0x10u32, 0x11, 0x20, 0x21, 0x01, 0x00, 0x30])),
        4 => Attrs::Unix(0),
        5..=6 => Attrs::Unix(rand_mode(r)),
        _ => {
            // permissive modes: the usual case
            if dirish {
                Attrs::Unix(*r.pick(&[0o40755u32, 0o40700, 0o40775, 0o40777, 0o42755, 0o41777]))
            } else {
                Attrs::Unix(*r.pick(&[0o100644u32, 0o100600, 0o100755, 0o100664, 0o100640]))
            }
        }
    }
}

fn rand_data(r: &mut Rng) -> Vec<u8> {
    match r.below(6) {
        0 => vec![],
        1 => b"hello".to_vec(),
        2 => r.bytes(1),
        3 => {
            let n = r.range(1, 40) as usize;
            r.bytes(n)
        }
        4 => b"../../canary/keep".to_vec(),
        _ => {
            let n = r.range(1, 8) as usize;
            r.bytes(n)
        }
    }
    .into_iter()
    .enumerate()
    // contents never look like an absolute path (they would be link targets if the crate made links)
    .map(|(i, b)| if i == 0 && b == b'/' { b'_' } else { b })
    .collect()
}

fn plain_path(r: &mut Rng, max_depth: u64) -> String {
    let n = r.range(1, max_depth) as usize;
    let mut v = vec![];
    for _ in 0..n {
        let lim = if r.chance(3, 4) { 5 } else { COMPS.len() };
        v.push(*r.pick(&COMPS[..lim]));
    }
    v.join("/")
}

/// Names with odd components (".", "..", empty, …) mixed in.
fn odd_path(r: &mut Rng) -> String {
    let n = r.range(1, 6) as usize;
    let mut v: Vec<&str> = vec![];
    for _ in 0..n {
        if r.chance(2, 5) {
            v.push(*r.pick(&ODD));
        } else {
            v.push(*r.pick(&COMPS[..5]));
        }
    }
    let mut s = v.join("/");
    if r.chance(1, 4) {
        s.push('/');
    }
    if s.starts_with('/') || s.starts_with('\\') || r.chance(1, 10) {
        // absolute (an empty first component is a leading '/'): always through the sandbox token
        s = format!("/@SBX@/{s}");
    }
    s
}

/// Names aimed at the canary or at leaving the target directory.
fn hostile_name(r: &mut Rng) -> Vec<u8> {
    match r.below(12) {
        0 => b"../canary/evil".to_vec(),
        1 => b"../canary/keep".to_vec(),
        2 => b"/@SBX@/canary/evil".to_vec(),
        3 => b"/@SBX@/canary/keep".to_vec(),
        4 => b"a/../../canary/evil".to_vec(),
        5 => b"a/b/../../../canary/keep".to_vec(),
        6 => b"../evil".to_vec(),
        7 => b"..".to_vec(),
        8 => b"../".to_vec(),
        9 => b"x\0y".to_vec(),
        10 => b"../canary/evil\0.txt".to_vec(),
        _ => {
            let k = r.range(1, 6) as usize;
            let mut s = String::new();
            let lead = r.below(3);
            for _ in 0..lead {
                s.push_str(*r.pick(&COMPS[..5]));
                s.push('/');
            }
            // climbs k+1 levels above the target: at most 7 < PAD
            for _ in 0..(lead as usize + k + 1) {
                s.push_str("../");
            }
            for _ in 0..k {
                s.push_str("p/");
            }
            s.push_str("canary/evil");
            s.into_bytes()
        }
    }
}

fn ent(name: &[u8], attrs: Attrs, data: Vec<u8>) -> Ent {
    Ent { name: name.to_vec(), lname: None, kind: 'f', attrs, data }
}

/// A consistent tree: unique plain names, parents possibly listed explicitly.
fn gen_tree(r: &mut Rng, permissive: bool) -> Vec<Ent> {
    let n = r.range(1, 9) as usize;
    let mut files: BTreeSet<Vec<String>> = BTreeSet::new();
    let mut dirs: BTreeSet<Vec<String>> = BTreeSet::new();
    let mut out = vec![];
    for _ in 0..n {
        let p: Vec<String> = plain_path(r, 4).split('/').map(|s| s.to_string()).collect();
        // reject conflicts
        let mut bad = files.contains(&p) || dirs.contains(&p);
        for k in 1..p.len() {
            if files.contains(&p[..k].to_vec()) {
                bad = true;
            }
        }
        let as_dir = r.chance(1, 4);
        if bad && !(as_dir && dirs.contains(&p) && !files.contains(&p)) {
            continue;
        }
        for k in 1..p.len() {
            let d = p[..k].to_vec();
            if dirs.insert(d.clone()) && r.chance(1, 3) {
                let attrs = if permissive { Attrs::Unix(*r.pick(&[0o40755u32, 0o40700, 0o40775])) } else { rand_attrs(r, true) };
                out.push(ent(format!("{}/", d.join("/")).as_bytes(), attrs, vec![]));
            }
        }
        if as_dir {
            dirs.insert(p.clone());
            let attrs = if permissive { Attrs::Unix(*r.pick(&[0o40755u32, 0o40711, 0o40777, 0o40700])) } else { rand_attrs(r, true) };
            out.push(ent(format!("{}/", p.join("/")).as_bytes(), attrs, vec![]));
        } else {
            files.insert(p.clone());
            let attrs = if permissive { Attrs::Unix(*r.pick(&[0o100644u32, 0o100600, 0o100755, 0o100400, 0o100000])) } else { rand_attrs(r, false) };
            out.push(ent(p.join("/").as_bytes(), attrs, rand_data(r)));
        }
    }
    out
}

const LOCK_DIR_MODES: [u32; 10] = [0o40000, 0o40555, 0o40500, 0o40400, 0o40111, 0o40100, 0o40200, 0o40300, 0o40644, 0o40755];
const LOCK_FILE_MODES: [u32; 8] = [0o100000, 0o100444, 0o100400, 0o100111, 0o100555, 0o100200, 0o100644, 0o104555];

/// A consistent tree of plain names whose recorded modes would lock out an extractor that applies them too early:
/// directories without owner write / search listed BEFORE and AFTER their contents, nested restrictive directories,
/// read-only files and directories repeated later (the last one decides).
fn gen_lockout(r: &mut Rng) -> Vec<Ent> {
    let mut out = gen_tree(r, true);
    for e in out.iter_mut() {
        if r.chance(2, 3) {
            let dirish = e.name.last() == Some(&b'/');
            e.attrs = Attrs::Unix(if dirish { *r.pick(&LOCK_DIR_MODES) } else { *r.pick(&LOCK_FILE_MODES) });
        }
    }
    // parents that were only implied: list some of them, in front or behind
    let mut parents: BTreeSet<Vec<u8>> = BTreeSet::new();
    for e in &out {
        let body: &[u8] = if e.name.last() == Some(&b'/') { &e.name[..e.name.len() - 1] } else { &e.name };
        let mut k = 0;
        while let Some(i) = body[k..].iter().position(|&b| b == b'/') {
            parents.insert(body[..k + i + 1].to_vec());
            k += i + 1;
        }
    }
    for p in parents {
        if r.chance(1, 2) {
            let e = ent(&p, Attrs::Unix(*r.pick(&LOCK_DIR_MODES)), vec![]);
            if r.chance(1, 2) {
                out.insert(0, e);
            } else {
                out.push(e);
            }
        }
    }
    // repeat some entries later with other bytes / another mode
    let n = out.len();
    for i in 0..n {
        if r.chance(1, 4) {
            let mut e = out[i].clone();
            let dirish = e.name.last() == Some(&b'/');
            if !dirish {
                e.data = rand_data(r);
            }
            e.attrs = match r.below(3) {
                0 => Attrs::None,
                _ => Attrs::Unix(if dirish { *r.pick(&LOCK_DIR_MODES) } else { *r.pick(&LOCK_FILE_MODES) }),
            };
            let pos = r.range(i as u64 + 1, out.len() as u64) as usize;
            out.insert(pos.min(out.len()), e);
        }
    }
    out
}

fn gen_mixed(r: &mut Rng) -> Vec<Ent> {
    let n = r.range(0, 7) as usize;
    let mut out = vec![];
    for _ in 0..n {
        let name: Vec<u8> = match r.below(10) {
            0..=3 => {
                let mut s = plain_path(r, 3);
                if r.chance(1, 4) {
                    s.push('/');
                }
                s.into_bytes()
            }
            4..=7 => odd_path(r).into_bytes(),
            8 => hostile_name(r),
            _ => (*r.pick(&["", ".", "./", "a/.", "a/./", "a/..", "a/../", "a/b/../", "a/b/.././", "./a", "a//b", "a/b//", "/@SBX@/", "/@SBX@//canary/", "a/../b", "a/b/../c", "a/b/../../c", "./.", "a/./b", "/@SBX@", "/@SBX@/root/x", "/@SBX@/root/../canary/keep"])).as_bytes().to_vec(),
        };
        let dirish = name.last() == Some(&b'/');
        let mut e = ent(&name, rand_attrs(r, dirish), if dirish && r.chance(3, 4) { vec![] } else { rand_data(r) });
        match r.below(24) {
            0 => e.kind = 'c',
            1 => e.kind = 'u',
            2 => e.lname = Some(plain_path(r, 2).into_bytes()),
            3 => e.lname = Some(hostile_name(r)),
            _ => {}
        }
        out.push(e);
    }
    out
}

/// A consistent permissive tree with restrictive-mode files, followed by ONE entry that makes the extraction fail
/// (checksum mismatch, unsupported method, unsafe name, a file where a directory is / a directory where a file is),
/// possibly followed by more entries: the tree a FAILED extraction leaves (modes of the entries written before the
/// failure included) is compared with the model.
fn gen_failmode(r: &mut Rng) -> Vec<Ent> {
    let mut out = gen_tree(r, true);
    let secret = format!("s{}", r.below(3));
    out.insert(0, ent(secret.as_bytes(), Attrs::Unix(*r.pick(&[0o100600u32, 0o100400, 0o100000, 0o100640])), rand_data(r)));
    if r.chance(1, 2) {
        out.push(ent(b"sd/", Attrs::Unix(*r.pick(&[0o40700u32, 0o40500, 0o40000])), vec![]));
        out.push(ent(b"sd/inner", Attrs::Unix(*r.pick(&[0o100600u32, 0o100400])), rand_data(r)));
    }
    let bad = match r.below(6) {
        0 | 1 => { let mut e = ent(b"zbad", rand_attrs(r, false), rand_data(r)); e.kind = 'c'; e }
        2 => { let mut e = ent(b"zbad", rand_attrs(r, false), rand_data(r)); e.kind = 'u'; e }
        3 => ent(&hostile_name(r), rand_attrs(r, false), rand_data(r)),
        // below a file / a directory over a file
        4 => ent(format!("{secret}/below").as_bytes(), Attrs::Unix(0o100644), rand_data(r)),
        _ => ent(format!("{secret}/").as_bytes(), Attrs::Unix(0o40755), vec![]),
    };
    // the streaming extractor fails AFTER all files are written when only the central name is unsafe
    let bad = if r.chance(1, 4) {
        Ent { name: hostile_name(r), lname: Some(b"zfine".to_vec()), kind: 'f', attrs: Attrs::Unix(0o100644), data: rand_data(r) }
    } else {
        bad
    };
    out.push(bad);
    if r.chance(1, 2) {
        out.push(ent(b"znever", Attrs::Unix(0o100600), rand_data(r)));
    }
    out
}

fn fixed_cases() -> Vec<Vec<Ent>> {
    let f = |n: &str, a: Attrs, d: &[u8]| ent(n.as_bytes(), a, d.to_vec());
    let u = |m: u32| Attrs::Unix(m);
    vec![
        vec![],
        vec![f("a/", u(0o40750), b""), f("a/b.txt", u(0o100600), b"hi"), f("c", Attrs::None, b"x")],
        vec![f("../canary/evil", u(0o100644), b"evil")],
        vec![f("/@SBX@/canary/evil", u(0o100644), b"evil")],
        vec![f("/@SBX@/canary/keep", u(0o100644), b"overwritten")],
        vec![f("ok.txt", u(0o100644), b"1"), f("a/../../canary/keep", u(0o100644), b"overwritten"), f("never", Attrs::None, b"2")],
        vec![f("x\0y", Attrs::None, b"nul")],
        vec![f("a\\..\\..\\b", u(0o100644), b"backslash")],
        vec![f("a/../b", u(0o100644), b"dotdot inside")],
        vec![f("a/b/../c/", u(0o40755), b"")],
        vec![f("a/./", Attrs::None, b"")],
        vec![f("a/", Attrs::None, b""), f("a/./", u(0o40700), b"")],
        vec![f("a/.", Attrs::None, b"file named dot")],
        vec![f("a/..", Attrs::None, b"file named dotdot")],
        vec![f("a/../", u(0o40700), b"")],
        vec![f("./", u(0o40711), b"")],
        vec![f(".", Attrs::None, b"")],
        vec![f("", Attrs::None, b"empty name")],
        vec![f("dup", u(0o100600), b"first"), f("dup", Attrs::None, b"second")],
        vec![f("dup", u(0o100400), b"first"), f("dup", u(0o100644), b"second")],
        vec![f("dup", u(0o100000), b"first"), f("dup", u(0o100644), b"second")],
        vec![f("x", Attrs::None, b"file"), f("x/", Attrs::None, b"")],
        vec![f("x/", Attrs::None, b""), f("x", Attrs::None, b"file")],
        vec![f("x", Attrs::None, b"file"), f("x/y", Attrs::None, b"below a file")],
        vec![f("x/y", Attrs::None, b"y"), f("x", Attrs::None, b"file over dir")],
        vec![f("link", u(0o120777), b"../canary"), f("link/evil", u(0o100644), b"through the link")],
        vec![f("link", u(0o120777), b"../canary/keep"), f("link", u(0o100644), b"written through the link?")],
        vec![f("d/", u(0o40000), b""), f("d/inner", u(0o100644), b"in a 000 dir")],
        vec![f("d/", u(0o40555), b""), f("d/inner", u(0o100644), b"in a r-x dir")],
        vec![f("d/", u(0o40555), b""), f("d/f", Attrs::None, b"x")],
        vec![f("f", u(0o100444), b"\x01"), f("f", Attrs::None, b"\x02")],
        vec![f("d/", u(0o40000), b""), f("d/f", u(0o100644), b"x")],
        vec![f("d/f", u(0o100400), b"x"), f("d/", u(0o40000), b"")],
        vec![f("a/", u(0o40000), b""), f("a/b/", u(0o40700), b""), f("a/b/c", u(0o100000), b"z"), f("a/", u(0o40111), b"")],
        vec![f("a/b/", u(0o40555), b""), f("a/", u(0o40555), b""), f("a/b/c/d", u(0o100444), b"deep"), f("a/b/c/", u(0o40500), b"")],
        vec![f("./", u(0o40000), b""), f("./", u(0o40755), b"")],
        vec![f("./", u(0o40000), b""), f("a/../", u(0o40755), b"")],
        vec![f("a/../b/", u(0o40000), b""), f("b/../a/", u(0o40000), b"")],
        vec![f("s/", u(0o42755), b""), f("s/sub/", Attrs::None, b""), f("s/sub/f", Attrs::None, b"sgid inherit")],
        vec![f("suid", u(0o104755), b"1"), f("suid", Attrs::None, b"22")],
        vec![f("dosdir/", Attrs::Dos(0x10), b""), f("dosfile", Attrs::Dos(0x20), b"d"), f("dosro", Attrs::Dos(0x21), b"r"), f("dosrodir/", Attrs::Dos(0x11), b"")],
        vec![f("bad", u(0o100644), b"crc"), f("after", Attrs::None, b"")].into_iter().enumerate().map(|(i, mut e)| { if i == 0 { e.kind = 'c'; } e }).collect(),
        vec![f("first", u(0o100644), b"1"), f("unsup", Attrs::None, b"zz"), f("after", Attrs::None, b"")].into_iter().enumerate().map(|(i, mut e)| { if i == 1 { e.kind = 'u'; } e }).collect(),
        // a failed run still applies the modes recorded for the entries written before the failure
        vec![f("secret", u(0o100600), b"s"), f("bad", u(0o100644), b"crc")].into_iter().enumerate().map(|(i, mut e)| { if i == 1 { e.kind = 'c'; } e }).collect(),
        vec![f("d/", u(0o40700), b""), f("d/secret", u(0o100600), b"s"), f("../canary/evil", u(0o100644), b"x"), f("never", u(0o100600), b"n")],
        vec![f("secret", u(0o100400), b"s"), f("secret/below", u(0o100644), b"file/dir conflict")],
        // streaming: all files written, the second central record is rejected
        vec![f("secret", u(0o100600), b"s"), Ent { name: b"../canary/evil".to_vec(), lname: Some(b"fine".to_vec()), kind: 'f', attrs: u(0o100644), data: b"central hostile".to_vec() }, f("later", u(0o100600), b"l")],
        vec![Ent { name: b"central".to_vec(), lname: Some(b"local".to_vec()), kind: 'f', attrs: u(0o100600), data: b"names differ".to_vec() }],
        vec![Ent { name: b"central".to_vec(), lname: Some(b"../canary/evil".to_vec()), kind: 'f', attrs: u(0o100600), data: b"local hostile".to_vec() }],
        vec![Ent { name: b"../canary/evil".to_vec(), lname: Some(b"fine".to_vec()), kind: 'f', attrs: u(0o100600), data: b"central hostile".to_vec() }],
        vec![f("deep/".repeat(40).as_str(), u(0o40755), b"")],
        vec![f(&format!("{}leaf", "n/".repeat(60)), u(0o100644), b"deep")],
    ]
}

fn op_line(which: &str, privileged: bool, umask_v: u32, root: Option<u32>, ents: &[Ent]) -> String {
    let es = if ents.is_empty() { "-".to_string() } else { ents.iter().map(|e| e.render()).collect::<Vec<_>>().join(",") };
    format!(
        "fs.extract which={} priv={} dmode={:o} fmode={:o} root={} entries={}",
        which,
        privileged as u8,
        0o777 & !umask_v,
        0o666 & !umask_v,
        match root {
            None => "absent".to_string(),
            Some(m) => format!("{:o}", m),
        },
        es
    )
}

impl Stream for FsStream {
    fn name(&self) -> &'static str {
        "fs"
    }

    fn gen(&self, seed: u64, tier: &str) -> GenOut {
        let mut g = GenOut::default();
        g.rule = "fs.extract: fixed attack/corner archives x {seek, stream}; generated archives (quick 600, thorough 20000): \
                  consistent random trees (plain unique names, parents listed or implied, permissive or arbitrary modes), mixed \
                  archives (plain names over a 5-letter alphabet so that duplicates and file/dir conflicts happen, names with \
                  '.', '..', empty segments, trailing '/.', hostile names: '..' chains and absolute paths into the canary, NUL, \
                  backslashes), symlink-typed entries, all 12 permission bits and type bits, DOS attributes, CRC errors, \
                  unsupported methods, local name != central name, nesting up to 60 levels; tree.failmode: a consistent tree with \
                  restrictive-mode files and directories followed by one entry that fails (bad CRC, unsupported method, unsafe \
                  name, file/dir conflict, unsafe central name over a safe local name), half as euid 65534 and half as the superuser, 2/3 seekable; tree.lockout: consistent plain \
                  trees whose recorded modes lack owner write / search (directories listed before and after their contents, \
                  nested, read-only files and directories repeated later), 7/8 of them as euid 65534; umask in {022,002,077,027,000,777}; \
                  target directory present (modes 755/700/2755/1777/555) or absent; priv=0 (euid 65534) for a quarter of the cases \
                  when the harness is the superuser, for all cases otherwise"
            .into();
        let root_is_super = unsafe { geteuid() } == 0;
        let can_unpriv = unpriv_available();
        let mut r = super::rng_for(seed, "fs", 0);
        let default_priv = root_is_super;
        for (i, c) in fixed_cases().into_iter().enumerate() {
            for which in ["seek", "stream"] {
                g.push("fixed", op_line(which, default_priv, 0o022, Some(0o755), &c));
                if i < 6 {
                    g.push("fixed.absent-root", op_line(which, default_priv, 0o022, None, &c));
                }
                if root_is_super && can_unpriv {
                    g.push("fixed.unpriv", op_line(which, false, 0o022, Some(0o755), &c));
                }
            }
        }
        let n = if tier == "thorough" { 20_000 } else { 600 };
        for i in 0..n {
            let which = if r.chance(1, 2) { "seek" } else { "stream" };
            let privileged = if !root_is_super { false } else if can_unpriv { !r.chance(1, 4) } else { true };
            let um = if r.chance(2, 3) { 0o022 } else { *r.pick(&[0o002u32, 0o077, 0o027, 0o000, 0o777, 0o022]) };
            let root = match r.below(12) {
                0 => None,
                1 => Some(0o700),
                2 => Some(0o2755),
                3 => Some(0o1777),
                4 => Some(0o555),
                _ => Some(0o755),
            };
            let (kind, ents) = match i % 6 {
                0 if i % 12 == 6 => ("tree.failmode", gen_failmode(&mut r)),
                0 => ("tree.permissive", gen_tree(&mut r, true)),
                5 => ("tree.lockout", gen_lockout(&mut r)),
                1 => ("tree.anymode", gen_tree(&mut r, false)),
                2 => {
                    // a consistent tree with one hostile entry somewhere
                    let mut t = gen_tree(&mut r, true);
                    let pos = r.below(t.len() as u64 + 1) as usize;
                    t.insert(pos, ent(&hostile_name(&mut r), rand_attrs(&mut r, false), rand_data(&mut r)));
                    ("tree.hostile", t)
                }
                _ => ("mixed", gen_mixed(&mut r)),
            };
            // restrictive recorded modes only bite an unprivileged extractor
            let privileged = if kind == "tree.lockout" && can_unpriv && r.chance(7, 8) { false } else { privileged };
            // a failed run: half as euid 65534, half as the superuser
            let privileged = if kind == "tree.failmode" && root_is_super && can_unpriv { i % 24 == 6 } else { privileged };
            let which = if kind == "tree.failmode" && r.chance(2, 3) { "seek" } else { which };
            g.push(kind, op_line(which, privileged, um, root, &ents));
        }
        g
    }

    fn run(&self, line: &str) -> String {
        let (op, a) = parse_line(line);
        if op != "fs.extract" {
            return "bad-op".into();
        }
        let which = match a.get("which").map(|s| s.as_str()) {
            Some("seek") => "seek",
            Some("stream") => "stream",
            _ => return "bad-op".into(),
        };
        let privileged = match a.get("priv").map(|s| s.as_str()) {
            Some("1") => true,
            Some("0") => false,
            _ => return "bad-op".into(),
        };
        let oct = |k: &str| a.get(k).and_then(|s| u32::from_str_radix(s, 8).ok());
        let (dmode, fmode) = match (oct("dmode"), oct("fmode")) {
            (Some(d), Some(f)) => (d, f),
            _ => return "bad-op".into(),
        };
        // the pair must be what one umask produces
        if dmode > 0o777 || fmode != dmode & 0o666 {
            return "bad-op".into();
        }
        let root_mode = match a.get("root").map(|s| s.as_str()) {
            Some("absent") => None,
            Some(s) => match u32::from_str_radix(s, 8) {
                Ok(m) if m <= 0o7777 => Some(m),
                _ => return "bad-op".into(),
            },
            None => return "bad-op".into(),
        };
        let ents = match a.get("entries").and_then(|s| parse_entries(s)) {
            Some(e) => e,
            None => return "bad-op".into(),
        };
        for e in &ents {
            if std::str::from_utf8(&e.name).is_err() || std::str::from_utf8(e.local()).is_err() {
                return "bad-op".into();
            }
        }
        match run_extract(which, privileged, dmode, root_mode, &ents) {
            Ok(o) => render_outcome(&o),
            Err(e) => e,
        }
    }

    fn oracle(&self, line: &str, resp: &str) -> Vec<OracleFailure> {
        let mut fails = vec![];
        let mut fail = |w: String| fails.push(OracleFailure { what: w });
        let (op, a) = parse_line(line);
        if op != "fs.extract" || resp == "bad-op" {
            return fails;
        }
        if resp.starts_with("env-mismatch") || resp.starts_with("err harness:") {
            fail(format!("the harness cannot provide the environment this case asks for: {resp}"));
            return fails;
        }
        let ents = match a.get("entries").and_then(|s| parse_entries(s)) {
            Some(e) => e,
            None => return fails,
        };
        let which = a.get("which").map(|s| s.as_str()).unwrap_or("");
        let field = |k: &str| resp.split(' ').find_map(|t| t.strip_prefix(k)).unwrap_or("");
        let class = resp.split(" root=").next().unwrap_or("");
        // 1. nothing outside the target directory was created, modified or removed
        if field("outside=") != "none" {
            fail(format!("extraction changed filesystem objects outside the target directory: {}", field("outside=")));
        }
        if class == "panic" {
            fail("extract panicked".into());
        }
        // 2. an unsafe name anywhere in the archive (as the extractor reads it) ⇒ error
        let unsafe_name = ents.iter().any(|e| !name_safe(&e.name) || (which == "stream" && !name_safe(e.local())));
        if unsafe_name && !class.starts_with("err") {
            fail("an entry name is unsafe (NUL, absolute or climbing) but extract reported success".into());
        }
        // 3. nothing but directories and regular files appears
        for it in field("tree=").split(',') {
            let f: Vec<&str> = it.split(':').collect();
            if f.len() >= 2 && f[1] != "d" && f[1] != "f" {
                fail(format!("extraction created an object that is neither a directory nor a regular file: {it}"));
            }
        }
        // 4. plain, consistent archives extract completely and exactly
        let privileged = a.get("priv").map(|s| s == "1").unwrap_or(true);
        let dmode = a.get("dmode").and_then(|s| u32::from_str_radix(s, 8).ok()).unwrap_or(0o755);
        let fmode = a.get("fmode").and_then(|s| u32::from_str_radix(s, 8).ok()).unwrap_or(0o644);
        let root_mode = a.get("root").and_then(|s| u32::from_str_radix(s, 8).ok());
        if let Some(want) = expected_tree(&ents) {
            // The property promises success for ANY recorded permission bits: what the archive records is applied
            // after everything has been written (children before their directories), so only the modes the
            // extractor does not choose can be in its way: the umask's defaults and the target directory's own mode.
            let perms_never_block = privileged
                || (dmode & 0o300 == 0o300 && fmode & 0o200 == 0o200 && root_mode.map(|m| m & 0o300 == 0o300).unwrap_or(true));
            let stream_ok = which != "stream" || !ents.is_empty();
            if perms_never_block && stream_ok {
                if class != "ok" {
                    fail(format!("names are safe, plain and mutually consistent but extract failed: {class}"));
                } else {
                    let sgid_somewhere = root_mode.map(|m| m & 0o2000 != 0).unwrap_or(false)
                        || ents.iter().any(|e| e.mode().map(|m| m & 0o2000 != 0).unwrap_or(false));
                    let mut got: BTreeMap<String, (String, String, String)> = BTreeMap::new();
                    for it in field("tree=").split(',') {
                        if it == "-" || it.is_empty() {
                            continue;
                        }
                        let f: Vec<&str> = it.split(':').collect();
                        got.insert(f[0].to_string(), (f[1].to_string(), f[2].to_string(), f.get(3).unwrap_or(&"").to_string()));
                    }
                    if got.len() != want.len() {
                        fail(format!("extracted tree has {} objects, the archive describes {}", got.len(), want.len()));
                    }
                    for (p, w) in &want {
                        let key = render_path(p);
                        match (got.get(&key), w) {
                            (Some((k, m, _)), Want::Dir(wm)) => {
                                if k != "d" {
                                    fail(format!("{key} should be a directory"));
                                }
                                let exp = wm.unwrap_or(dmode);
                                if !sgid_somewhere && *m != format!("{:o}", exp) {
                                    fail(format!("directory {key} has mode {m}, expected {:o}", exp));
                                }
                            }
                            (Some((k, m, d)), Want::File(wd, wm)) => {
                                if k != "f" {
                                    fail(format!("{key} should be a regular file"));
                                }
                                if *d != hex(wd) {
                                    fail(format!("file {key} does not hold the archive's bytes"));
                                }
                                let exp = wm.unwrap_or(fmode);
                                let suid = exp & 0o6000 != 0;
                                if !(suid && !privileged) && *m != format!("{:o}", exp) {
                                    fail(format!("file {key} has mode {m}, expected {:o}", exp));
                                }
                            }
                            (None, _) => fail(format!("{key} is missing from the extracted tree")),
                        }
                    }
                }
            }
        }
        // 5. a failed seekable extraction: the entries written completely before the failing one have their recorded
        //    modes (the failing entry is the first with a bad CRC / unsupported method / unsafe name; the entries
        //    before it are plain and consistent, and its own name is not one of theirs)
        if which == "seek" && class.starts_with("err") {
            if let Some(k) = ents.iter().position(|e| e.kind != 'f' || !name_safe(&e.name)) {
                let perms_never_block = privileged
                    || (dmode & 0o300 == 0o300 && fmode & 0o200 == 0o200 && root_mode.map(|m| m & 0o300 == 0o300).unwrap_or(true));
                let fresh = ents[..k].iter().all(|e| e.name != ents[k].name);
                let sgid_somewhere = root_mode.map(|m| m & 0o2000 != 0).unwrap_or(false)
                    || ents.iter().any(|e| e.mode().map(|m| m & 0o2000 != 0).unwrap_or(false));
                if let (Some(want), true, true, false) = (expected_tree(&ents[..k]), perms_never_block, fresh, sgid_somewhere) {
                    let mut got: BTreeMap<String, String> = BTreeMap::new();
                    for it in field("tree=").split(',') {
                        let f: Vec<&str> = it.split(':').collect();
                        if f.len() >= 3 {
                            got.insert(f[0].to_string(), f[2].to_string());
                        }
                    }
                    for (p, w) in &want {
                        let key = render_path(p);
                        let wm = match w { Want::Dir(m) => *m, Want::File(_, m) => *m };
                        if let (Some(m), Some(exp)) = (got.get(&key), wm) {
                            let suid = exp & 0o6000 != 0;
                            if !(suid && !privileged) && *m != format!("{:o}", exp) {
                                fail(format!("failed extraction left {key} with mode {m}, the archive records {:o} (entry written before the failing one)", exp));
                            }
                        }
                    }
                }
            }
        }
        // 6. a failed streaming extraction whose files were all written (every local name safe, plain, consistent; no
        //    damaged entry) and whose k-th central record is the first with an unsafe name: the central records before
        //    it have their modes applied
        if which == "stream" && class.starts_with("err") && ents.iter().all(|e| e.kind == 'f' && name_safe(e.local())) {
            if let Some(k) = ents.iter().position(|e| !name_safe(&e.name)) {
                let locals: Vec<Ent> = ents.iter().map(|e| Ent { name: e.local().to_vec(), lname: None, ..e.clone() }).collect();
                let perms_never_block = privileged
                    || (dmode & 0o300 == 0o300 && fmode & 0o200 == 0o200 && root_mode.map(|m| m & 0o300 == 0o300).unwrap_or(true));
                let sgid_somewhere = root_mode.map(|m| m & 0o2000 != 0).unwrap_or(false)
                    || ents.iter().any(|e| e.mode().map(|m| m & 0o2000 != 0).unwrap_or(false));
                let prefix_same = ents[..k].iter().all(|e| e.lname.is_none());
                if let (Some(_), Some(want), true, true, false) = (expected_tree(&locals), expected_tree(&ents[..k]), perms_never_block, prefix_same, sgid_somewhere) {
                    let mut got: BTreeMap<String, String> = BTreeMap::new();
                    for it in field("tree=").split(',') {
                        let f: Vec<&str> = it.split(':').collect();
                        if f.len() >= 3 {
                            got.insert(f[0].to_string(), f[2].to_string());
                        }
                    }
                    for (p, w) in &want {
                        let key = render_path(p);
                        let wm = match w { Want::Dir(m) => *m, Want::File(_, m) => *m };
                        if let (Some(m), Some(exp)) = (got.get(&key), wm) {
                            let suid = exp & 0o6000 != 0;
                            if !(suid && !privileged) && *m != format!("{:o}", exp) {
                                fail(format!("failed streaming extraction left {key} with mode {m}, the archive records {:o} (central record before the rejected one)", exp));
                            }
                        }
                    }
                }
            }
        }
        fails
    }

    fn nontrivial(&self, _line: &str, resp: &str) -> bool {
        resp.starts_with("ok ") || !resp.contains("tree=- ")
    }
}

#[allow(dead_code)]
fn _unused(_: &OsStr) {}
