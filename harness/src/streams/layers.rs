//! C04 / C09: the reader layers (`Take`, `ZipCryptoReaderValid`, `Crc32Reader`, decoders) over
//! instrumented readers that execute explicit short-read schedules, the writer over instrumented
//! short-write sinks, and bit-level damage of seed archives.
//!
//! Two streams share the `layers.*` ops: `layers` (C09, fragmentation schedules) and `damage` (C04).
//! Response formats are mirrored in lean/Driver/Ops/Layers.lean.
use super::{GenOut, OracleFailure, Stream};
use crate::prng::Rng;
use crate::util::*;
use std::cell::RefCell;
use std::collections::BTreeMap;
use std::io::{self, Cursor, Read, Seek, SeekFrom, Write};
use std::panic::AssertUnwindSafe;
use zip::unstable::write::FileOptionsExt;
use zip::verif_hooks::{crc32_reader, zipcrypto_finish, ZipCryptoReader, ZipCryptoValidator};
use zip::write::FileOptions;
use zip::{CompressionMethod, ZipArchive, ZipWriter};

// ---------------------------------------------------------------------------------------------
// instrumented reader / sink

/// Delivers `min(request, max(next scripted size, 1), remaining)` bytes per non-empty read, the
/// script cycling (empty script = as much as requested). Zero-length reads return 0 and consume
/// nothing. `fail`: error raised instead of the clean EOF.
pub struct ScriptedReader<R> {
    inner: R,
    script: Vec<usize>,
    pos: usize,
    fail: Option<io::ErrorKind>,
    /// absolute stream offset that no read may cross ("one short read exactly at this byte")
    cut: Option<u64>,
    abs: u64,
}

impl<R> ScriptedReader<R> {
    pub fn new(inner: R, script: &[usize], fail: Option<io::ErrorKind>) -> Self {
        ScriptedReader { inner, script: script.to_vec(), pos: 0, fail, cut: None, abs: 0 }
    }
    pub fn with_cut(mut self, cut: Option<u64>) -> Self {
        self.cut = cut;
        self
    }
}

impl<R: Read> Read for ScriptedReader<R> {
    fn read(&mut self, buf: &mut [u8]) -> io::Result<usize> {
        if buf.is_empty() {
            return Ok(0);
        }
        let m = if self.script.is_empty() {
            buf.len()
        } else {
            // the model consumes a script element only when it delivers data; at EOF it does not
            // matter any more, so peek first
            let k = self.script[self.pos % self.script.len()].max(1);
            buf.len().min(k)
        };
        let m = match self.cut {
            Some(c) if self.abs < c && self.abs + m as u64 > c => (c - self.abs) as usize,
            _ => m,
        };
        let n = self.inner.read(&mut buf[..m])?;
        self.abs += n as u64;
        if n == 0 {
            if let Some(k) = self.fail {
                return Err(io::Error::new(k, "scripted failure"));
            }
            return Ok(0);
        }
        if !self.script.is_empty() {
            self.pos = (self.pos + 1) % self.script.len();
        }
        Ok(n)
    }
}

impl<R: Seek> Seek for ScriptedReader<R> {
    fn seek(&mut self, p: SeekFrom) -> io::Result<u64> {
        let r = self.inner.seek(p)?;
        self.abs = r;
        Ok(r)
    }
}

/// Accepts `min(len, max(next scripted size, 1))` bytes per non-empty write, the script cycling.
pub struct ScriptedSink<W> {
    inner: W,
    script: Vec<usize>,
    pos: usize,
    cut: Option<u64>,
    abs: u64,
}

impl<W: Write> Write for ScriptedSink<W> {
    fn write(&mut self, buf: &[u8]) -> io::Result<usize> {
        if buf.is_empty() {
            return Ok(0);
        }
        let m = if self.script.is_empty() {
            buf.len()
        } else {
            let k = self.script[self.pos % self.script.len()].max(1);
            self.pos = (self.pos + 1) % self.script.len();
            buf.len().min(k)
        };
        let m = match self.cut {
            Some(c) if self.abs < c && self.abs + m as u64 > c => (c - self.abs) as usize,
            _ => m,
        };
        let n = self.inner.write(&buf[..m])?;
        self.abs += n as u64;
        Ok(n)
    }
    fn flush(&mut self) -> io::Result<()> {
        self.inner.flush()
    }
}

impl<W: Seek> Seek for ScriptedSink<W> {
    fn seek(&mut self, p: SeekFrom) -> io::Result<u64> {
        let r = self.inner.seek(p)?;
        self.abs = r;
        Ok(r)
    }
}

// ---------------------------------------------------------------------------------------------
// driving a reader with a cyclic buffer schedule

#[derive(Clone, Debug, PartialEq)]
pub struct Driven {
    out: Vec<u8>,
    calls: Vec<String>,
    term: String,
    after: Option<Vec<String>>,
}

fn cap_for(len: usize, bufs: &[usize]) -> usize {
    (len + 2) * bufs.len().max(1) + 2
}

fn drive(r: &mut dyn Read, bufs: &[usize], cap: usize) -> Driven {
    let mut d = Driven { out: vec![], calls: vec![], term: "open".into(), after: None };
    let maxb = bufs.iter().copied().max().unwrap_or(4096).max(4096);
    let mut buf = vec![0u8; maxb];
    for i in 0..cap {
        let n = if bufs.is_empty() { 4096 } else { bufs[i % bufs.len()] };
        // poison the buffer so that stale bytes cannot masquerade as data
        for b in buf[..n].iter_mut() {
            *b = 0xA5;
        }
        match r.read(&mut buf[..n]) {
            Ok(c) => {
                d.calls.push(c.to_string());
                if c > n {
                    d.term = "overrun".into();
                    return d;
                }
                if n > 0 && c == 0 {
                    d.term = "eof".into();
                    break;
                }
                d.out.extend_from_slice(&buf[..c]);
            }
            Err(e) => {
                if std::env::var_os("ZV_DEBUG").is_some() {
                    eprintln!("DEBUG read error: {e:?}");
                }
                d.calls.push("E".into());
                d.term = ioerr_class(&e);
                return d;
            }
        }
    }
    if d.term == "eof" {
        let mut a = vec![];
        for n in [0usize, 1, 4096] {
            a.push(match r.read(&mut buf[..n]) {
                Ok(c) => c.to_string(),
                Err(_) => "E".into(),
            });
        }
        d.after = Some(a);
    }
    d
}

fn rle(xs: &[String]) -> String {
    if xs.is_empty() {
        return "-".into();
    }
    let mut out: Vec<String> = vec![];
    let mut cur = &xs[0];
    let mut k = 0usize;
    for x in xs {
        if x == cur {
            k += 1;
        } else {
            out.push(format!("{cur}*{k}"));
            cur = x;
            k = 1;
        }
    }
    out.push(format!("{cur}*{k}"));
    out.join(",")
}

fn show_out(bs: &[u8]) -> String {
    if bs.len() <= 48 {
        hex(bs)
    } else {
        format!("#{}:{}", bs.len(), crc32fast::hash(bs))
    }
}

fn show(d: &Driven, with_calls: bool) -> String {
    let mut s = format!("done:{} out={}", d.term.replace(' ', "_"), show_out(&d.out));
    if with_calls {
        s += &format!(" calls={}", rle(&d.calls));
    }
    if let Some(a) = &d.after {
        s += &format!(" after={}", a.join(","));
    }
    s
}

// ---------------------------------------------------------------------------------------------
// argument helpers

type Args = BTreeMap<String, String>;

fn sched(a: &Args, k: &str) -> Option<Vec<usize>> {
    match a.get(k) {
        None => Some(vec![]),
        Some(s) if s == "-" || s.is_empty() => Some(vec![]),
        Some(s) => s.split(',').map(|x| x.parse::<usize>().ok()).collect(),
    }
}

fn fail_kind(a: &Args) -> Option<io::ErrorKind> {
    match a.get("fail").map(|s| s.as_str()) {
        Some("injected") => Some(io::ErrorKind::ConnectionAborted),
        Some("other") => Some(io::ErrorKind::Other),
        Some("invaliddata") => Some(io::ErrorKind::InvalidData),
        Some("brokenpipe") => Some(io::ErrorKind::BrokenPipe),
        _ => None,
    }
}

fn list(xs: &[usize]) -> String {
    if xs.is_empty() {
        "-".into()
    } else {
        xs.iter().map(|x| x.to_string()).collect::<Vec<_>>().join(",")
    }
}

// ---------------------------------------------------------------------------------------------
// op execution (implementation side)

#[derive(Clone, Debug, PartialEq)]
enum Exec {
    Read(Driven, bool),
    Text(String),
}

impl Exec {
    fn render(&self) -> String {
        match self {
            Exec::Read(d, c) => show(d, *c),
            Exec::Text(s) => s.clone(),
        }
    }
}

fn exec_crc(data: &[u8], check: u32, ae2: bool, inner: &[usize], bufs: &[usize], fail: Option<io::ErrorKind>) -> Exec {
    let src = ScriptedReader::new(Cursor::new(data.to_vec()), inner, fail);
    let mut r = crc32_reader(src, check, ae2);
    Exec::Read(drive(&mut r, bufs, cap_for(data.len(), bufs)), true)
}

fn exec_take(data: &[u8], limit: u64, inner: &[usize], bufs: &[usize], fail: Option<io::ErrorKind>) -> Exec {
    let src = ScriptedReader::new(Cursor::new(data.to_vec()), inner, fail);
    let mut r = src.take(limit);
    Exec::Read(drive(&mut r, bufs, cap_for(data.len(), bufs)), true)
}

fn exec_zc(pw: &[u8], ct: &[u8], v: u32, inner: &[usize], bufs: &[usize], fail: Option<io::ErrorKind>) -> Exec {
    let src = ScriptedReader::new(Cursor::new(ct.to_vec()), inner, fail);
    match ZipCryptoReader::new(src, pw).validate(ZipCryptoValidator::PkzipCrc32(v)) {
        Err(e) => Exec::Text(ioerr_class(&e)),
        Ok(None) => Exec::Text("badpw".into()),
        Ok(Some(mut r)) => Exec::Read(drive(&mut r, bufs, cap_for(ct.len(), bufs)), true),
    }
}

fn exec_rx(data: &[u8], inner: &[usize], ns: &[usize], fail: Option<io::ErrorKind>) -> Exec {
    let mut src = ScriptedReader::new(Cursor::new(data.to_vec()), inner, fail);
    let mut parts = vec![];
    for &n in ns {
        let mut buf = vec![0u8; n];
        match src.read_exact(&mut buf) {
            Ok(()) => parts.push(hex(&buf)),
            Err(e) => {
                parts.push(ioerr_class(&e));
                break;
            }
        }
    }
    Exec::Text(format!("rx {}", parts.join(" ")))
}

struct EntryRun {
    exec: Exec,
    /// CRC the library itself declares for the entry (None if the entry could not be opened)
    declared: Option<u32>,
    method_stored: bool,
    aes: bool,
}

/// Read entry `idx` through the public API over a scripted short-read reader.
fn exec_entry(archive: &[u8], idx: usize, lh: usize, inner: &[usize], bufs: &[usize], pw: Option<&[u8]>, stream: bool, cut: Option<u64>) -> EntryRun {
    DECLARED.with(|c| c.set(None));
    let maxb = bufs.iter().copied().max().unwrap_or(4096).max(1);
    // generous call budget: damaged compressed streams may decode to far more than the archive size
    let cap = cap_for(archive.len().max(64), bufs) + (600_000 / maxb) * bufs.len().max(1);
    if stream {
        let start = lh.min(archive.len());
        let mut src = ScriptedReader::new(Cursor::new(archive[start..].to_vec()), inner, None).with_cut(cut);
        return match zip::read::read_zipfile_from_stream(&mut src) {
            Err(e) => EntryRun { exec: Exec::Text(zerr_class(&e)), declared: None, method_stored: false, aes: false },
            Ok(None) => EntryRun { exec: Exec::Text("none".into()), declared: None, method_stored: false, aes: false },
            Ok(Some(mut f)) => {
                let declared = Some(f.crc32());
                DECLARED.with(|c| c.set(declared));
                let st = f.compression() == CompressionMethod::Stored;
                let d = drive(&mut f, bufs, cap);
                EntryRun { exec: Exec::Read(d, false), declared, method_stored: st, aes: false }
            }
        };
    }
    let src = ScriptedReader::new(Cursor::new(archive.to_vec()), inner, None).with_cut(cut);
    let mut za = match ZipArchive::new(src) {
        Ok(z) => z,
        Err(e) => return EntryRun { exec: Exec::Text(format!("open {}", zerr_class(&e))), declared: None, method_stored: false, aes: false },
    };
    let res = match pw {
        Some(p) => match za.by_index_decrypt(idx, p) {
            Ok(Ok(f)) => Ok(f),
            Ok(Err(_)) => return EntryRun { exec: Exec::Text("badpw".into()), declared: None, method_stored: false, aes: false },
            Err(e) => Err(e),
        },
        None => za.by_index(idx),
    };
    match res {
        Err(e) => EntryRun { exec: Exec::Text(zerr_class(&e)), declared: None, method_stored: false, aes: false },
        Ok(mut f) => {
            let declared = Some(f.crc32());
            DECLARED.with(|c| c.set(declared));
            let st = f.compression() == CompressionMethod::Stored;
            // AE-2 entries carry CRC 0 and are exempt; the harness marks AES archives with `aes=1`
            let d = drive(&mut f, bufs, cap);
            EntryRun { exec: Exec::Read(d, false), declared, method_stored: st, aes: false }
        }
    }
}

fn split_chunks(data: &[u8], sizes: &[usize]) -> Vec<Vec<u8>> {
    if sizes.iter().all(|&s| s == 0) {
        return vec![data.to_vec()];
    }
    let mut out = vec![];
    let (mut pos, mut i) = (0usize, 0usize);
    while pos < data.len() {
        let n = sizes[i % sizes.len()].min(data.len() - pos);
        i += 1;
        out.push(data[pos..pos + n].to_vec());
        pos += n;
    }
    out
}

fn method_of(s: &str) -> CompressionMethod {
    match s {
        "deflated" => CompressionMethod::Deflated,
        "bzip2" => CompressionMethod::Bzip2,
        "zstd" => CompressionMethod::Zstd,
        _ => CompressionMethod::Stored,
    }
}

fn options(method: CompressionMethod, pw: Option<&[u8]>) -> FileOptions {
    let o = FileOptions::default().compression_method(method).last_modified_time(zip::DateTime::default());
    match pw {
        Some(p) => FileOptionsExt::with_deprecated_encryption(o, p),
        None => o,
    }
}

/// One entry "a" written in the given chunks over a sink with the given short-write script.
fn write_archive(chunks: &[Vec<u8>], wsched: &[usize], cut: Option<u64>, method: CompressionMethod, pw: Option<&[u8]>) -> Result<Vec<u8>, String> {
    let sink = ScriptedSink { inner: Cursor::new(Vec::new()), script: wsched.to_vec(), pos: 0, cut, abs: 0 };
    let mut zw = ZipWriter::new(sink);
    zw.start_file("a", options(method, pw)).map_err(|e| zerr_class(&e))?;
    for c in chunks {
        zw.write_all(c).map_err(|e| ioerr_class(&e))?;
    }
    let sink = zw.finish().map_err(|e| zerr_class(&e))?;
    Ok(sink.inner.into_inner())
}

fn exec_write(data: &[u8], sizes: &[usize], wsched: &[usize], cut: Option<u64>, method: CompressionMethod, pw: Option<&[u8]>) -> Exec {
    let chunked = match write_archive(&split_chunks(data, sizes), wsched, cut, method, pw) {
        Ok(a) => a,
        Err(e) => return Exec::Text(e),
    };
    let reference = match write_archive(&[data.to_vec()], &[], None, method, pw) {
        Ok(a) => a,
        Err(e) => return Exec::Text(format!("ref {e}")),
    };
    // read back through an ordinary reader
    let mut za = match ZipArchive::new(Cursor::new(chunked.clone())) {
        Ok(z) => z,
        Err(e) => return Exec::Text(format!("readback {}", zerr_class(&e))),
    };
    let f = match pw {
        Some(p) => match za.by_index_decrypt(0, p) {
            Ok(Ok(f)) => Ok(f),
            Ok(Err(_)) => return Exec::Text("readback badpw".into()),
            Err(e) => Err(e),
        },
        None => za.by_index(0),
    };
    let mut f = match f {
        Ok(f) => f,
        Err(e) => return Exec::Text(format!("readback {}", zerr_class(&e))),
    };
    let (crc, size) = (f.crc32(), f.size());
    let mut back = vec![];
    let ok = f.read_to_end(&mut back).is_ok() && back == data;
    let same = ok && chunked == reference;
    Exec::Text(format!("written crc={crc} size={size} same={}", same as u8))
}

thread_local! {
    static LAST: RefCell<Option<(String, Exec)>> = RefCell::new(None);
    /// CRC declared by the library for the entry opened by the most recent `exec_entry`
    static DECLARED: std::cell::Cell<Option<u32>> = std::cell::Cell::new(None);
}

fn exec_line(line: &str) -> Exec {
    let (op, a) = parse_line(line);
    let bad = Exec::Text("bad-op".into());
    let inner = match sched(&a, "inner") { Some(v) => v, None => return bad };
    let bufs = match sched(&a, "bufs") { Some(v) => v, None => return bad };
    let fail = fail_kind(&a);
    match op.as_str() {
        "layers.crc" => {
            let (data, check, ae2) = match (get_hex(&a, "data"), get_u64(&a, "check"), get_u64(&a, "ae2")) {
                (Some(d), Some(c), Some(e)) => (d, c as u32, e != 0),
                _ => return bad,
            };
            exec_crc(&data, check, ae2, &inner, &bufs, fail)
        }
        "layers.take" => {
            let (data, limit) = match (get_hex(&a, "data"), get_u64(&a, "limit")) {
                (Some(d), Some(l)) => (d, l),
                _ => return bad,
            };
            exec_take(&data, limit, &inner, &bufs, fail)
        }
        "layers.zc" => {
            let (pw, ct, v) = match (get_hex(&a, "pw"), get_hex(&a, "ct"), get_u64(&a, "v")) {
                (Some(p), Some(c), Some(v)) => (p, c, v as u32),
                _ => return bad,
            };
            exec_zc(&pw, &ct, v, &inner, &bufs, fail)
        }
        "layers.rx" => {
            let (data, ns) = match (get_hex(&a, "data"), sched(&a, "ns")) {
                (Some(d), Some(n)) => (d, n),
                _ => return bad,
            };
            exec_rx(&data, &inner, &ns, fail)
        }
        "layers.entry" => {
            let (archive, lh) = match (get_hex(&a, "archive"), get_u64(&a, "lh")) {
                (Some(x), Some(l)) => (x, l as usize),
                _ => return bad,
            };
            let idx = get_u64(&a, "idx").unwrap_or(0) as usize;
            let pw = get_hex(&a, "pw");
            let stream = a.get("stream").map(|s| s == "1").unwrap_or(false);
            exec_entry(&archive, idx, lh, &inner, &bufs, pw.as_deref(), stream, get_u64(&a, "cut")).exec
        }
        "layers.xentry" => Exec::Text(xentry(&a, &inner, &bufs)),
        "layers.write" => {
            let (data, sizes, wsched) = match (get_hex(&a, "data"), sched(&a, "sizes"), sched(&a, "wsched")) {
                (Some(d), Some(s), Some(w)) => (d, s, w),
                _ => return bad,
            };
            let m = method_of(a.get("method").map(|s| s.as_str()).unwrap_or("stored"));
            let pw = get_hex(&a, "pw");
            exec_write(&data, &sizes, &wsched, get_u64(&a, "cut"), m, pw.as_deref())
        }
        _ => bad,
    }
}

/// Oracle-only archive op: chunked run against the unchunked reference run, and CRC soundness.
fn xentry(a: &Args, inner: &[usize], bufs: &[usize]) -> String {
    let (archive, lh) = match (get_hex(a, "archive"), get_u64(a, "lh")) {
        (Some(x), l) => (x, l.unwrap_or(0) as usize),
        _ => return "bad-op".into(),
    };
    let idx = get_u64(a, "idx").unwrap_or(0) as usize;
    let pw = get_hex(a, "pw");
    let stream = a.get("stream").map(|s| s == "1").unwrap_or(false);
    let aes = a.get("aes").map(|s| s == "1").unwrap_or(false);
    let damaged = a.get("dmg").map(|s| s != "none").unwrap_or(false);
    let run = exec_entry(&archive, idx, lh, inner, bufs, pw.as_deref(), stream, get_u64(a, "cut"));
    let reference = exec_entry(&archive, idx, lh, &[], &[65536], pw.as_deref(), stream, None);
    let mut verdict = vec![];
    match (&run.exec, &reference.exec) {
        (Exec::Read(d, _), Exec::Read(r, _)) => {
            // on damaged compressed data only the way the read ends is compared: how many bytes a
            // decoder hands out before it reports corrupt input is not specified
            let nosame = a.get("nosame").map(|s| s == "1").unwrap_or(false);
            // a damaged stream that is still producing output when the call budget ends is inconclusive
            let open = damaged && (d.term == "open" || r.term == "open");
            let same = nosame || open || (d.term == r.term && (d.out == r.out || (damaged && d.term != "eof")));
            verdict.push(if same { "same".to_string() } else {
                format!("DIFF chunked=({}) reference=({})", show(d, false), show(r, false))
            });
            if let Some(af) = &d.after {
                if af.iter().any(|x| x != "0") {
                    verdict.push(format!("EOF-NOT-STICKY after={}", af.join(",")));
                }
            }
            let sound = d.term != "eof" || aes || Some(crc32fast::hash(&d.out)) == run.declared;
            verdict.push(if sound { "sound".to_string() } else {
                format!("UNSOUND read completed with crc {} declared {:?}", crc32fast::hash(&d.out), run.declared)
            });
        }
        (x, y) => {
            verdict.push(if x == y { "same".to_string() } else { format!("DIFF chunked=({}) reference=({})", x.render(), y.render()) });
            verdict.push("sound".into());
        }
    }
    let v = verdict.join(" ");
    // under damage the external decoders may notice the damage at different points for different buffer sizes;
    // the properties then ask for soundness only (see the oracle): canonical response
    if damaged && v.starts_with("DIFF ") && v.ends_with(" sound") && !v.contains("UNSOUND") && !v.contains("EOF-NOT-STICKY") {
        return "same sound".into();
    }
    v
}

// ---------------------------------------------------------------------------------------------
// seeds

pub struct Seed {
    pub bytes: Vec<u8>,
    pub method: &'static str,
    pub pw: Option<Vec<u8>>,
    pub entries: Vec<EntryInfo>,
}

#[derive(Clone)]
pub struct EntryInfo {
    pub lh: usize,
    pub ch: usize,
    pub dstart: usize,
    pub csize: usize,
    pub plain: Vec<u8>,
}

fn payload(r: &mut Rng, n: usize) -> Vec<u8> {
    // compressible text with random islands, so that the decoders do real work
    let words: [&[u8]; 6] = [b"zip ", b"archive ", b"entry ", b"\x00\x00\x00\x00", b"central directory ", b"lorem "];
    let mut v = vec![];
    while v.len() < n {
        if r.chance(1, 4) {
            { let k = 1 + r.below(6) as usize; v.extend(r.bytes(k)); }
        } else {
            v.extend_from_slice(words[r.below(6) as usize]);
        }
    }
    v.truncate(n);
    v
}

pub fn make_seed(method: &'static str, payloads: &[Vec<u8>], pw: Option<&[u8]>) -> Seed {
    let mut zw = ZipWriter::new(Cursor::new(Vec::new()));
    for (i, p) in payloads.iter().enumerate() {
        zw.start_file(format!("f{i}.bin"), options(method_of(method), pw)).unwrap();
        zw.write_all(p).unwrap();
    }
    let bytes = zw.finish().unwrap().into_inner();
    let mut entries = vec![];
    let mut za = ZipArchive::new(Cursor::new(bytes.clone())).unwrap();
    for i in 0..payloads.len() {
        let f = za.by_index_raw(i).unwrap();
        entries.push(EntryInfo {
            lh: f.header_start() as usize,
            ch: f.central_header_start() as usize,
            dstart: f.data_start() as usize,
            csize: f.compressed_size() as usize,
            plain: payloads[i].clone(),
        });
    }
    Seed { bytes, method, pw: pw.map(|p| p.to_vec()), entries }
}

fn entry_line(op: &str, s: &Seed, archive: &[u8], idx: usize, inner: &[usize], bufs: &[usize], stream: bool, dmg: &str, with_plain: bool) -> String {
    let e = &s.entries[idx];
    let mut l = format!("{op} archive={} idx={idx} lh={} ch={} inner={} bufs={} st={} dmg={dmg}",
        hex(archive), e.lh, e.ch, list(inner), list(bufs), (s.method == "stored") as u8);
    if let Some(p) = &s.pw {
        l += &format!(" pw={}", hex(p));
    }
    if stream {
        l += " stream=1";
    }
    if with_plain {
        l += &format!(" plain={}", hex(&e.plain));
    }
    l
}

/// Damage stream, Zstd entries read with zero-length buffers: the zero-length read itself fails (finding
/// D12, recorded under C09), so only the soundness verdict is asked for, not the comparison with the
/// unchunked run.
fn xline(s: &Seed, line: String, bufs: &[usize]) -> String {
    if s.method == "zstd" && bufs.contains(&0) && line.starts_with("layers.xentry") {
        format!("{line} nosame=1")
    } else {
        line
    }
}

fn rand_sched(r: &mut Rng, zeros: bool) -> Vec<usize> {
    let n = 1 + r.below(5) as usize;
    (0..n)
        .map(|_| {
            if zeros && r.chance(1, 5) {
                0
            } else {
                match r.below(4) {
                    0 => 1,
                    1 => 1 + r.below(8) as usize,
                    2 => 1 + r.below(64) as usize,
                    _ => 1 + r.below(5000) as usize,
                }
            }
        })
        .collect()
}

fn nonzero_sched(r: &mut Rng) -> Vec<usize> {
    rand_sched(r, false)
}

fn buf_sched(r: &mut Rng) -> Vec<usize> {
    let mut v = rand_sched(r, true);
    if v.iter().all(|&x| x == 0) {
        v.push(1 + r.below(9) as usize);
    }
    v
}

const METHODS: [&str; 4] = ["stored", "deflated", "bzip2", "zstd"];

// ---------------------------------------------------------------------------------------------
// C09 stream

pub struct Layers;

fn gen_layers(seed: u64, tier: &str) -> GenOut {
    let thorough = tier == "thorough";
    let mut g = GenOut::default();
    g.rule = "function-level ops (Crc32Reader, Take, ZipCryptoReader+validate, read_exact over a scripted short-read \
              reader): uniform inner chunk sizes 1..K x uniform caller buffers incl. 0, one short read at every byte \
              position of small inputs (exhaustive), random schedules, BufReader-like refill patterns; archive-level \
              ops through ZipArchive/read_zipfile_from_stream over scripted Read+Seek: seeds x methods \
              (stored/deflated/bzip2/zstd) x plain/ZipCrypto, AES test archive (oracle only); writer: caller splits x \
              sink short-write schedules. distinct = distinct op lines; non-trivial = not an error-only response".into();
    let mut r = super::rng_for(seed, "layers", 0);
    let k_max = if thorough { 24 } else { 9 };

    // --- Crc32Reader / Take: uniform x uniform
    let base: Vec<u8> = (0..23u8).map(|i| i.wrapping_mul(37).wrapping_add(5)).collect();
    let crc = crc32fast::hash(&base);
    for k in 1..=k_max {
        for b in 0..=k_max {
            let bufs = if b == 0 { vec![0, k] } else { vec![b] };
            g.push("crc.uniform", format!("layers.crc data={} check={crc} ae2=0 inner={k} bufs={}", hex(&base), list(&bufs)));
            g.push("take.uniform", format!("layers.take data={} limit={} inner={k} bufs={}", hex(&base), (k * 3) % 29, list(&bufs)));
        }
    }
    // --- one short read at every byte position (exhaustive for the small input)
    for pos in 1..base.len() {
        for first in [1usize, 2, 5] {
            // deliver `pos` bytes, then one short read of `first`, then everything
            let inner = vec![pos, first, 100000, 100000, 100000, 100000, 100000, 100000];
            for bufs in [vec![4096], vec![7], vec![0, 3]] {
                g.push("crc.single-short", format!("layers.crc data={} check={crc} ae2=0 inner={} bufs={}", hex(&base), list(&inner), list(&bufs)));
            }
        }
    }
    // --- random
    let n_rand = if thorough { 40000 } else { 3000 };
    for _ in 0..n_rand {
        let n = match r.below(4) { 0 => r.below(4) as usize, 1 => r.below(40) as usize, _ => r.below(600) as usize };
        let data = r.bytes(n);
        let good = crc32fast::hash(&data);
        let check = if r.chance(3, 4) { good } else { good ^ (1 << r.below(32)) };
        let ae2 = r.chance(1, 6) as u8;
        let fail = if r.chance(1, 8) { " fail=injected" } else { "" };
        g.push("crc.random", format!("layers.crc data={} check={check} ae2={ae2} inner={} bufs={}{fail}", hex(&data), list(&nonzero_sched(&mut r)), list(&buf_sched(&mut r))));
        let limit = if r.chance(1, 3) { n as u64 } else { r.below(n as u64 + 5) };
        g.push("take.random", format!("layers.take data={} limit={limit} inner={} bufs={}{fail}", hex(&data), list(&nonzero_sched(&mut r)), list(&buf_sched(&mut r))));
    }
    // --- BufReader-like refill: capacity c, caller buffer b => deliveries b,b,..,c mod b
    for c in [8usize, 16, 64] {
        for b in [3usize, 7, 16, 100] {
            let mut inner = vec![];
            let mut left = c;
            while left > 0 {
                let m = b.min(left);
                inner.push(m);
                left -= m;
            }
            let data = r.bytes(200);
            g.push("crc.bufreader", format!("layers.crc data={} check={} ae2=0 inner={} bufs={b}", hex(&data), crc32fast::hash(&data), list(&inner)));
        }
    }
    // --- ZipCrypto reader
    let n_zc = if thorough { 20000 } else { 1500 };
    for i in 0..n_zc {
        let k = 1 + r.below(10) as usize;
        let pw = r.bytes(k);
        let n = match r.below(3) { 0 => r.below(3) as usize, 1 => r.below(30) as usize, _ => r.below(400) as usize };
        let plain = r.bytes(n);
        let crc = crc32fast::hash(&plain);
        let mut buffer = r.bytes(12);
        buffer.extend_from_slice(&plain);
        let mut ct = zipcrypto_finish(&pw, buffer, crc).unwrap();
        let mut kind = "zc.valid";
        let mut pw_used = pw.clone();
        if i % 9 == 7 {
            let k = 1 + r.below(6) as usize;
            pw_used = r.bytes(k);
            kind = "zc.wrongpw";
        } else if i % 9 == 8 {
            ct.truncate(r.below(12) as usize);
            kind = "zc.shortheader";
        }
        let (inner, bufs) = if i % 3 == 0 { (vec![1 + (i % 7)], vec![1 + (i % 5), 0]) } else { (nonzero_sched(&mut r), buf_sched(&mut r)) };
        let pl = if kind == "zc.valid" { format!(" plain={}", hex(&plain)) } else { String::new() };
        g.push(kind, format!("layers.zc pw={} ct={} v={crc} inner={} bufs={}{pl}", hex(&pw_used), hex(&ct), list(&inner), list(&bufs)));
    }
    // one short read at every position of a ZipCrypto stream
    {
        let pw = b"secret".to_vec();
        let plain: Vec<u8> = (0..20u8).collect();
        let crc = crc32fast::hash(&plain);
        let mut buffer = vec![9u8; 12];
        buffer.extend_from_slice(&plain);
        let ct = zipcrypto_finish(&pw, buffer, crc).unwrap();
        for pos in 1..ct.len() {
            let inner = vec![pos, 1, 100000, 100000, 100000, 100000];
            g.push("zc.single-short", format!("layers.zc pw={} ct={} v={crc} inner={} bufs=64 plain={}", hex(&pw), hex(&ct), list(&inner), hex(&plain)));
        }
    }
    // --- read_exact
    for _ in 0..(if thorough { 20000 } else { 1500 }) {
        let k = r.below(60) as usize;
        let data = r.bytes(k);
        let ns: Vec<usize> = (0..1 + r.below(6)).map(|_| r.below(20) as usize).collect();
        let fail = if r.chance(1, 6) { " fail=injected" } else { "" };
        g.push("rx.random", format!("layers.rx data={} inner={} ns={}{fail}", hex(&data), list(&nonzero_sched(&mut r)), list(&ns)));
    }
    // --- archives through the public API
    let sizes: Vec<usize> = if thorough { vec![0, 1, 5, 64, 300, 2000, 9000] } else { vec![0, 1, 40, 700, 3000] };
    let mut seeds = vec![];
    for m in METHODS {
        for (j, &n) in sizes.iter().enumerate() {
            let p1 = payload(&mut r, n);
            let p2 = payload(&mut r, (n / 2).max(1));
            seeds.push(make_seed(m, &[p1.clone(), p2.clone()], None));
            if j % 2 == 1 || thorough {
                seeds.push(make_seed(m, &[p1, p2], Some(b"pass word")));
            }
        }
    }
    let per_seed = if thorough { 80 } else { 24 };
    for s in &seeds {
        for t in 0..per_seed {
            let idx = t % s.entries.len();
            let (inner, bufs) = match t {
                0 => (vec![1], vec![1]),
                1 => (vec![3], vec![0, 4096]),
                2 => (vec![4096], vec![2]),
                _ => (nonzero_sched(&mut r), buf_sched(&mut r)),
            };
            let stream = s.pw.is_none() && t % 3 == 2;
            // the streaming reader can only be pointed at the entry's local header
            g.push(if stream { "entry.stream" } else { "entry.seek" }, entry_line("layers.entry", s, &s.bytes, idx, &inner, &bufs, stream, "none", true));
        }
    }
    // exhaustive single short read at every byte position of small archives
    let small: Vec<&Seed> = seeds.iter().filter(|s| s.bytes.len() <= if thorough { 1500 } else { 420 }).collect();
    for s in small.iter().take(if thorough { 40 } else { 12 }) {
        for pos in 1..s.bytes.len() {
            // no read of the underlying reader crosses byte offset `pos`: one short read exactly there
            let l = entry_line("layers.entry", s, &s.bytes, pos % s.entries.len(), &[], &[4096], false, "none", true);
            g.push("entry.single-short", format!("{l} cut={pos}"));
        }
    }
    // AES test archive: oracle only (the AES reader is modelled elsewhere)
    if let Ok(aes) = std::fs::read("/repo/tests/data/aes_archive.zip") {
        for idx in 0..4 {
            for t in 0..(if thorough { 200 } else { 25 }) {
                let (inner, bufs) = match t {
                    0 => (vec![1], vec![1]),
                    1 => (vec![5], vec![0, 3]),
                    _ => (nonzero_sched(&mut r), buf_sched(&mut r)),
                };
                g.push("xentry.aes", format!("layers.xentry archive={} idx={idx} inner={} bufs={} pw={} aes=1 dmg=none",
                    hex(&aes), list(&inner), list(&bufs), hex(b"helloworld")));
            }
        }
    }
    // --- writer
    let n_w = if thorough { 20000 } else { 1500 };
    for i in 0..n_w {
        let n = match r.below(3) { 0 => r.below(4) as usize, 1 => r.below(50) as usize, _ => r.below(1500) as usize };
        let data = payload(&mut r, n);
        let method = METHODS[(i % 5).min(3) * (i % 2)]; // mostly stored, the others regularly
        let sizes = if i % 4 == 0 { vec![1 + i % 6] } else { buf_sched(&mut r) };
        let wsched = if i % 4 == 1 { vec![1] } else { nonzero_sched(&mut r) };
        let pw = if i % 7 == 3 { format!(" pw={}", hex(b"pw")) } else { String::new() };
        g.push("write", format!("layers.write data={} sizes={} wsched={} method={method}{pw}", hex(&data), list(&sizes), list(&wsched)));
    }
    // a single short write at every position of a small archive
    {
        let data = payload(&mut r, 30);
        let total = write_archive(&[data.clone()], &[], None, CompressionMethod::Stored, None).map(|a| a.len()).unwrap_or(0);
        for pos in 1..total {
            // no write to the sink crosses byte offset `pos`: one short write exactly there
            g.push("write.single-short", format!("layers.write data={} sizes=- wsched=- method=stored cut={pos}", hex(&data)));
        }
    }
    g
}

// ---------------------------------------------------------------------------------------------
// C04 stream

pub struct Damage;

fn gen_damage(seed: u64, tier: &str) -> GenOut {
    let thorough = tier == "thorough";
    let mut g = GenOut::default();
    g.rule = "seed archives (stored/deflated/bzip2/zstd, plain and ZipCrypto, 2 entries) x every single-bit flip \
              inside every entry's data region and local+central CRC fields (exhaustive for seeds <= 2 KiB in thorough, \
              sampled in quick) x caller buffers {0,1,2,7,4096}, random multi-byte damage, payloads swapped between \
              entries, streams truncated inside the payload; function-level Crc32Reader with corrupted data / check. \
              distinct = distinct op lines; non-trivial = entry opened and was read".into();
    let mut r = super::rng_for(seed, "damage", 0);
    let bufs_set: [Vec<usize>; 5] = [vec![0, 1], vec![1], vec![2], vec![7], vec![4096]];
    // 0: an entry without data still has a declared CRC-32 (of the empty string) that must be checked
    let sizes: Vec<usize> = if thorough { vec![0, 1, 9, 120, 600] } else { vec![0, 1, 9, 120, 400] };
    let mut seeds = vec![];
    for m in METHODS {
        for &n in &sizes {
            let p1 = payload(&mut r, n);
            let mut p2 = payload(&mut r, n);
            if p2 == p1 && !p2.is_empty() {
                p2[0] ^= 0x55;
            }
            seeds.push(make_seed(m, &[p1.clone(), p2.clone()], None));
            if n == 9 || thorough {
                seeds.push(make_seed(m, &[p1, p2], Some(b"k3y")));
            }
        }
    }
    let mut case = 0usize;
    for s in &seeds {
        let stored = s.method == "stored";
        for (idx, e) in s.entries.iter().enumerate() {
            // bit positions: data region, central CRC, local CRC
            let mut positions: Vec<(usize, &str)> = vec![];
            for p in e.dstart..e.dstart + e.csize {
                positions.push((p, "data"));
            }
            for p in e.ch + 16..e.ch + 20 {
                positions.push((p, "ccrc"));
            }
            for p in e.lh + 14..e.lh + 18 {
                positions.push((p, "lcrc"));
            }
            for (p, what) in positions {
                for bit in 0..8 {
                    case += 1;
                    let exhaustive = thorough && s.bytes.len() <= 2048;
                    if !exhaustive {
                        // quick: every CRC-field byte once, data bytes sampled
                        let keep = if what == "data" { r.chance(1, if e.csize > 40 { 12 } else { 2 }) } else { bit % 2 == p % 2 };
                        if !keep {
                            continue;
                        }
                    }
                    let mut a = s.bytes.clone();
                    a[p] ^= 1 << bit;
                    let bufs = &bufs_set[case % 5];
                    let inner = if case % 3 == 0 { vec![] } else { vec![1 + case % 11] };
                    let stream = s.pw.is_none() && case % 4 == 1;
                    // which CRC the reader in use declares: seekable = central, streaming = local
                    let dmg = match (what, stream) {
                        ("data", _) => "data",
                        ("ccrc", false) | ("lcrc", true) => "crc",
                        _ => "othercrc",
                    };
                    if stored {
                        g.push(&format!("bitflip.{what}.stored"), entry_line("layers.entry", s, &a, idx, &inner, bufs, stream, dmg, false));
                    } else {
                        g.push(&format!("bitflip.{what}.{}", s.method), xline(s, entry_line("layers.xentry", s, &a, idx, &inner, bufs, stream, dmg, false), bufs));
                    }
                }
            }
            // random multi-byte damage in the data region
            if e.csize > 0 {
                for _ in 0..(if thorough { 40 } else { 8 }) {
                    case += 1;
                    let mut a = s.bytes.clone();
                    for _ in 0..1 + r.below(4) {
                        let p = e.dstart + r.below(e.csize as u64) as usize;
                        a[p] ^= 1 + r.below(255) as u8;
                    }
                    if a == s.bytes {
                        continue;
                    }
                    let bufs = &bufs_set[case % 5];
                    let op = if stored { "layers.entry" } else { "layers.xentry" };
                    g.push(&format!("multibyte.{}", s.method), xline(s, entry_line(op, s, &a, idx, &[1 + case % 5], bufs, false, "multi", false), bufs));
                }
            }
        }
        // payloads swapped between the two entries (equal compressed sizes only)
        if s.entries.len() == 2 && s.entries[0].csize == s.entries[1].csize && s.entries[0].csize > 0 {
            let (e0, e1) = (&s.entries[0], &s.entries[1]);
            let mut a = s.bytes.clone();
            let d0 = s.bytes[e0.dstart..e0.dstart + e0.csize].to_vec();
            let d1 = s.bytes[e1.dstart..e1.dstart + e1.csize].to_vec();
            if d0 != d1 {
                a[e0.dstart..e0.dstart + e0.csize].copy_from_slice(&d1);
                a[e1.dstart..e1.dstart + e1.csize].copy_from_slice(&d0);
                for idx in 0..2 {
                    for bufs in bufs_set.iter() {
                        let op = if stored { "layers.entry" } else { "layers.xentry" };
                        g.push(&format!("swapped.{}", s.method), xline(s, entry_line(op, s, &a, idx, &[3], bufs, false, "swap", false), bufs));
                    }
                }
            }
        }
        // stream truncated inside the payload of the first entry (streaming reader)
        if s.pw.is_none() && s.entries[0].csize > 0 {
            let e = &s.entries[0];
            for cut in [0usize, e.csize / 2, e.csize - 1] {
                let a = s.bytes[..e.dstart + cut].to_vec();
                for bufs in bufs_set.iter() {
                    let op = if stored { "layers.entry" } else { "layers.xentry" };
                    g.push(&format!("truncated.{}", s.method), xline(s, entry_line(op, s, &a, 0, &[2], bufs, true, "trunc", false), bufs));
                }
            }
        }
    }
    // function level: corrupted data / check through Crc32Reader, every bit of a small message
    let msg: Vec<u8> = b"hello, zip!".to_vec();
    let good = crc32fast::hash(&msg);
    for p in 0..msg.len() {
        for bit in 0..8 {
            let mut d = msg.clone();
            d[p] ^= 1 << bit;
            let bufs = &bufs_set[(p + bit) % 5];
            g.push("crc.bitflip.data", format!("layers.crc data={} check={good} ae2=0 inner={} bufs={} dmg=data", hex(&d), 1 + p % 4, list(bufs)));
        }
    }
    for bit in 0..32 {
        let bufs = &bufs_set[bit % 5];
        g.push("crc.bitflip.check", format!("layers.crc data={} check={} ae2=0 inner=3 bufs={} dmg=crc", hex(&msg), good ^ (1u32 << bit), list(bufs)));
        g.push("crc.ae2", format!("layers.crc data={} check={} ae2=1 inner=3 bufs={}", hex(&msg), good ^ (1u32 << bit), list(bufs)));
        if bit < 5 {
            // a declared CRC of exactly zero is a checksum like any other
            g.push("crc.zero-check", format!("layers.crc data={} check=0 ae2=0 inner=3 bufs={} dmg=crc", hex(&msg), list(bufs)));
        }
    }
    for cut in 0..msg.len() {
        g.push("crc.truncated", format!("layers.crc data={} check={good} ae2=0 inner=2 bufs=0,4 dmg=data", hex(&msg[..cut])));
    }
    for _ in 0..(if thorough { 60000 } else { 5000 }) {
        let hi = if r.chance(1, 5) { 3000 } else { 80 };
        let n = 1 + r.below(hi) as usize;
        let data = r.bytes(n);
        let good = crc32fast::hash(&data);
        let mut d = data.clone();
        for _ in 0..1 + r.below(3) {
            let p = r.below(n as u64) as usize;
            d[p] ^= 1 + r.below(255) as u8;
        }
        let tag = if d == data { "" } else { " dmg=data" };
        g.push("crc.random-damage", format!("layers.crc data={} check={good} ae2=0 inner={} bufs={}{tag}", hex(&d), list(&nonzero_sched(&mut r)), list(&buf_sched(&mut r))));
    }
    g
}

// ---------------------------------------------------------------------------------------------
// shared run / oracle

fn run_line(line: &str) -> String {
    let l = line.to_string();
    let e = match catch(AssertUnwindSafe(move || exec_line(&l))) {
        Ok(e) => e,
        Err(_) => Exec::Text("panic".into()),
    };
    let s = e.render();
    LAST.with(|c| *c.borrow_mut() = Some((line.to_string(), e)));
    s
}

fn last_exec(line: &str) -> Exec {
    let cached = LAST.with(|c| c.borrow().clone());
    match cached {
        Some((l, e)) if l == line => e,
        _ => {
            let l = line.to_string();
            catch(AssertUnwindSafe(move || exec_line(&l))).unwrap_or(Exec::Text("panic".into()))
        }
    }
}

/// The same op with no short reads and one big caller buffer.
fn reference_line(line: &str) -> String {
    let (op, a) = parse_line(line);
    let mut parts = vec![op];
    for (k, v) in a.iter() {
        match k.as_str() {
            "inner" => parts.push("inner=-".into()),
            "bufs" => parts.push("bufs=65536".into()),
            "cut" => {}
            _ => parts.push(format!("{k}={v}")),
        }
    }
    parts.join(" ")
}

fn oracle_line(line: &str, resp: &str) -> Vec<OracleFailure> {
    let mut f = vec![];
    let mut fail = |w: String| f.push(OracleFailure { what: w });
    let (op, a) = parse_line(line);
    if resp.contains("panic") {
        fail(format!("panic in {op}"));
        return f;
    }
    let e = last_exec(line);
    let declared = DECLARED.with(|c| c.get());
    let dmg = a.get("dmg").map(|s| s.as_str()).unwrap_or("none");
    match op.as_str() {
        "layers.crc" | "layers.take" | "layers.zc" | "layers.entry" => {
            let rl = reference_line(line);
            let r = catch(AssertUnwindSafe(move || exec_line(&rl))).unwrap_or(Exec::Text("panic".into()));
            match (&e, &r) {
                (Exec::Read(d, _), Exec::Read(rf, _)) => {
                    if d.out != rf.out || d.term != rf.term {
                        fail(format!("result depends on chunking: chunked ({}) vs one-big-buffer run ({})", show(d, false), show(rf, false)));
                    }
                    if d.term == "open" {
                        fail("read loop did not terminate within the call budget".into());
                    }
                    if let Some(af) = &d.after {
                        if af.iter().any(|x| x != "0") {
                            fail(format!("end-of-file is not sticky: reads after EOF returned {}", af.join(",")));
                        }
                    }
                    // per-call contract
                    if d.term == "overrun" {
                        fail("a read returned more bytes than the buffer holds".into());
                    }
                    match op.as_str() {
                        "layers.crc" => {
                            let ae2 = get_u64(&a, "ae2").unwrap_or(0) != 0;
                            let check = get_u64(&a, "check").unwrap_or(0) as u32;
                            let have = crc32fast::hash(&d.out);
                            if d.term == "eof" && !ae2 && have != check {
                                fail(format!("read completed but crc32(returned bytes)={have} != declared {check}"));
                            }
                            let data = get_hex(&a, "data").unwrap_or_default();
                            if !ae2 && a.get("fail").is_none() && crc32fast::hash(&data) != check && d.term == "eof" {
                                fail("corrupted data or CRC went undetected".into());
                            }
                            if a.get("fail").is_none() && (ae2 || crc32fast::hash(&data) == check) && (d.term != "eof" || d.out != data) {
                                fail(format!("intact stream not read back: {}", show(d, false)));
                            }
                        }
                        "layers.take" => {
                            let data = get_hex(&a, "data").unwrap_or_default();
                            let lim = (get_u64(&a, "limit").unwrap_or(0) as usize).min(data.len());
                            if d.term == "eof" && d.out != data[..lim] {
                                fail("Take delivered something else than the first `limit` bytes".into());
                            }
                        }
                        "layers.zc" => {
                            if let Some(p) = get_hex(&a, "plain") {
                                if d.term == "eof" && d.out != p {
                                    fail("ZipCrypto reader returned wrong plaintext".into());
                                }
                            }
                        }
                        "layers.entry" => {
                            if d.term == "eof" {
                                if let Some(c) = declared {
                                    let have = crc32fast::hash(&d.out);
                                    if have != c {
                                        fail(format!("read completed but crc32(returned bytes)={have} != declared {c}"));
                                    }
                                }
                            }
                            let stored = a.get("st").map(|s| s == "1").unwrap_or(false);
                            // not a corruption of anything that is returned: a flipped bit among the 11 random bytes
                            // of the ZipCrypto header of an EMPTY entry (the check byte is intact, no payload follows
                            // whose key stream could change): the read completes with the original - empty - content
                            let harmless = a.contains_key("pw") && matches!(dmg, "data" | "multi") && d.out.is_empty() && declared == Some(0);
                            if stored && !harmless && matches!(dmg, "data" | "crc" | "multi" | "swap" | "trunc") && d.term == "eof" {
                                fail(format!("damage ({dmg}) of a stored entry went undetected"));
                            }
                            if dmg == "none" {
                                if let Some(p) = get_hex(&a, "plain") {
                                    if d.term != "eof" || d.out != p {
                                        fail(format!("intact entry not read back: {}", show(d, false)));
                                    }
                                }
                            }
                        }
                        _ => {}
                    }
                }
                (x, y) => {
                    if x != y {
                        fail(format!("result depends on chunking: chunked ({}) vs one-big-buffer run ({})", x.render(), y.render()));
                    }
                }
            }
        }
        "layers.rx" => {
            let rl = reference_line(line);
            let r = exec_line(&rl);
            if e != r {
                fail(format!("read_exact results depend on chunking: ({}) vs ({})", e.render(), r.render()));
            }
        }
        "layers.xentry" => {
            // an intact archive must read the same under every schedule (C09) and soundly (C04).  Under DAMAGE the
            // external decoders may notice the damage at different points for different buffer sizes (a corrupted
            // zstd frame of an empty entry ends cleanly for 1-byte reads and errs for large ones): what the
            // properties ask then is soundness only - no read completes with data whose CRC-32 is not the declared
            // one - which is the second word of the verdict
            let sound = resp.ends_with(" sound");
            let ok = resp == "same sound" || (dmg != "none" && sound && !resp.contains("UNSOUND") && !resp.contains("EOF-NOT-STICKY"));
            if !ok {
                fail(format!("archive-level oracle: {resp}"));
            }
        }
        "layers.write" => {
            let data = get_hex(&a, "data").unwrap_or_default();
            let want = format!("written crc={} size={} same=1", crc32fast::hash(&data), data.len());
            if resp != want {
                fail(format!("writer output depends on chunking or accounts wrong bytes: got `{resp}` want `{want}`"));
            }
        }
        _ => {}
    }
    f
}

fn nontrivial_resp(resp: &str) -> bool {
    resp.starts_with("done:") || resp.starts_with("same") || resp.starts_with("written") || resp.starts_with("rx ")
}

impl Stream for Layers {
    fn name(&self) -> &'static str {
        "layers"
    }
    fn gen(&self, seed: u64, tier: &str) -> GenOut {
        gen_layers(seed, tier)
    }
    fn run(&self, line: &str) -> String {
        run_line(line)
    }
    fn oracle(&self, line: &str, resp: &str) -> Vec<OracleFailure> {
        oracle_line(line, resp)
    }
    fn nontrivial(&self, _line: &str, resp: &str) -> bool {
        nontrivial_resp(resp)
    }
}

impl Stream for Damage {
    fn name(&self) -> &'static str {
        "damage"
    }
    fn gen(&self, seed: u64, tier: &str) -> GenOut {
        gen_damage(seed, tier)
    }
    fn run(&self, line: &str) -> String {
        run_line(line)
    }
    fn oracle(&self, line: &str, resp: &str) -> Vec<OracleFailure> {
        oracle_line(line, resp)
    }
    fn nontrivial(&self, _line: &str, resp: &str) -> bool {
        nontrivial_resp(resp)
    }
}
