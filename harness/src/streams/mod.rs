use crate::prng::Rng;
use std::collections::BTreeMap;

pub mod dos;
pub mod callseq;
pub mod fs;
pub mod spec;
pub mod fault;
pub mod aes;
pub mod layers;
pub mod z64;
pub mod align;
pub mod zc;
pub mod text;
pub mod cp437_table;
pub mod paths;
pub mod clones;
pub mod read;
pub mod write;

#[derive(Default)]
pub struct GenOut {
    pub ops: Vec<String>,
    /// free-form distribution counters (input kinds, sizes, branches)
    pub dist: BTreeMap<String, u64>,
    pub exhaustive: bool,
    pub rule: String,
}

impl GenOut {
    pub fn push(&mut self, kind: &str, op: String) {
        *self.dist.entry(format!("gen.{kind}")).or_insert(0) += 1;
        self.ops.push(op);
    }
}

pub struct OracleFailure {
    pub what: String,
}

pub trait Stream {
    fn name(&self) -> &'static str;
    /// Generate the op lines for this tier.  `corpus` lines (minimised past failures) come first.
    fn gen(&self, seed: u64, tier: &str) -> GenOut;
    /// Run the implementation on one op line and return the canonical response line.
    fn run(&self, line: &str) -> String;
    /// Property oracle evaluated on the implementation alone (no model involved).
    /// Returns descriptions of every violated expectation for this case.
    fn oracle(&self, _line: &str, _resp: &str) -> Vec<OracleFailure> {
        vec![]
    }
    /// Measurements gathered while running (reported in the meta file next to the generator
    /// distribution); called once after all cases ran.
    fn stats(&self) -> Vec<(String, u64)> {
        vec![]
    }
    /// Is this case "non-trivial" for the evidence count (reaches past the first validation)?
    fn nontrivial(&self, _line: &str, resp: &str) -> bool {
        !resp.starts_with("err") && resp != "bad-op"
    }
}

pub fn all() -> Vec<Box<dyn Stream>> {
    vec![
        Box::new(dos::Dos),
        Box::new(fault::Fault),
        Box::new(z64::Z64),
        Box::new(read::ReadStream),
        Box::new(read::EocdWin),
        Box::new(write::WriteStream("write")),
        Box::new(write::WriteStream("append")),
        Box::new(write::WriteStream("rawcopy")),
        Box::new(clones::Clones),
        Box::new(paths::Paths),
        Box::new(text::Text),
        Box::new(zc::Zc),
        Box::new(align::Align),
        Box::new(layers::Layers),
        Box::new(layers::Damage),
        Box::new(aes::Aes),
        Box::new(spec::SpecStream),
        Box::new(fs::FsStream),
        Box::new(callseq::CallSeq),
    ]
}

pub fn rng_for(seed: u64, stream: &str, idx: u64) -> Rng {
    Rng::new(seed, stream, idx)
}
