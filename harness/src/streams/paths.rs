//! C06: `enclosed_name` / `mangled_name` through the public API.
//!
//! `paths.name name=<hex of UTF-8>` → `<some|none> enclosed=<none|comps> mangled=<comps>`; `comps` is `-` for the
//! empty list, otherwise components joined by '/': `R` RootDir, `.` CurDir, `..` ParentDir, `P` Prefix
//! (never on Unix), lower-case hex of the bytes for Normal.
//!
//! Implementation side: a one-entry stored archive carrying the name (UTF-8 flag set) in its local and
//! central header is built by hand, opened with `ZipArchive::new`, `by_index(0)`, then
//! `ZipFile::enclosed_name` / `ZipFile::mangled_name` / `ZipFile::sanitized_name`.  The same bytes are
//! also read through `zip::read::read_zipfile_from_stream` (the streaming `ZipFile`) and through the
//! hook `central_header_to_zip_file` → `ZipFileData::file_name_sanitized`; any difference between the
//! routes is appended to the response (` route-mismatch:…`), which the model never prints.
//! `zip::read::stream::{ZipStreamReader, ZipStreamFileMetadata}` live in a `pub(crate)` module that is
//! not re-exported on the pinned tree, so their two one-line wrappers are unreachable from outside the
//! crate.  `paths.wrappers` therefore pins them textually: it prints the whitespace-stripped bodies of
//! `ZipStreamFileMetadata::{mangled_name, enclosed_name}` read from the source tree (`$ZIP_SRC_DIR`,
//! default /repo/src); the model side prints what it assumes (direct calls of the two modelled
//! `ZipFileData` functions).
use super::{GenOut, OracleFailure, Stream};
use crate::prng::Rng;
use crate::util::*;
use std::ffi::OsStr;
use std::io::Cursor;
use std::os::unix::ffi::OsStrExt;
use std::path::{Component, Path, PathBuf};

pub struct Paths;

fn le16(v: &mut Vec<u8>, x: u16) {
    v.extend_from_slice(&x.to_le_bytes());
}
fn le32(v: &mut Vec<u8>, x: u32) {
    v.extend_from_slice(&x.to_le_bytes());
}

/// Minimal archive: one stored, empty entry named `name` (general-purpose bit 11 = UTF-8).
/// Returns (bytes, offset of the central header).
pub fn archive_with_name(name: &[u8]) -> (Vec<u8>, usize) {
    let n = name.len() as u16;
    let mut v = Vec::with_capacity(98 + 2 * name.len());
    le32(&mut v, 0x04034b50);
    le16(&mut v, 20); // version needed
    le16(&mut v, 0x0800); // flags: UTF-8
    le16(&mut v, 0); // stored
    le16(&mut v, 0); // time
    le16(&mut v, 0x21); // date 1980-01-01
    le32(&mut v, 0); // crc32 of ""
    le32(&mut v, 0); // compressed size
    le32(&mut v, 0); // uncompressed size
    le16(&mut v, n);
    le16(&mut v, 0); // extra
    v.extend_from_slice(name);
    let cd = v.len();
    le32(&mut v, 0x02014b50);
    le16(&mut v, 0x031e); // made by: unix, 3.0
    le16(&mut v, 20);
    le16(&mut v, 0x0800);
    le16(&mut v, 0);
    le16(&mut v, 0);
    le16(&mut v, 0x21);
    le32(&mut v, 0);
    le32(&mut v, 0);
    le32(&mut v, 0);
    le16(&mut v, n);
    le16(&mut v, 0); // extra
    le16(&mut v, 0); // comment
    le16(&mut v, 0); // disk
    le16(&mut v, 0); // internal attributes
    le32(&mut v, 0o100644 << 16); // external attributes
    le32(&mut v, 0); // local header offset
    v.extend_from_slice(name);
    let cd_len = v.len() - cd;
    le32(&mut v, 0x06054b50);
    le16(&mut v, 0);
    le16(&mut v, 0);
    le16(&mut v, 1);
    le16(&mut v, 1);
    le32(&mut v, cd_len as u32);
    le32(&mut v, cd as u32);
    le16(&mut v, 0);
    (v, cd)
}

fn render(p: &Path) -> String {
    let mut out = String::new();
    for c in p.components() {
        if !out.is_empty() {
            out.push('/');
        }
        match c {
            Component::RootDir => out.push('R'),
            Component::CurDir => out.push('.'),
            Component::ParentDir => out.push_str(".."),
            Component::Prefix(_) => out.push('P'),
            Component::Normal(s) => out.push_str(&hex(s.as_bytes())),
        }
    }
    if out.is_empty() {
        out.push('-');
    }
    out
}

fn render_opt(p: Option<&Path>) -> String {
    match p {
        Some(p) => render(p),
        None => "none".into(),
    }
}

const BASE: &str = "/base/dir";

/// Does `BASE.join(p)`, normalised lexically component by component, stay inside BASE at every step
/// of the walk (no step pops `dir` or `base`, nothing replaces the base)?
fn stays_inside(p: &Path) -> bool {
    let joined = Path::new(BASE).join(p);
    let comps: Vec<Component> = joined.components().collect();
    if comps.len() < 3
        || comps[0] != Component::RootDir
        || comps[1] != Component::Normal(OsStr::new("base"))
        || comps[2] != Component::Normal(OsStr::new("dir"))
    {
        return false;
    }
    let mut st: Vec<&OsStr> = vec![OsStr::new("base"), OsStr::new("dir")];
    for c in &comps[3..] {
        match c {
            Component::RootDir | Component::Prefix(_) => return false,
            Component::CurDir => {}
            Component::ParentDir => {
                st.pop();
            }
            Component::Normal(s) => st.push(s),
        }
        if st.len() < 2 {
            return false;
        }
    }
    st[0] == OsStr::new("base") && st[1] == OsStr::new("dir")
}

/// Independent reading of the property's acceptance condition on the raw name.
fn expected_enclosed(name: &str) -> bool {
    if name.contains('\0') || name.starts_with('/') {
        return false;
    }
    let mut d: i64 = 0;
    for seg in name.split('/') {
        match seg {
            "" | "." => {}
            ".." => {
                d -= 1;
                if d < 0 {
                    return false;
                }
            }
            _ => d += 1,
        }
    }
    true
}

/// Independent reading of "ordinary components, in order, of the part before the first NUL".
fn expected_mangled(name: &str) -> Vec<Vec<u8>> {
    let head = name.split('\0').next().unwrap_or("");
    head.split(|c| c == '/' || c == '\\')
        .filter(|s| !s.is_empty() && *s != "." && *s != "..")
        .map(|s| s.as_bytes().to_vec())
        .collect()
}

/// The two accessors through the public API (route 1), as real paths.
fn accessors(name: &[u8]) -> Result<(Option<PathBuf>, PathBuf), String> {
    let (bytes, _) = archive_with_name(name);
    let mut ar = zip::ZipArchive::new(Cursor::new(&bytes[..])).map_err(|e| zerr_class(&e))?;
    let f = ar.by_index(0).map_err(|e| zerr_class(&e))?;
    let e = f.enclosed_name().map(|p| p.to_path_buf());
    let m = f.mangled_name();
    Ok((e, m))
}

/// Whitespace-stripped body of `pub fn <name>(&self)` inside `impl <ty>` of a source file.
fn fn_body(src: &str, ty: &str, name: &str) -> Option<String> {
    let at = src.find(&format!("impl {ty} {{"))?;
    let rest = &src[at..];
    let f = rest.find(&format!("pub fn {name}(&self)"))?;
    let rest = &rest[f..];
    let open = rest.find('{')?;
    let mut depth = 0i32;
    for (i, c) in rest[open..].char_indices() {
        match c {
            '{' => depth += 1,
            '}' => {
                depth -= 1;
                if depth == 0 {
                    let body: String = rest[open + 1..open + i].chars().filter(|c| !c.is_whitespace()).collect();
                    return Some(body);
                }
            }
            _ => {}
        }
    }
    None
}

const KINDS: [&str; 4] = ["a", ".", "..", ""];
const SEPS: [char; 2] = ['/', '\\'];

/// The property's enumeration without NUL: every string that is `[sep] c1 sep c2 … sep ck [sep]` with
/// k ≤ 6, ci ∈ {"a", ".", "..", ""}, every sep ∈ {'/', '\\'}.  Such a string is uniquely a sequence of
/// T ≥ 1 tokens separated by T-1 separators, with T ≤ 6, or T = 7 with an empty first or last token,
/// or T = 8 with both empty — generated without duplicates in that form.
fn enumerate(mut f: impl FnMut(&str)) {
    let mut s = String::new();
    for t in 1..=8usize {
        let ncomb = 4usize.pow(t as u32);
        let nsep = 1usize << (t - 1);
        for ci in 0..ncomb {
            let kind = |i: usize| (ci >> (2 * i)) & 3;
            let first_empty = kind(0) == 3;
            let last_empty = kind(t - 1) == 3;
            if t == 7 && !(first_empty || last_empty) {
                continue;
            }
            if t == 8 && !(first_empty && last_empty) {
                continue;
            }
            for si in 0..nsep {
                s.clear();
                for i in 0..t {
                    if i > 0 {
                        s.push(SEPS[(si >> (i - 1)) & 1]);
                    }
                    s.push_str(KINDS[kind(i)]);
                }
                f(&s);
            }
        }
    }
}

fn sample_enum(r: &mut Rng) -> String {
    // inner components k ≤ 6, optional leading / trailing separator, optional NUL
    let k = if r.chance(1, 2) { r.range(4, 6) } else { r.range(0, 6) } as usize;
    let mut s = String::new();
    if r.chance(1, 3) {
        s.push(*r.pick(&SEPS));
    }
    for i in 0..k {
        if i > 0 {
            s.push(*r.pick(&SEPS));
        }
        s.push_str(KINDS[r.below(4) as usize]);
    }
    if r.chance(1, 3) {
        s.push(*r.pick(&SEPS));
    }
    if r.chance(1, 3) {
        let pos = r.below(s.len() as u64 + 1) as usize;
        s.insert(pos, '\0');
    }
    s
}

const SPECIAL: [char; 28] = [
    '/', '/', '/', '\\', '.', '.', '.', '\0', ' ', '\t', '\n', '\r', '\u{1}', '\u{7f}', '\u{85}', ':', '~', 'C',
    '\u{2215}', '\u{ff0f}', '\u{2024}', '\u{ff0e}', '\u{202e}', '\u{feff}', '\u{2028}', '\u{e9}', '\u{10ffff}', '\u{1f600}',
];

fn random_char(r: &mut Rng) -> char {
    match r.below(10) {
        0..=3 => *r.pick(&SPECIAL),
        4..=5 => (b'a' + r.below(26) as u8) as char,
        6 => char::from_u32(r.below(0x80) as u32).unwrap(),
        7 => char::from_u32(0x80 + r.below(0x780) as u32).unwrap(),
        8 => loop {
            if let Some(c) = char::from_u32(0x800 + r.below(0xf800) as u32) {
                break c;
            }
        },
        _ => char::from_u32(0x10000 + r.below(0x100000) as u32).unwrap(),
    }
}

fn random_name(r: &mut Rng, max_bytes: usize) -> String {
    let mut s = String::new();
    // segment-structured: runs of characters separated by separators, so that components are long too
    let dense = r.chance(1, 2);
    loop {
        let c = if dense && r.chance(2, 3) { (b'a' + r.below(26) as u8) as char } else { random_char(r) };
        if s.len() + c.len_utf8() > max_bytes {
            break;
        }
        s.push(c);
    }
    s
}

const FIXED: [&str; 44] = [
    "", ".", "./", "./.", "a/.", "//a", "a//b", "/", "..", "a/..", "a/../b", "a/../../b", "../a", "/a", "/..", "/.",
    "a", "a/b", "a/b/", "a\\b", "..\\..\\a", "\\a", "\\..\\a", "a/./b", "./a", "./../a", ".a", "..a", "a.", "...", ". ",
    "a/\0", "\0", "a\0/../..", "../\0", "/\0", "C:\\a", "C:/a", "//?/C:/a", "a/b/../../..", "a/b/../..", ".//", "/./a", "a/.././../b",
];

impl Stream for Paths {
    fn name(&self) -> &'static str {
        "paths"
    }

    fn gen(&self, seed: u64, tier: &str) -> GenOut {
        let mut g = GenOut::default();
        g.rule = "paths.name: fixed boundary names; thorough = EXHAUSTIVE every name `[sep] c1 sep … sep ck [sep]`, k<=6, \
                  ci in {a . .. empty}, sep in {/ \\}, without NUL and with one NUL inserted at every position; quick = 20000 \
                  sampled from that space; both = random Unicode/control/separator-rich names (2000 quick, 100000 thorough), \
                  lengths up to 65535 bytes. distinct = distinct op lines; non-trivial = enclosed is Some or mangled non-empty"
            .into();
        let mut r = super::rng_for(seed, "paths", 0);
        let op = |s: &str| format!("paths.name name={}", hex(s.as_bytes()));
        g.push("wrappers", "paths.wrappers".to_string());
        for s in FIXED.iter() {
            g.push("fixed", op(s));
        }
        if tier == "thorough" {
            g.exhaustive = true;
            let mut ops: Vec<(bool, String)> = vec![];
            enumerate(|s| {
                ops.push((false, op(s)));
                let mut t = String::with_capacity(s.len() + 1);
                for pos in 0..=s.len() {
                    t.clear();
                    t.push_str(&s[..pos]);
                    t.push('\0');
                    t.push_str(&s[pos..]);
                    ops.push((true, op(&t)));
                }
            });
            for (nul, o) in ops {
                g.push(if nul { "enum.nul" } else { "enum.plain" }, o);
            }
        } else {
            for _ in 0..20_000 {
                let s = sample_enum(&mut r);
                g.push("enum.sampled", op(&s));
            }
        }
        let n_rand = if tier == "thorough" { 100_000 } else { 2_000 };
        for i in 0..n_rand {
            let max = match i % 200 {
                0 => 65535,
                1 => r.range(4096, 65535) as usize,
                2..=20 => r.range(64, 1024) as usize,
                _ => r.range(1, 48) as usize,
            };
            let s = random_name(&mut r, max);
            g.push(if max > 4096 { "random.long" } else { "random" }, op(&s));
        }
        g
    }

    fn run(&self, line: &str) -> String {
        let (op, a) = parse_line(line);
        match op.as_str() {
            "paths.name" => {
                let name = match get_hex(&a, "name") {
                    Some(n) if n.len() <= 65535 => n,
                    _ => return "bad-op".into(),
                };
                if std::str::from_utf8(&name).is_err() {
                    return "bad-utf8".into();
                }
                let r = catch(move || {
                    let (bytes, cd) = archive_with_name(&name);
                    // route 1: ZipArchive (public API)
                    let mut ar = match zip::ZipArchive::new(Cursor::new(&bytes[..])) {
                        Ok(a) => a,
                        Err(e) => return zerr_class(&e),
                    };
                    let f = match ar.by_index(0) {
                        Ok(f) => f,
                        Err(e) => return zerr_class(&e),
                    };
                    let enc = render_opt(f.enclosed_name());
                    let man = render(&f.mangled_name());
                    let mut out = format!("{} enclosed={enc} mangled={man}", if enc == "none" { "none" } else { "some" });
                    #[allow(deprecated)]
                    let san = render(&f.sanitized_name());
                    if san != man {
                        out.push_str(&format!(" route-mismatch:sanitized_name={san}"));
                    }
                    drop(f);
                    // route 2: streaming ZipFile
                    let mut cur = Cursor::new(&bytes[..]);
                    match zip::read::read_zipfile_from_stream(&mut cur) {
                        Ok(Some(f2)) => {
                            let (e2, m2) = (render_opt(f2.enclosed_name()), render(&f2.mangled_name()));
                            if e2 != enc || m2 != man {
                                out.push_str(&format!(" route-mismatch:stream enclosed={e2} mangled={m2}"));
                            }
                        }
                        Ok(None) => out.push_str(" route-mismatch:stream none"),
                        Err(e) => out.push_str(&format!(" route-mismatch:stream {}", zerr_class(&e))),
                    }
                    // route 3: central header parser → ZipFileData::file_name_sanitized
                    let mut cur = Cursor::new(&bytes[..]);
                    cur.set_position(cd as u64);
                    match zip::verif_hooks::central_header_to_zip_file(&mut cur, 0) {
                        Ok(d) => {
                            let m3 = render(&d.file_name_sanitized());
                            if m3 != man {
                                out.push_str(&format!(" route-mismatch:data mangled={m3}"));
                            }
                        }
                        Err(e) => out.push_str(&format!(" route-mismatch:data {}", zerr_class(&e))),
                    }
                    out
                });
                r.unwrap_or_else(|_| "panic".into())
            }
            "paths.wrappers" => {
                let dir = std::env::var("ZIP_SRC_DIR").unwrap_or_else(|_| "/repo/src".into());
                let src = match std::fs::read_to_string(format!("{dir}/read/stream.rs")) {
                    Ok(s) => s,
                    Err(_) => return "err io:other".into(),
                };
                let b = |n: &str| fn_body(&src, "ZipStreamFileMetadata", n).unwrap_or_else(|| "?".into());
                format!("wrappers mangled={} enclosed={}", b("mangled_name"), b("enclosed_name"))
            }
            _ => "bad-op".into(),
        }
    }

    fn oracle(&self, line: &str, resp: &str) -> Vec<OracleFailure> {
        let mut fails = vec![];
        let mut fail = |w: String| fails.push(OracleFailure { what: w });
        let (op, a) = parse_line(line);
        if op == "paths.wrappers" {
            if resp != "wrappers mangled=self.0.file_name_sanitized() enclosed=self.0.enclosed_name()" {
                fail(format!("ZipStreamFileMetadata accessors no longer delegate to the verified functions: {resp}"));
            }
            return fails;
        }
        if op != "paths.name" {
            return fails;
        }
        let name = match get_hex(&a, "name").and_then(|n| String::from_utf8(n).ok()) {
            Some(n) => n,
            None => return fails,
        };
        if resp.contains("route-mismatch") || !(resp.starts_with("some ") || resp.starts_with("none ")) {
            fail(format!("accessors did not both return / routes differ: {}", &resp[..resp.len().min(200)]));
            return fails;
        }
        let nb = name.as_bytes().to_vec();
        let (enc, man) = match catch(move || accessors(&nb)) {
            Ok(Ok(x)) => x,
            _ => {
                fail("accessors failed when re-run by the oracle".into());
                return fails;
            }
        };
        if format!("{} enclosed={} mangled={}", if enc.is_some() { "some" } else { "none" }, render_opt(enc.as_deref()), render(&man)) != resp {
            fail("accessors are not deterministic".into());
        }
        // --- enclosed_name
        let want = expected_enclosed(&name);
        if enc.is_some() != want {
            fail(format!("enclosed_name returned {} but the name is {}", if enc.is_none() { "None" } else { "Some" },
                if want { "relative, NUL-free and never climbs" } else { "absolute, contains NUL or climbs above its start" }));
        }
        if let Some(p) = &enc {
            if p.as_os_str() != OsStr::new(&name) {
                fail("enclosed_name returned a path different from the name".into());
            }
            if p.as_os_str().as_bytes().contains(&0) {
                fail("enclosed path contains NUL".into());
            }
            if p.is_absolute() || p.has_root() {
                fail("enclosed path is absolute".into());
            }
            if !stays_inside(p) {
                fail(format!("{BASE}.join(enclosed path) leaves {BASE} lexically"));
            }
        }
        // --- mangled_name
        let mut comps: Vec<Vec<u8>> = vec![];
        for c in man.components() {
            match c {
                Component::Normal(s) => {
                    let b = s.as_bytes();
                    if b.is_empty() || b == b"." || b == b".." || b.contains(&b'/') || b.contains(&0) {
                        fail(format!("mangled component {} is not an ordinary file name", hex(b)));
                    }
                    comps.push(b.to_vec());
                }
                other => fail(format!("mangled_name has a non-Normal component {other:?}")),
            }
        }
        if comps != expected_mangled(&name) {
            fail("mangled components are not the ordinary components before the first NUL, in order".into());
        }
        if man.is_absolute() || man.has_root() {
            fail("mangled path is absolute".into());
        }
        if man.as_os_str().as_bytes().contains(&0) {
            fail("mangled path contains NUL".into());
        }
        if !stays_inside(&man) {
            fail(format!("{BASE}.join(mangled path) leaves {BASE} lexically"));
        }
        fails
    }

    fn nontrivial(&self, _line: &str, resp: &str) -> bool {
        resp.starts_with("some ") || resp.starts_with("wrappers ") || (resp.starts_with("none ") && !resp.ends_with("mangled=-"))
    }
}
