//! `read.*`: the seekable and the streaming reader over byte strings, and `ZipWriter::new_append` on
//! the same bytes — C03 (foreign well-formed archives), C05 (untrusted bytes never panic, hang or
//! exhaust memory: outcome classes by correspondence, wall time and peak heap MEASURED by the oracle
//! with the counting allocator of `crate::mem`), the read half of C01.
use super::{GenOut, OracleFailure, Stream};
use crate::mkzip::{self, Desc, Entry, Layout};
use crate::prng::Rng;
use crate::util::*;
use std::io::{Cursor, Read};

pub struct ReadStream;

pub fn cls_z(e: &zip::result::ZipError) -> String {
    zerr_class(e).replace(' ', ":")
}
pub fn cls_io(e: &std::io::Error) -> String {
    ioerr_class(e).replace(' ', ":")
}

/// Decode `raw` with the codec library directly (not through the crate).
pub fn direct_decode(method: u16, raw: &[u8]) -> Result<Vec<u8>, std::io::Error> {
    let mut out = vec![];
    match method {
        8 => {
            flate2::read::DeflateDecoder::new(raw).read_to_end(&mut out)?;
        }
        12 => {
            bzip2::read::BzDecoder::new(raw).read_to_end(&mut out)?;
        }
        93 => {
            zstd::stream::read::Decoder::new(raw)?.read_to_end(&mut out)?;
        }
        _ => return Err(std::io::Error::new(std::io::ErrorKind::Other, "no codec")),
    }
    Ok(out)
}

pub fn method_u16(m: zip::CompressionMethod) -> u16 {
    #[allow(deprecated)]
    m.to_u16()
}

fn show_meta(f: &zip::read::ZipFile) -> String {
    let t = f.last_modified();
    let (a, b) = f.version_made_by();
    format!(
        "name={} raw={} m={} t={}-{}-{}-{}-{}-{} crc={} cs={} us={} mode={} extra={} comment={} vmb={}",
        hex(f.name().as_bytes()),
        hex(f.name_raw()),
        method_u16(f.compression()),
        t.year(), t.month(), t.day(), t.hour(), t.minute(), t.second(),
        f.crc32(),
        f.compressed_size(),
        f.size(),
        f.unix_mode().map(|m| m.to_string()).unwrap_or_else(|| "none".into()),
        hex(f.extra_data()),
        hex(f.comment().as_bytes()),
        a as u32 * 10 + b as u32
    )
}

thread_local! { static READ_API: std::cell::Cell<u32> = std::cell::Cell::new(0); }

/// Read to end-of-file through one of several consumer APIs (chosen round-robin per case, reset by
/// `reset_read_api` at the start of every op so that a line replays identically).
fn read_all(f: &mut impl Read) -> String {
    let which = READ_API.with(|c| { let v = c.get(); c.set(v + 1); v % 4 });
    let mut buf = vec![];
    let r: std::io::Result<()> = match which {
        0 => f.read_to_end(&mut buf).map(|_| ()),
        1 => { let mut b = [0u8; 7]; loop { match f.read(&mut b) { Ok(0) => break Ok(()), Ok(n) => buf.extend_from_slice(&b[..n]), Err(e) => break Err(e) } } }
        2 => std::io::copy(f, &mut buf).map(|_| ()),
        _ => { let mut b = vec![0u8; 65536]; loop { match f.read(&mut b) { Ok(0) => break Ok(()), Ok(n) => buf.extend_from_slice(&b[..n]), Err(e) => break Err(e) } } }
    };
    // a consumer may call `read` again after the end or after an error (`BufReader`, retry loops): the call must
    // come back (a panic here is caught by the caller's `catch` and reported), and after a clean end it must keep
    // saying end-of-file
    let mut b = [0u8; 7];
    let again = f.read(&mut b);
    match r {
        Ok(()) => match again {
            Ok(0) => format!("ok:{}:{}", crc32fast::hash(&buf), buf.len()),
            Ok(n) => format!("ok:{}:{}:then-{n}-more-bytes-after-eof", crc32fast::hash(&buf), buf.len()),
            Err(e) => format!("ok:{}:{}:then-{}-after-eof", crc32fast::hash(&buf), buf.len(), cls_io(&e)),
        },
        Err(e) => cls_io(&e),
    }
}
pub fn reset_read_api(seed: u32) { READ_API.with(|c| c.set(seed)); }

/// Build the codec table the model needs: every distinct (method, raw bytes) the implementation's
/// raw view exposes, decoded by the codec library directly.
pub fn codec_table(bytes: &[u8]) -> String {
    let mut rows: Vec<String> = vec![];
    let r = catch({
        let bytes = bytes.to_vec();
        move || {
            let mut rows = vec![];
            if let Ok(mut a) = zip::ZipArchive::new(Cursor::new(bytes)) {
                for i in 0..a.len().min(64) {
                    if let Ok(mut f) = a.by_index_raw(i) {
                        let m = method_u16(f.compression());
                        if m == 8 || m == 12 || m == 93 {
                            let mut raw = vec![];
                            if f.read_to_end(&mut raw).is_ok() {
                                rows.push((m, raw));
                            }
                        }
                    }
                }
            }
            rows
        }
    });
    // the streaming reader's view: data starts where the reader stands when visit_file is called
    let r2 = catch({
        let bytes = bytes.to_vec();
        move || {
            struct Pos<'a> { inner: Cursor<&'a [u8]>, pos: std::rc::Rc<std::cell::Cell<u64>> }
            impl<'a> Read for Pos<'a> {
                fn read(&mut self, buf: &mut [u8]) -> std::io::Result<usize> {
                    let n = self.inner.read(buf)?;
                    self.pos.set(self.pos.get() + n as u64);
                    Ok(n)
                }
            }
            struct C<'a> { pos: std::rc::Rc<std::cell::Cell<u64>>, bytes: &'a [u8], rows: Vec<(u16, Vec<u8>)> }
            impl<'a> zip::unstable::stream::ZipStreamVisitor for C<'a> {
                fn visit_file(&mut self, f: &mut zip::read::ZipFile<'_>) -> zip::result::ZipResult<()> {
                    let m = method_u16(f.compression());
                    if m == 8 || m == 12 || m == 93 {
                        let st = self.pos.get() as usize;
                        let en = (st as u64).saturating_add(f.compressed_size()).min(self.bytes.len() as u64) as usize;
                        if st <= en { self.rows.push((m, self.bytes[st..en].to_vec())); }
                    }
                    Ok(())
                }
                fn visit_additional_metadata(&mut self, _m: &zip::unstable::stream::ZipStreamFileMetadata) -> zip::result::ZipResult<()> { Ok(()) }
            }
            let pos = std::rc::Rc::new(std::cell::Cell::new(0u64));
            let mut c = C { pos: pos.clone(), bytes: &bytes, rows: vec![] };
            let _ = zip::unstable::stream::ZipStreamReader::new(Pos { inner: Cursor::new(&bytes[..]), pos }).visit(&mut c);
            c.rows
        }
    });
    let mut all = r.unwrap_or_default();
    all.extend(r2.unwrap_or_default());
    {
        for (m, raw) in all {
            let c = crc32fast::hash(&raw);
            let row = match catch({
                let raw = raw.clone();
                move || direct_decode(m, &raw)
            }) {
                Ok(Ok(d)) => format!("{m}:{c}:{}:ok:{}", raw.len(), hex(&d)),
                Ok(Err(e)) => format!("{m}:{c}:{}:err:{}", raw.len(), cls_io(&e).trim_start_matches("err:")),
                Err(_) => format!("{m}:{c}:{}:err:io:other", raw.len()),
            };
            if !rows.contains(&row) {
                rows.push(row);
            }
        }
    }
    if rows.is_empty() { "-".into() } else { rows.join(";") }
}

/// One row of the codec table: `raw` decoded by the codec library directly.
pub fn codec_row_for(m: u16, raw: &[u8]) -> String {
    let c = crc32fast::hash(raw);
    match catch({
        let raw = raw.to_vec();
        move || direct_decode(m, &raw)
    }) {
        Ok(Ok(d)) => format!("{m}:{c}:{}:ok:{}", raw.len(), hex(&d)),
        Ok(Err(e)) => format!("{m}:{c}:{}:err:{}", raw.len(), cls_io(&e).trim_start_matches("err:")),
        Err(_) => format!("{m}:{c}:{}:err:io:other", raw.len()),
    }
}

/// The central directory as the crate parses it (through the hooks): what `ZipArchive::new` stores per entry,
/// including the fields no accessor shows (`aes_mode`, `using_data_descriptor`).  Empty when the open fails.
pub fn directory_entries(bytes: &[u8]) -> Vec<zip::verif_hooks::ZipFileData> {
    let b = bytes.to_vec();
    catch(move || {
        use std::io::Seek;
        let mut c = Cursor::new(&b[..]);
        let mut out = vec![];
        let (footer, cde) = match zip::verif_hooks::CentralDirectoryEnd::find_and_parse(&mut c) { Ok(x) => x, Err(_) => return out };
        let (off, ds, n) = match zip::verif_hooks::get_directory_counts(&mut c, &footer, cde) { Ok(x) => x, Err(_) => return out };
        if c.seek(std::io::SeekFrom::Start(ds)).is_err() { return out; }
        for _ in 0..n.min(64) {
            match zip::verif_hooks::central_header_to_zip_file(&mut c, off) { Ok(f) => out.push(f), Err(_) => break }
        }
        out
    })
    .unwrap_or_default()
}

/// What the MODEL needs to answer a password-carrying `read.seek` (the cryptographic primitives are uninterpreted
/// in `Model/Aes.lean`; the driver instantiates them with look-ups into these rows, computed here with the
/// RustCrypto crates directly; ZipCrypto is computed by the model itself): for every entry with the encryption
/// flag and an AES record, `salt:dk:ks:mlen:mh:mac` = the salt found in the data, PBKDF2(pw, salt) of 2k+2 bytes,
/// the key stream for the ciphertext that is there, length / FNV-1a of the ciphertext and its HMAC-SHA1.  Second
/// component: codec rows for the DECRYPTED streams of compressing methods (independent decryption: PKWARE cipher
/// of `crate::pkware`, AES-CTR key stream above) wherever the password check passes.
pub fn crypto_tables(bytes: &[u8], pw: &[u8]) -> (String, Vec<String>, bool) {
    use super::aes::{fnv64, hmac_sha1, kdf, keystream};
    let entries = directory_entries(bytes);
    let raws: Vec<Option<Vec<u8>>> = {
        let b = bytes.to_vec();
        let n = entries.len();
        catch(move || {
            let mut v = vec![];
            if let Ok(mut a) = zip::ZipArchive::new(Cursor::new(b)) {
                for i in 0..a.len().min(n) {
                    v.push(a.by_index_raw(i).ok().and_then(|mut f| { let mut raw = vec![]; f.read_to_end(&mut raw).ok().map(|_| raw) }));
                }
            }
            v
        })
        .unwrap_or_default()
    };
    let mut rows: Vec<String> = vec![];
    let mut codec: Vec<String> = vec![];
    // a truncated AES payload under a compressing inner method whose password verifier passes: the decoder sees
    // the decrypted PREFIX before the AES layer reports the missing bytes, and its verdict on that prefix may come
    // first; the model decrypts the whole entry before decoding (`Ext.aes` returns the stream or its error)
    let mut incremental = false;
    let hx = |b: &[u8]| if b.is_empty() { "-".to_string() } else { hex(b) };
    for (f, raw) in entries.iter().zip(raws.iter()) {
        let raw = match raw { Some(r) => r, None => continue };
        if !f.encrypted { continue; }
        let m = method_u16(f.compression_method);
        let compressing = m == 8 || m == 12 || m == 93;
        match f.aes_mode {
            Some((mode, _)) => {
                let k = match mode { zip::verif_hooks::AesMode::Aes128 => 16usize, zip::verif_hooks::AesMode::Aes192 => 24, zip::verif_hooks::AesMode::Aes256 => 32 };
                let sl = k / 2;
                if raw.len() < sl { continue; }
                let salt = &raw[..sl];
                let dk = kdf(pw, salt, 2 * k + 2);
                let dl = match f.compressed_size.checked_sub(sl as u64 + 12) { Some(d) => d, None => continue };
                let body = if raw.len() >= sl + 2 { &raw[sl + 2..] } else { &raw[raw.len()..] };
                let ct = &body[..(dl.min(body.len() as u64)) as usize];
                let ks = keystream(&dk[..k], (ct.len() + 15) / 16 + 1);
                let complete = ct.len() as u64 == dl;
                let mac = if complete { hmac_sha1(&dk[k..2 * k], ct) } else { vec![] };
                let row = format!("{}:{}:{}:{}:{}:{}", hx(salt), hx(&dk), hx(&ks), ct.len(), fnv64(ct), hx(&mac));
                if !rows.contains(&row) { rows.push(row); }
                let verified = raw.len() >= sl + 2 && raw[sl..sl + 2] == dk[2 * k..];
                if compressing && verified && !complete && !ct.is_empty() { incremental = true; }
                if compressing && complete && verified {
                    let pt: Vec<u8> = ct.iter().zip(ks.iter()).map(|(a, b)| a ^ b).collect();
                    codec.push(codec_row_for(m, &pt));
                }
            }
            None => {
                if raw.len() < 12 || !compressing { continue; }
                let plain = crate::pkware::Keys::new(pw).decrypt(raw);
                let check = if f.using_data_descriptor { (f.last_modified_time.timepart() >> 8) as u8 } else { (f.crc32 >> 24) as u8 };
                if plain[11] == check { codec.push(codec_row_for(m, &plain[12..])); }
            }
        }
    }
    (if rows.is_empty() { "-".into() } else { rows.join(";") }, codec, incremental)
}

/// Does some entry of `bytes` decode differently under the four consumer APIs of `read_all`?  Real decoders are
/// schedule dependent on DAMAGED streams (a zstd frame whose declared content size was altered ends quietly
/// through small buffers and reports "Data corruption detected" through large ones), while the model's decoder
/// is a table raw bytes -> outcome.  Such cases are left out of the correspondence (counted in `dist`); what a
/// completed read may return on damaged data is C04's subject.
pub fn schedule_dependent(bytes: &[u8]) -> bool { schedule_dependent_pw(bytes, None) }

/// The same when every entry is opened with a password (decrypted garbage reaches the decoders).
pub fn schedule_dependent_pw(bytes: &[u8], pw: Option<&[u8]>) -> bool {
    let b = bytes.to_vec();
    let pw = pw.map(|p| p.to_vec());
    catch(move || {
        let mut a = match zip::ZipArchive::new(Cursor::new(b)) { Ok(a) => a, Err(_) => return false };
        for i in 0..a.len().min(64) {
            let mut seen: Option<String> = None;
            for api in 0..4u32 {
                reset_read_api(api);
                let opened = match &pw { Some(p) => a.by_index_decrypt(i, p), None => a.by_index(i).map(Ok) };
                let r = match opened { Ok(Ok(mut f)) => read_all(&mut f), _ => break };
                match &seen { None => seen = Some(r), Some(s) => if *s != r { return true; } }
            }
        }
        false
    }).unwrap_or(false)
}

pub fn run_seek(bytes: Vec<u8>, pw: Option<Vec<u8>>) -> String {
    reset_read_api(bytes.len() as u32);
    let r = catch(move || {
        let mut a = match zip::ZipArchive::new(Cursor::new(bytes)) {
            Ok(a) => a,
            Err(e) => return format!("open={}", cls_z(&e)),
        };
        let mut s = format!("open=ok n={} off={} comment={}", a.len(), a.offset(), hex(a.comment()));
        for i in 0..a.len() {
            // metadata through the raw handle (never needs a password); it is observable only when
            // `find_content` succeeds
            let first = match a.by_index_raw(i) {
                Ok(mut f) => Ok((show_meta(&f), f.header_start(), f.central_header_start(), read_all(&mut f), f.name().to_string())),
                Err(e) => Err(cls_z(&e)),
            };
            let dec = {
                let r = match &pw {
                    Some(p) => a.by_index_decrypt(i, p),
                    None => a.by_index(i).map(Ok),
                };
                match r {
                    Err(e) => cls_z(&e),
                    Ok(Err(_)) => "invalidpw".into(),
                    Ok(Ok(mut f)) => format!("ds={} {}", f.data_start(), read_all(&mut f)),
                }
            };
            match first {
                Ok((meta, hs, chs, rawread, name)) => {
                    let byname = match a.by_name(&name) {
                        Ok(f) => f.central_header_start().to_string(),
                        Err(e) => cls_z(&e),
                    };
                    s += &format!(" | {i} {meta} hs={hs} chs={chs} rawread={rawread} dec={dec} byname={byname}");
                }
                Err(e) => {
                    s += &format!(" | {i} nometa rawread={e} dec={dec}");
                }
            }
        }
        s
    });
    r.unwrap_or_else(|m| format!("open=panic:{}", m.replace(' ', "_")))
}

struct V {
    out: String,
    files: usize,
    metas: usize,
}
impl zip::unstable::stream::ZipStreamVisitor for V {
    fn visit_file(&mut self, f: &mut zip::read::ZipFile<'_>) -> zip::result::ZipResult<()> {
        self.files += 1;
        let meta = show_meta(f);
        let dec = read_all(f);
        self.out += &format!(" | file {meta} dec={dec}");
        Ok(())
    }
    fn visit_additional_metadata(&mut self, m: &zip::unstable::stream::ZipStreamFileMetadata) -> zip::result::ZipResult<()> {
        self.metas += 1;
        self.out += &format!(
            " | meta name={} raw={} mode={} comment={}",
            hex(m.name().as_bytes()),
            hex(m.name_raw()),
            m.unix_mode().map(|m| m.to_string()).unwrap_or_else(|| "none".into()),
            hex(m.comment().as_bytes())
        );
        Ok(())
    }
}

pub fn run_stream(bytes: Vec<u8>) -> String {
    reset_read_api(bytes.len() as u32 + 1);
    let r = catch(move || {
        let mut v = V { out: String::new(), files: 0, metas: 0 };
        match zip::unstable::stream::ZipStreamReader::new(Cursor::new(bytes)).visit(&mut v) {
            Ok(()) => format!("visit=ok files={} metas={}{}", v.files, v.metas, v.out),
            Err(e) => format!("visit={}", cls_z(&e)),
        }
    });
    r.unwrap_or_else(|m| format!("visit=panic:{}", m.replace(' ', "_")))
}

/// `(archive_offset, directory_start, number_of_files)` as `new_append` computes them (crate hooks).
pub fn directory_counts(bytes: &[u8]) -> Option<(u64, u64, usize)> {
    let b = bytes.to_vec();
    catch(move || {
        let mut c = Cursor::new(&b[..]);
        let (footer, cde) = zip::verif_hooks::CentralDirectoryEnd::find_and_parse(&mut c).ok()?;
        zip::verif_hooks::get_directory_counts(&mut c, &footer, cde).ok()
    })
    .ok()
    .flatten()
}

/// `ZipWriter::new_append` on untrusted bytes → `append=<error class>` | `append=ok n=<declared =
/// parsed entries> ds=<directory start>` followed by the outcome of `finish()` (which rewrites the
/// central directory from what was parsed: the final bytes show every entry `new_append` kept).
/// Hard guard: `finish` is NOT run when the directory start (= the writer's position) lies more than
/// 1 MiB beyond the end of the input (`fin=skipped`): it would zero-fill up to that offset (before
/// the D16 fix a 98-byte input could demand 4 GiB, a `capacity overflow` panic or an allocation
/// abort).  Since D16 `new_append` rejects such archives; should that regress, the oracle reports
/// the case instead of executing it.
pub fn run_append(bytes: Vec<u8>) -> String {
    let len = bytes.len() as u64;
    let counts = directory_counts(&bytes);
    let r = catch(move || {
        let mut w = match zip::ZipWriter::new_append(Cursor::new(bytes)) {
            Ok(w) => w,
            Err(e) => return format!("append={}", cls_z(&e)),
        };
        let (n, ds) = match counts {
            Some((_, ds, n)) => (n, ds),
            None => {
                std::mem::forget(w);
                return "append=ok n=? ds=?".into();
            }
        };
        let head = format!("append=ok n={n} ds={ds}");
        if ds > len + (1 << 20) {
            std::mem::forget(w); // Drop would run finalize and write at `ds`
            return format!("{head} fin=skipped");
        }
        let fin = catch(std::panic::AssertUnwindSafe(|| w.finish()));
        match fin {
            Ok(Ok(c)) => {
                let b = c.into_inner();
                format!("{head} fin=ok final=crc:{}:{}", crc32fast::hash(&b), b.len())
            }
            Ok(Err(e)) => {
                std::mem::forget(w); // Drop would run finalize a second time
                format!("{head} fin={}", cls_z(&e))
            }
            Err(_) => {
                std::mem::forget(w);
                format!("{head} fin=panic")
            }
        }
    });
    r.unwrap_or_else(|m| format!("append=panic:{}", m.replace(' ', "_")))
}

/// `ZipArchive::new` only (the op whose peak heap the oracle measures on large liars).
pub fn run_mem(bytes: Vec<u8>) -> String {
    let r = catch(move || match zip::ZipArchive::new(Cursor::new(bytes)) {
        Ok(a) => format!("open=ok n={}", a.len()),
        Err(e) => format!("open={}", cls_z(&e)),
    });
    r.unwrap_or_else(|m| format!("open=panic:{}", m.replace(' ', "_")))
}

// ------------------------------------------------------------------------------------------
// resource measurements (C05: measured, not proved)

/// Bytes one pre-allocated slot costs: a `ZipFileData` in `files` plus a `(String, usize)` bucket of
/// `names_map` (hashbrown: buckets = next power of two of 8/7·capacity, 32 bytes + one control byte each,
/// i.e. at most ~75 bytes per requested element).  Reported in the evidence, not part of the budget.
pub fn slot_bytes() -> usize {
    std::mem::size_of::<zip::verif_hooks::ZipFileData>() + 75
}

/// Heap bytes allowed per input byte while opening.  Every central header occupies at least 46 input
/// bytes, so an opener that reserves at most one slot per header that FITS (Lean: `open_prealloc_bound`,
/// `capacity * 46 <= cde_start_pos - directory_start`) costs `slot_bytes()/46` = 5.5 bytes per input
/// byte in its worst case (measured maximum: see `mem.max_peak_per_input_byte_x100` in the evidence);
/// a vector that grows by doubling instead stays below twice that.  16 leaves a margin of almost 3 and
/// is still a "modest multiple": the unrepaired guard (`count <= cde_start_pos`) cost 242 bytes per
/// input byte and fails this budget for every liar longer than ~4.7 kB.
pub const MEM_K: usize = 16;

/// Budget for the peak heap while opening `len` input bytes: `MEM_K·len + 1 MiB`.
pub fn mem_budget(len: usize) -> usize {
    MEM_K * len + (1 << 20)
}

/// Inputs shorter than this are dominated by the constant part (response strings, 64 KiB read buffers): the
/// reported heap-bytes-per-input-byte maximum is taken over longer inputs only.
pub const RATIO_MIN_LEN: usize = 40000;

pub const TIME_LIMIT_US: u128 = 2_000_000;

static MAX_PEAK: std::sync::atomic::AtomicU64 = std::sync::atomic::AtomicU64::new(0);
static MAX_RATIO_X100: std::sync::atomic::AtomicU64 = std::sync::atomic::AtomicU64::new(0);
static MAX_US: std::sync::atomic::AtomicU64 = std::sync::atomic::AtomicU64::new(0);
static MEASURED: std::sync::atomic::AtomicU64 = std::sync::atomic::AtomicU64::new(0);

/// Peak heap (bytes above the level at entry, input buffer excluded) while opening.
pub fn measure_open(op: &str, bytes: &[u8]) -> usize {
    let b = bytes.to_vec();
    let (_, peak, _) = match op {
        "read.append" => crate::mem::measure(move || {
            let _ = catch(move || {
                if let Ok(w) = zip::ZipWriter::new_append(Cursor::new(b)) {
                    std::mem::forget(w); // no finalize on drop: only the open is measured
                }
            });
        }),
        "read.stream" => crate::mem::measure(move || {
            let _ = run_stream(b);
        }),
        _ => crate::mem::measure(move || {
            let _ = catch(move || zip::ZipArchive::new(Cursor::new(b)).map(|a| a.len()).ok());
        }),
    };
    peak
}

/// A reader that hands out at most `chunk` bytes per call (0 = no limit).
pub struct ChunkReader<'a> { pub inner: Cursor<&'a [u8]>, pub chunk: usize }
impl<'a> Read for ChunkReader<'a> {
    fn read(&mut self, buf: &mut [u8]) -> std::io::Result<usize> {
        let n = if self.chunk == 0 { buf.len() } else { buf.len().min(self.chunk) };
        self.inner.read(&mut buf[..n])
    }
}

/// The consumer of `read.streamc`: ask for `k` bytes in total with buffers of `min(k - got, 65536)`, again and
/// again until it has them, end-of-file, or an error.
pub fn consume_k(f: &mut dyn Read, k: usize) -> (Vec<u8>, Option<std::io::Error>) {
    let mut got: Vec<u8> = vec![];
    while got.len() < k {
        let want = (k - got.len()).min(65536);
        let mut b = vec![0u8; want];
        match f.read(&mut b) {
            Ok(0) => break,
            Ok(n) => got.extend_from_slice(&b[..n]),
            Err(e) => return (got, Some(e)),
        }
    }
    (got, None)
}

/// The codec library applied DIRECTLY (not through the crate) to the compressed stream `raw`, arriving in reads of
/// at most `chunk` bytes behind a `Take`, driven by the consumer `consume_k(k)`: the bytes it hands out before
/// it reports an error (`Ext.decodeBefore` of the model; how many there are depends on the decoder's buffering,
/// hence on `chunk` and `k`).
pub fn direct_before(method: u16, raw: &[u8], chunk: usize, k: usize) -> Vec<u8> {
    let mut src = ChunkReader { inner: Cursor::new(raw), chunk };
    let t = (&mut src as &mut dyn Read).take(raw.len() as u64);
    let r = catch(std::panic::AssertUnwindSafe(move || match method {
        8 => consume_k(&mut flate2::read::DeflateDecoder::new(t), k).0,
        12 => consume_k(&mut bzip2::read::BzDecoder::new(t), k).0,
        93 => match zstd::stream::read::Decoder::new(t) { Ok(mut d) => consume_k(&mut d, k).0, Err(_) => vec![] },
        _ => vec![],
    }));
    r.unwrap_or_default()
}

/// The compressed streams of the entries a STREAMING reader meets, in order: (index, method, bytes).  The crate is
/// used only to locate them (where its reader stands when `visit_file` is called, and the compressed size it
/// reports); decoding is the codec library's.
pub fn stream_raws(bytes: &[u8]) -> Vec<(usize, u16, Vec<u8>)> {
    let b = bytes.to_vec();
    catch(move || {
        struct Pos<'a> { inner: Cursor<&'a [u8]>, pos: std::rc::Rc<std::cell::Cell<u64>> }
        impl<'a> Read for Pos<'a> {
            fn read(&mut self, buf: &mut [u8]) -> std::io::Result<usize> {
                let n = self.inner.read(buf)?;
                self.pos.set(self.pos.get() + n as u64);
                Ok(n)
            }
        }
        struct C<'a> { pos: std::rc::Rc<std::cell::Cell<u64>>, bytes: &'a [u8], i: usize, rows: Vec<(usize, u16, Vec<u8>)> }
        impl<'a> zip::unstable::stream::ZipStreamVisitor for C<'a> {
            fn visit_file(&mut self, f: &mut zip::read::ZipFile<'_>) -> zip::result::ZipResult<()> {
                let m = method_u16(f.compression());
                let st = self.pos.get() as usize;
                let en = (st as u64).saturating_add(f.compressed_size()).min(self.bytes.len() as u64) as usize;
                if st <= en { self.rows.push((self.i, m, self.bytes[st..en].to_vec())); }
                self.i += 1;
                Ok(())
            }
            fn visit_additional_metadata(&mut self, _m: &zip::unstable::stream::ZipStreamFileMetadata) -> zip::result::ZipResult<()> { Ok(()) }
        }
        let pos = std::rc::Rc::new(std::cell::Cell::new(0u64));
        let mut c = C { pos: pos.clone(), bytes: &b, i: 0, rows: vec![] };
        let _ = zip::unstable::stream::ZipStreamReader::new(Pos { inner: Cursor::new(&b[..]), pos }).visit(&mut c);
        c.rows
    })
    .unwrap_or_default()
}

/// `codec_table` plus, for every streamed entry whose compressed stream the codec library REJECTS, one row
/// `B:<method>:<crc32(raw)>:<len(raw)>:<k>:<hex>`: what the library hands out before its error under this op's
/// schedule (underlying reads of `chunk` bytes, the consumer asking for `k = pattern[i]` bytes).
pub fn codec_table_streamc(bytes: &[u8], pattern: &[usize], chunk: usize) -> String {
    let mut t = codec_table(bytes);
    let mut rows: Vec<String> = vec![];
    for (i, m, raw) in stream_raws(bytes) {
        if !(m == 8 || m == 12 || m == 93) { continue; }
        let damaged = !matches!(catch({ let raw = raw.clone(); move || direct_decode(m, &raw).is_ok() }), Ok(true));
        if !damaged { continue; }
        let k = if pattern.is_empty() { 0 } else { pattern[i % pattern.len()] };
        let before = direct_before(m, &raw, chunk, k);
        let row = format!("B:{m}:{}:{}:{k}:{}", crc32fast::hash(&raw), raw.len(), hex(&before));
        if !rows.contains(&row) { rows.push(row); }
    }
    if !rows.is_empty() {
        if t == "-" { t = rows.join(";"); } else { t = format!("{t};{}", rows.join(";")); }
    }
    t
}

/// Streaming reader with a per-entry consumption pattern: read `k` bytes of each entry, then drop it.
pub fn run_streamc(bytes: Vec<u8>, pattern: Vec<usize>, chunk: usize) -> String {
    let r = catch(move || {
        let mut rd = ChunkReader { inner: Cursor::new(&bytes[..]), chunk };
        let mut out = String::new();
        let mut i = 0usize;
        loop {
            let k = if pattern.is_empty() { 0 } else { pattern[i % pattern.len()] };
            match zip::read::read_zipfile_from_stream(&mut rd) {
                Err(e) => return format!("end={}", cls_z(&e)),
                Ok(None) => return format!("end=ok files={i}{out}"),
                Ok(Some(mut f)) => {
                    let (got, err) = consume_k(&mut f, k);
                    let err = err.map(|e| cls_io(&e));
                    let res = err.unwrap_or_else(|| format!("ok:{}:{}", crc32fast::hash(&got), got.len()));
                    out += &format!(" | {} got={}", show_meta(&f), res);
                    i += 1;
                    if i > 4096 { return "end=runaway".into(); }
                }
            }
        }
    });
    r.unwrap_or_else(|m| format!("end=panic:{}", m.replace(' ', "_")))
}

/// The seekable reader's entry list: (metadata line, decoded content) per entry — the reference the
/// streaming reader is compared with (C10, implementation only).
pub fn seek_list(bytes: &[u8]) -> Result<Vec<(String, Vec<u8>)>, String> {
    let bytes = bytes.to_vec();
    catch(move || {
        let mut a = zip::ZipArchive::new(Cursor::new(bytes)).map_err(|e| cls_z(&e))?;
        let mut v = vec![];
        for i in 0..a.len() {
            let mut f = a.by_index(i).map_err(|e| cls_z(&e))?;
            let meta = show_meta(&f);
            let mut c = vec![];
            f.read_to_end(&mut c).map_err(|e| cls_io(&e))?;
            v.push((meta, c));
        }
        Ok(v)
    })
    .unwrap_or_else(|m| Err(format!("panic:{m}")))
}

/// value of ` key=` inside a `show_meta` line
fn meta_field<'a>(meta: &'a str, key: &str) -> &'a str {
    let pat = format!("{key}=");
    for tok in meta.split(' ') {
        if let Some(v) = tok.strip_prefix(&pat) { return v; }
    }
    ""
}

/// the fields a stream can know: names, method, timestamp, CRC, both sizes
const STREAM_FIELDS: [&str; 7] = ["name", "raw", "m", "t", "crc", "cs", "us"];

fn same_stream_fields(a: &str, b: &str) -> Option<String> {
    for k in STREAM_FIELDS {
        if meta_field(a, k) != meta_field(b, k) {
            return Some(format!("{k}: stream `{}` vs seekable `{}`", meta_field(a, k), meta_field(b, k)));
        }
    }
    None
}

/// Per-entry consumption pattern computed from the entry sizes: every entry gets one of
/// {0, 1, k, all-1, all, all+1 (the read that reports end-of-file), far beyond}.
fn sized_pattern(r: &mut Rng, sizes: &[u64]) -> (String, Vec<usize>) {
    let regime = r.below(8);
    let name = ["zero", "one", "k", "all-1", "all", "eof", "beyond", "mixed"][regime as usize];
    let pat: Vec<usize> = sizes.iter().map(|&n| {
        let n = n as usize;
        let pick = if regime == 7 { r.below(7) } else { regime };
        match pick {
            0 => 0,
            1 => 1,
            2 => if n > 1 { r.range(1, n as u64) as usize } else { n },
            3 => n.saturating_sub(1),
            4 => n,
            5 => n + 1,
            _ => n + 1 + r.below(100000) as usize,
        }
    }).collect();
    (name.to_string(), pat)
}

/// An archive for C10's quantifier: at least one entry, from the crate's writer or from the independent
/// builder laid out contiguously with the sizes in the local headers.
fn c10_archive(r: &mut Rng) -> (Vec<u8>, &'static str) {
    if r.chance(3, 5) {
        loop {
            let (b, e) = writer_archive(r);
            if !e.starts_with("0;") { return (b, "writer"); }
        }
    }
    loop {
        let (mut l, _) = rand_layout(r);
        if l.entries.is_empty() { continue; }
        for e in l.entries.iter_mut() { e.descriptor = Desc::None; e.flags &= !1; e.gap_before.clear(); }
        l.prefix.clear();
        l.gap_before_cd.clear();
        return (mkzip::build(&l).bytes, "builder");
    }
}

/// The same, with one entry the stream cannot serve (data descriptor or encryption bit) at index `j`.
fn c10_refused(r: &mut Rng) -> (Vec<u8>, usize) {
    loop {
        let (mut l, _) = rand_layout(r);
        if l.entries.is_empty() { continue; }
        for e in l.entries.iter_mut() { e.descriptor = Desc::None; e.flags &= !1; e.gap_before.clear(); }
        l.prefix.clear();
        l.gap_before_cd.clear();
        let j = r.below(l.entries.len() as u64) as usize;
        if r.chance(1, 2) {
            l.entries[j].descriptor = *r.pick(&[Desc::Sig32, Desc::NoSig32, Desc::Sig64, Desc::NoSig64]);
            l.entries[j].zip64_local = false;
        } else {
            l.entries[j].flags |= 1;
        }
        return (mkzip::build(&l).bytes, j);
    }
}

/// C10 / review finding F5: one LARGE compressed entry (`n` bytes of content) whose compressed stream is damaged
/// near its END (two adjacent bytes changed within the last 3000), followed by a small intact Stored entry.  The
/// decoders deliver what precedes the damage before they report it: a consumer that asks for part of the entry
/// receives data, and whatever it did the drop-time drain must leave the stream on the second entry.
/// `reject`: search (deterministically, up to 400 candidates) for a damage the codec library REJECTS - content
/// made of repeated words, so that the stream has matches and several blocks -; otherwise content with 6 bits of
/// entropy per byte and the first candidate (the library usually decodes it to wrong bytes: only the CRC tells).
/// Returns (archive, length of the content, content of the second entry).
pub fn damaged_large(r: &mut Rng, method: u16, n: usize, reject: bool) -> (Vec<u8>, usize, Vec<u8>) {
    let content: Vec<u8> = if reject {
        let words: Vec<Vec<u8>> = (0..150).map(|_| { let l = r.range(2, 12) as usize; (0..l).map(|_| b"abcdefghijklmnopqrstuvwxyz"[r.below(26) as usize]).collect() }).collect();
        let mut c = vec![];
        while c.len() < n { c.extend_from_slice(&words[r.below(150) as usize]); c.push(if r.chance(1, 9) { b'\n' } else { b' ' }); if r.chance(1, 40) { let k = r.below(30) as usize; c.extend_from_slice(&r.bytes(k)); } }
        c.truncate(n);
        c
    } else {
        (0..n).map(|_| b"ABCDEFGHIJKLMNOPQRSTUVWXYZabcdefghijklmnopqrstuvwxyz0123456789+/"[r.below(64) as usize]).collect()
    };
    let mut e = Entry::stored(b"large-damaged", &content);
    e.method = method;
    e.data = compress(method, &content);
    let len = e.data.len();
    if len > 8 {
        for attempt in 0..400 {
            let p = len - 2 - r.below((len as u64 - 2).min(3000)) as usize;
            let (m0, m1) = (1 + r.below(255) as u8, 1 + r.below(255) as u8);
            e.data[p] ^= m0;
            e.data[p + 1] ^= m1;
            if !reject || attempt == 399 { break; }
            let raw = e.data.clone();
            if !matches!(catch(move || direct_decode(method, &raw).is_ok()), Ok(true)) { break; }
            e.data[p] ^= m0;
            e.data[p + 1] ^= m1;
        }
    }
    let after = { let n = r.range(1, 40) as usize; r.bytes(n) };
    let l = Layout::new(vec![e, Entry::stored(b"after", &after)]);
    (mkzip::build(&l).bytes, n, after)
}

// ------------------------------------------------------------------------------------------
// generators

pub fn rand_name(r: &mut Rng) -> Vec<u8> {
    let pool: [&[u8]; 14] = [b"a", b"b.txt", b"dir/", b"dir/c", b"", b"x\\y", b"../up", b"/abs", b"a\0b", b"name with space", b"UPPER", b"a", b"caf\xc3\xa9.txt", b"\x81ber.txt"];
    if r.chance(3, 4) {
        pool[r.below(pool.len() as u64) as usize].to_vec()
    } else {
        let n = r.below(40) as usize;
        (0..n).map(|_| b"abcdefghijklmnopqrstuvwxyz0123456789/._-"[r.below(40) as usize]).collect()
    }
}

/// Content that embeds ZIP record signatures: a complete nested archive (stored by jar/war/epub style
/// producers), or an end-of-central-directory signature in the middle of other bytes.  Entry DATA may
/// contain anything; only names and comments are restricted by the properties' quantifiers.
pub fn signature_content(r: &mut Rng) -> Vec<u8> {
    if r.chance(1, 2) {
        let inner = Entry::stored(b"inner.txt", b"nested");
        let mut l = Layout::new(vec![inner]);
        if r.chance(1, 2) { l.comment = b"inner comment".to_vec(); }
        mkzip::build(&l).bytes
    } else {
        let mut v = { let n = r.below(40) as usize; r.bytes(n) };
        v.extend_from_slice(&[0x50, 0x4b, 0x05, 0x06]);
        v.extend_from_slice(&[0u8; 18]);
        let n = r.below(30) as usize;
        v.extend_from_slice(&r.bytes(n));
        v
    }
}

pub fn rand_content(r: &mut Rng) -> Vec<u8> {
    match r.below(7) {
        6 => signature_content(r),
        0 => vec![],
        1 => vec![r.next() as u8],
        2 => { let n = r.range(2, 100) as usize; r.bytes(n) },
        3 => b"hello world hello world hello world\n".repeat(r.range(1, 30) as usize),
        4 => vec![0u8; r.range(1, 600) as usize],
        _ => { let n = r.range(100, 1500) as usize; r.bytes(n) },
    }
}

fn compress(method: u16, data: &[u8]) -> Vec<u8> {
    use std::io::Write;
    match method {
        8 => {
            let mut e = flate2::write::DeflateEncoder::new(vec![], flate2::Compression::default());
            e.write_all(data).unwrap();
            e.finish().unwrap()
        }
        12 => {
            let mut e = bzip2::write::BzEncoder::new(vec![], bzip2::Compression::default());
            e.write_all(data).unwrap();
            e.finish().unwrap()
        }
        93 => zstd::stream::encode_all(data, 3).unwrap(),
        _ => data.to_vec(),
    }
}

/// A random well-formed layout from the independent builder, with its expectations.
pub fn rand_layout(r: &mut Rng) -> (Layout, String) {
    let n = match r.below(10) { 0 => 0, 1..=4 => 1, 5..=7 => 2, 8 => 3, _ => r.range(4, 8) } as usize;
    let mut entries = vec![];
    let mut exp = vec![];
    for i in 0..n {
        let content = rand_content(r);
        let method = *r.pick(&[0u16, 0, 0, 8, 8, 12, 93]);
        let mut name = rand_name(r);
        if r.chance(1, 6) && i > 0 {
            name = entries.last().map(|e: &Entry| e.name.clone()).unwrap();
        }
        let mut e = Entry::stored(&name, &content);
        e.method = method;
        e.data = compress(method, &content);
        e.time = r.below(65536) as u16;
        e.date = r.below(65536) as u16;
        e.descriptor = *r.pick(&[Desc::None, Desc::None, Desc::None, Desc::Sig32, Desc::NoSig32, Desc::Sig64, Desc::NoSig64]);
        e.zip64_local = r.chance(1, 6) && e.descriptor == Desc::None;
        e.zip64_central = (r.chance(1, 6), r.chance(1, 6), r.chance(1, 6));
        if r.chance(1, 4) {
            // unknown extra records (ids outside 0x0001/0x9901)
            let id = *r.pick(&[0x5455u16, 0x7875, 0xcafe, 0x000a]);
            let pl = { let n = r.below(12) as usize; r.bytes(n) };
            let mut x = id.to_le_bytes().to_vec();
            x.extend_from_slice(&(pl.len() as u16).to_le_bytes());
            x.extend_from_slice(&pl);
            if r.chance(1, 2) { e.local_extra = x.clone(); }
            if r.chance(1, 2) { e.central_extra = x; }
        }
        if r.chance(1, 5) { e.comment = b"entry comment".to_vec(); }
        let sys = *r.pick(&[0u16, 3, 3, 3, 7, 10, 19]);
        e.made_by = (sys << 8) | *r.pick(&[20u16, 30, 45, 63]);
        e.ext_attrs = match r.below(5) {
            0 => 0,
            1 => 0x10,
            2 => 0x01,
            3 => (0o100000 | r.below(512) as u32) << 16,
            _ => r.next() as u32,
        };
        if r.chance(1, 8) { e.gap_before = { let n = r.below(20) as usize; r.bytes(n) }; }
        exp.push(format!("{}:{}:{}:{}", hex(&name), method, crc32fast::hash(&content), content.len()));
        entries.push(e);
    }
    let mut l = Layout::new(entries);
    if r.chance(1, 3) { l.comment = match r.below(3) { 0 => b"archive comment".to_vec(), 1 => { let n = r.below(30) as usize; r.bytes(n) }, _ => { let n = r.below(300) as usize; vec![b'c'; n] } }; }
    if r.chance(1, 4) { l.prefix = { let n = r.below(200) as usize; r.bytes(n) }; }
    if r.chance(1, 40) { l.prefix = { let n = r.range(30000, 65536) as usize; r.bytes(n) }; }
    l.zip64_eocd = r.chance(1, 6);
    // the forward search for the ZIP64 end record probes every offset of the prefix; the list-based model
    // pays O(offset) per probe, so keep prefixes of ZIP64 layouts moderate (the search itself is still long)
    if l.zip64_eocd && l.prefix.len() > 3000 { l.prefix.truncate(3000); }
    if r.chance(1, 10) { l.gap_before_cd = { let n = r.below(16) as usize; r.bytes(n) }; }
    if !l.zip64_eocd && r.chance(1, 8) { l.trailing = vec![0u8; r.below(40) as usize]; }
    let e = format!("{};{};{};{}", n, l.prefix.len(), hex(&l.comment), exp.join(";"));
    (l, e)
}

/// F7: layouts `rand_layout` (and the Lean `Spec.Zip.Layout`) cannot express, all of them well-formed and read
/// correctly by conforming readers: the central directory lists the entries in another order than the local
/// records lie in the file; the central ZIP64 record sits behind other extra records; it carries the 4-byte
/// disk-start field; a forced ZIP64 end record next to a plain end record that keeps the real values; an
/// extensible data sector in the ZIP64 end record.  Returns the layout, the expectation (entries in CENTRAL
/// order) and the features used.
pub fn rand_layout_g(r: &mut Rng) -> (Layout, String, Vec<&'static str>) {
    let (mut l, e) = loop {
        let (l, e) = rand_layout(r);
        if l.entries.len() >= 2 || (l.entries.len() == 1 && r.chance(1, 4)) { break (l, e); }
    };
    let n = l.entries.len();
    let mut feats = vec![];
    let mut order: Vec<usize> = (0..n).collect();
    if n >= 2 && r.chance(2, 3) {
        match r.below(3) {
            0 => order.reverse(),
            1 => { let k = r.range(1, n as u64) as usize; order.rotate_left(k); }
            _ => { for i in (1..n).rev() { let j = r.below(i as u64 + 1) as usize; order.swap(i, j); } }
        }
        if order.iter().enumerate().any(|(i, j)| i != *j) { feats.push("order"); l.cd_order = Some(order.clone()); }
    }
    for e in l.entries.iter_mut() {
        if r.chance(1, 2) {
            // 1..3 unknown records, the ZIP64 record (made non-empty) behind the first 1..k of them
            let k = r.range(1, 4) as usize;
            let mut x = vec![];
            for _ in 0..k {
                let id = *r.pick(&[0x5455u16, 0x7875, 0xcafe, 0x000a]);
                let pl = { let n = r.below(10) as usize; r.bytes(n) };
                x.extend_from_slice(&id.to_le_bytes());
                x.extend_from_slice(&(pl.len() as u16).to_le_bytes());
                x.extend_from_slice(&pl);
            }
            e.central_extra = x;
            if e.zip64_central == (false, false, false) { e.zip64_central = *r.pick(&[(true, false, false), (false, true, false), (false, false, true), (true, true, false), (true, true, true), (false, true, true), (true, false, true)]); }
            e.zip64_central_pos = r.range(1, k as u64 + 1) as usize;
            if !feats.contains(&"z64pos") { feats.push("z64pos"); }
        }
        if r.chance(1, 4) {
            e.zip64_disk = Some(0);
            if !feats.contains(&"z64disk") { feats.push("z64disk"); }
        }
    }
    if r.chance(1, 3) {
        l.zip64_eocd = true;
        l.trailing.clear();
        l.prefix.truncate(3000);
        if r.chance(2, 3) { l.eocd_unsaturated = true; feats.push("eocd-unsaturated"); }
        if r.chance(2, 3) {
            // APPNOTE 4.3.14.2: header id (2 bytes), data size (4 bytes), data
            let pl = { let n = r.below(30) as usize; r.bytes(n) };
            let mut x = 0x0065u16.to_le_bytes().to_vec();
            x.extend_from_slice(&(pl.len() as u32).to_le_bytes());
            x.extend_from_slice(&pl);
            l.end64_ext = x;
            feats.push("end64-ext");
        }
        // with ZIP64 records the locator names the position of the ZIP64 end record, so bytes between the last
        // central record and that record are harmless (without ZIP64 records they would read as a prefix)
        if r.chance(1, 3) { l.gap_before_end = { let n = r.range(1, 12) as usize; r.bytes(n) }; feats.push("end64-gap"); }
    }
    let parts: Vec<&str> = e.split(';').collect();
    let mut exp: Vec<String> = parts[..3].iter().map(|s| s.to_string()).collect();
    exp[1] = l.prefix.len().to_string();
    for &i in &order { exp.push(parts[3 + i].to_string()); }
    (l, exp.join(";"), feats)
}

/// F7 (d): layouts APPNOTE does not allow and no reader can be expected to serve - bytes between two central
/// records, or between the central directory and the end records (indistinguishable from a prefix).  No
/// expectation: the model must answer the same as the implementation, and nothing may panic.
pub fn rand_layout_nonconforming(r: &mut Rng) -> (Layout, &'static str) {
    let mut l = loop { let (l, _) = rand_layout(r); if !l.entries.is_empty() { break l; } };
    if r.chance(1, 2) {
        let i = r.below(l.entries.len() as u64) as usize;
        l.entries[i].cd_gap_before = { let n = r.range(1, 12) as usize; r.bytes(n) };
        (l, "cdgap")
    } else {
        l.gap_before_end = { let n = r.range(1, 12) as usize; r.bytes(n) };
        (l, "endgap")
    }
}

/// An archive produced by the crate's own writer.
pub fn writer_archive(r: &mut Rng) -> (Vec<u8>, String) {
    use std::io::Write;
    use zip::write::FileOptions;
    let mut w = zip::ZipWriter::new(Cursor::new(Vec::new()));
    let n = r.below(4) as usize;
    let mut exp = vec![];
    for _ in 0..n {
        let name = String::from_utf8_lossy(&rand_name(r)).replace('\0', "_");
        let method = *r.pick(&[zip::CompressionMethod::Stored, zip::CompressionMethod::Deflated, zip::CompressionMethod::Bzip2, zip::CompressionMethod::Zstd]);
        let t = zip::DateTime::from_msdos(0x21 + (r.below(100) as u16) * 512, r.below(0xbf7d) as u16);
        let o = FileOptions::default().compression_method(method).last_modified_time(t).unix_permissions(r.below(512) as u32).large_file(r.chance(1, 8));
        match r.below(11) {
            0 => {
                let _ = w.add_directory(name.clone(), o);
                let nm = if name.ends_with('/') || name.ends_with('\\') { name.clone() } else { format!("{name}/") };
                exp.push(format!("{}:0:0:0", hex(nm.as_bytes())));
            }
            // the rest of the writer's unencrypted alphabet (review finding F10): aligned entries, extra-data mode
            // (local only / local then central-only part), raw copies from another archive
            8 => {
                let content = rand_content(r);
                let align = *r.pick(&[0u16, 1, 2, 4, 16, 64, 512, 4096]);
                if w.start_file_aligned(name.clone(), o, align).is_ok() {
                    let _ = w.write_all(&content);
                    exp.push(format!("{}:{}:{}:{}", hex(name.as_bytes()), method_u16(method), crc32fast::hash(&content), content.len()));
                }
            }
            9 => {
                let content = rand_content(r);
                let rec = |r: &mut Rng| { let id = *r.pick(&[0xcafeu16, 0x5455, 0x7875, 0x6375]); let pl = { let n = r.below(12) as usize; r.bytes(n) }; let mut x = id.to_le_bytes().to_vec(); x.extend_from_slice(&(pl.len() as u16).to_le_bytes()); x.extend_from_slice(&pl); x };
                if w.start_file_with_extra_data(name.clone(), o).is_ok() {
                    let mut ok = true;
                    if r.chance(3, 4) { let x = rec(r); ok &= w.write_all(&x).is_ok(); }
                    if r.chance(1, 2) { ok &= w.end_local_start_central_extra_data().is_ok(); if r.chance(1, 2) { let x = rec(r); ok &= w.write_all(&x).is_ok(); } }
                    ok &= w.end_extra_data().is_ok();
                    if ok {
                        let _ = w.write_all(&content);
                        exp.push(format!("{}:{}:{}:{}", hex(name.as_bytes()), method_u16(method), crc32fast::hash(&content), content.len()));
                    }
                }
            }
            10 => {
                let content = rand_content(r);
                let src = {
                    let mut sw = zip::ZipWriter::new(Cursor::new(Vec::new()));
                    let so = FileOptions::default().compression_method(method).last_modified_time(t).large_file(r.chance(1, 8));
                    let _ = sw.start_file("source-name", so);
                    let _ = sw.write_all(&content);
                    sw.finish().unwrap().into_inner()
                };
                if let Ok(mut sa) = zip::ZipArchive::new(Cursor::new(src)) {
                    let copied = match sa.by_index_raw(0) {
                        Ok(f) => if r.chance(1, 2) { w.raw_copy_file_rename(f, name.clone()).is_ok() } else { let n = f.name().to_string(); w.raw_copy_file(f).is_ok() && { exp.push(format!("{}:{}:{}:{}", hex(n.as_bytes()), method_u16(method), crc32fast::hash(&content), content.len())); false } },
                        Err(_) => false,
                    };
                    if copied { exp.push(format!("{}:{}:{}:{}", hex(name.as_bytes()), method_u16(method), crc32fast::hash(&content), content.len())); }
                }
            }
            _ => {
                let content = rand_content(r);
                if w.start_file(name.clone(), o).is_ok() {
                    let _ = w.write_all(&content);
                    exp.push(format!("{}:{}:{}:{}", hex(name.as_bytes()), method_u16(method), crc32fast::hash(&content), content.len()));
                }
            }
        }
    }
    let comment = if r.chance(1, 3) { b"made by the writer".to_vec() } else { vec![] };
    w.set_raw_comment(comment.clone());
    let bytes = match w.finish() {
        Ok(c) => c.into_inner(),
        Err(_) => {
            // cannot happen with the calls above (every extra record is well-formed and unreserved); should the
            // crate refuse one, do not abort the generator: an empty archive instead
            std::mem::forget(w);
            return (zip::ZipWriter::new(Cursor::new(Vec::new())).finish().unwrap().into_inner(), "0;0;;".into());
        }
    };
    (bytes, format!("{};0;{};{}", exp.len(), hex(&comment), exp.join(";")))
}

/// (h) archives EMITTED by CPython's `zipfile` (harness/pyzip.py, run at generation time): one map per
/// archive with `kind`, `bytes`, `expect` (what Python says it wrote), `pymeta`, `stream`.  `None` when
/// python3 cannot be run (the class is then counted as skipped).
pub fn python_archives(seed: u64, count: usize) -> Option<Vec<std::collections::BTreeMap<String, String>>> {
    use std::io::Write;
    use std::process::{Command, Stdio};
    let mut ch = Command::new("python3").arg("-").arg(seed.to_string()).arg(count.to_string())
        .stdin(Stdio::piped()).stdout(Stdio::piped()).stderr(Stdio::null()).spawn().ok()?;
    let mut stdin = ch.stdin.take()?;
    let feeder = std::thread::spawn(move || { let _ = stdin.write_all(include_str!("../../pyzip.py").as_bytes()); });
    let out = ch.wait_with_output().ok()?;
    let _ = feeder.join();
    if !out.status.success() { return None; }
    let text = String::from_utf8(out.stdout).ok()?;
    let v: Vec<_> = text.lines().map(|l| parse_line(&format!("py {l}")).1).filter(|m| m.contains_key("bytes") && m.contains_key("expect")).collect();
    if v.len() == count { Some(v) } else { None }
}

fn lie(r: &mut Rng, l: &mut Layout) {
    let edge = [0u64, 1, 0xFFFE, 0xFFFF, 0x10000, 0xFFFFFFFE, 0xFFFFFFFF, 0x100000000, u64::MAX - 1, u64::MAX, 20, 46];
    let n = l.entries.len();
    for _ in 0..r.range(1, 3) {
        match r.below(19) {
            0 => l.lie_count = Some(*r.pick(&edge)),
            1 => l.lie_cd_size = Some(*r.pick(&edge)),
            2 => l.lie_cd_offset = Some(*r.pick(&edge)),
            3 => l.lie_comment_len = Some(*r.pick(&edge) as u16),
            4 => l.lie_disk = Some((r.below(3) as u16, r.below(3) as u16)),
            5 => { l.zip64_eocd = true; l.prefix.truncate(3000); l.lie_locator_offset = Some(*r.pick(&edge)); }
            6 => { l.zip64_eocd = true; l.prefix.truncate(3000); l.lie_eocd64_disks = Some((r.below(2) as u32, 1)); }
            k if n > 0 => {
                let i = r.below(n as u64) as usize;
                let e = &mut l.entries[i];
                match k {
                    7 => e.lie_central_csize = Some(*r.pick(&edge)),
                    8 => e.lie_central_usize = Some(*r.pick(&edge)),
                    9 => e.lie_central_offset = Some(*r.pick(&edge)),
                    10 => e.lie_local_name_len = Some(*r.pick(&edge) as u16),
                    11 => e.lie_central_extra_len = Some(*r.pick(&edge) as u16),
                    12 => e.method = *r.pick(&[99u16, 1, 9, 14, 0xFFFF]),
                    13 => {
                        // AES extra field, with or without the encryption flag / method 99
                        let inner = *r.pick(&[0u16, 8, 99, 1]);
                        let mut x = vec![0x01, 0x99, 7, 0];
                        x.extend_from_slice(&[*r.pick(&[1u8, 2, 3]), 0, 0x41, 0x45, *r.pick(&[1u8, 2, 3, 4])]);
                        x.extend_from_slice(&inner.to_le_bytes());
                        // the streaming reader parses the LOCAL extra field
                        if r.chance(1, 2) { e.local_extra = x.clone(); }
                        e.central_extra = x;
                        if r.chance(1, 2) { e.flags |= 1; }
                        if r.chance(1, 2) { e.method = 99; }
                    }
                    14 => { e.flags |= 1; }
                    15 => { match r.below(3) { 0 => e.crc = 0, 1 => e.crc ^= 1 << r.below(32), _ => { if !e.data.is_empty() { let p = r.below(e.data.len() as u64) as usize; e.data[p] ^= 1 << r.below(8); } } } }
                    16 | 17 => {
                        // extra fields whose LAST record declares a body that overruns the field by 1..5 bytes, or by
                        // the maximum (0xFFFF): record walkers must not index past the end (central: the seekable
                        // reader and new_append's ZIP64-record stripper; local: the streaming reader)
                        let mut x: Vec<u8> = vec![];
                        if r.chance(1, 2) { x.extend_from_slice(&[0xfe, 0xca, 2, 0, 1, 2]); }
                        let id = *r.pick(&[0xcafeu16, 0x0001, 0x5455, 0x9901]);
                        let body = { let n = r.below(6) as usize; r.bytes(n) };
                        let over = *r.pick(&[1u16, 2, 3, 4, 5, 0xFFFF]);
                        x.extend_from_slice(&id.to_le_bytes());
                        x.extend_from_slice(&((body.len() as u16).wrapping_add(over)).max(body.len() as u16).to_le_bytes());
                        x.extend_from_slice(&body);
                        if k == 16 { e.central_extra = x; } else { e.local_extra = x.clone(); if r.chance(1, 2) { e.central_extra = x; } }
                    }
                    _ => { e.central_extra = { let n = r.below(9) as usize; r.bytes(n) }; e.local_extra = { let n = r.below(9) as usize; r.bytes(n) }; }
                }
            }
            _ => {}
        }
    }
}

/// `junk` followed by a plain end record at offset `junk.len()` declaring `count` entries (16-bit
/// field: saturates at 0xFFFF, where the reader also looks for a ZIP64 locator and finds none), an
/// empty central directory located at the end record itself (so the first header parse fails).
pub fn eocd_liar(junk: &[u8], count: u64) -> Vec<u8> {
    let mut b = junk.to_vec();
    let c = count.min(0xFFFF) as u16;
    b.extend_from_slice(&0x06054b50u32.to_le_bytes());
    b.extend_from_slice(&[0, 0, 0, 0]);
    b.extend_from_slice(&c.to_le_bytes());
    b.extend_from_slice(&c.to_le_bytes());
    b.extend_from_slice(&0u32.to_le_bytes());
    b.extend_from_slice(&(junk.len().min(0xFFFF_FFFF) as u32).to_le_bytes());
    b.extend_from_slice(&[0, 0]);
    b
}

/// `junk`, a ZIP64 end record declaring `count` entries (directory "at" the record itself), its
/// locator, and a plain end record full of 0xFFFF markers.  `cde_start_pos = junk.len() + 76`.
pub fn eocd64_liar(junk: &[u8], count: u64) -> Vec<u8> {
    let p = junk.len() as u64;
    let mut b = junk.to_vec();
    b.extend_from_slice(&0x06064b50u32.to_le_bytes());
    b.extend_from_slice(&44u64.to_le_bytes());
    b.extend_from_slice(&[45, 0, 45, 0]);
    b.extend_from_slice(&0u32.to_le_bytes());
    b.extend_from_slice(&0u32.to_le_bytes());
    b.extend_from_slice(&count.to_le_bytes());
    b.extend_from_slice(&count.to_le_bytes());
    b.extend_from_slice(&0u64.to_le_bytes());
    b.extend_from_slice(&p.to_le_bytes());
    b.extend_from_slice(&0x07064b50u32.to_le_bytes());
    b.extend_from_slice(&0u32.to_le_bytes());
    b.extend_from_slice(&p.to_le_bytes());
    b.extend_from_slice(&1u32.to_le_bytes());
    b.extend_from_slice(&0x06054b50u32.to_le_bytes());
    b.extend_from_slice(&[0, 0, 0, 0, 0xFF, 0xFF, 0xFF, 0xFF]);
    b.extend_from_slice(&0xFFFF_FFFFu32.to_le_bytes());
    b.extend_from_slice(&0xFFFF_FFFFu32.to_le_bytes());
    b.extend_from_slice(&[0, 0]);
    b
}

/// `eocd64_liar` with the directory declared at `dir_off` (0 = "the whole input is central directory":
/// the guard of `ZipArchive::new` then admits up to `(junk.len() + 76) / 46` entries).
pub fn eocd64_liar_at(junk: &[u8], count: u64, dir_off: u64) -> Vec<u8> {
    let mut b = eocd64_liar(junk, count);
    let p = junk.len();
    b[p + 48..p + 56].copy_from_slice(&dir_off.to_le_bytes());
    b
}

/// `eocd_liar` with a declared directory SIZE of `size` bytes and offset 0.  Without ZIP64 records the reader derives
/// `archive_offset = cde_start_pos - size - offset`, so the directory "starts" `size` bytes before the end record: the
/// size field is the room for headers.
pub fn eocd_liar_sized(junk: &[u8], count: u64, size: u32) -> Vec<u8> {
    let mut b = eocd_liar(junk, count);
    let p = junk.len();
    b[p + 12..p + 16].copy_from_slice(&size.to_le_bytes());
    b[p + 16..p + 20].copy_from_slice(&0u32.to_le_bytes());
    b
}

/// One minimal central header (46 bytes: empty name, no extra field, no comment, Stored, local header "at" 0).
fn bare_central_header() -> Vec<u8> {
    let mut h = vec![];
    h.extend_from_slice(&0x02014b50u32.to_le_bytes());
    h.extend_from_slice(&[20, 0, 20, 0, 0, 0, 0, 0, 0, 0, 0x21, 0]);
    h.extend_from_slice(&[0u8; 12]); // crc, sizes
    h.extend_from_slice(&[0u8; 18]); // name/extra/comment lengths, disk, attributes, offset
    h
}

/// The densest directory an input can carry: `n` minimal central headers back to back from offset 0 and an end
/// record (ZIP64 records when `n` needs them) declaring exactly `n` — every 46 input bytes cost one `ZipFileData`
/// and one name-map slot.  This is the worst case of the repaired pre-allocation guard, and it is a VALID request.
pub fn dense_directory(n: usize) -> Vec<u8> {
    let mut b = vec![];
    for _ in 0..n { b.extend_from_slice(&bare_central_header()); }
    let dir = b.clone();
    if n >= 0xFFFF {
        let mut e = eocd64_liar_at(&dir, n as u64, 0);
        // directory size field of the ZIP64 record
        let p = dir.len();
        e[p + 40..p + 48].copy_from_slice(&(dir.len() as u64).to_le_bytes());
        e
    } else {
        eocd_liar_sized(&dir, n as u64, dir.len() as u32)
    }
}

/// An end record whose COMMENT holds `k` central headers and whose directory offset points at the comment
/// (behind the end record): `ZipArchive::new` reads them (room for headers = 0, nothing reserved, the vector
/// grows by doubling); `new_append` refuses (D16).
pub fn directory_in_comment(k: usize) -> Vec<u8> {
    let mut b = vec![];
    b.extend_from_slice(&0x06054b50u32.to_le_bytes());
    b.extend_from_slice(&[0, 0, 0, 0]);
    b.extend_from_slice(&(k as u16).to_le_bytes());
    b.extend_from_slice(&(k as u16).to_le_bytes());
    b.extend_from_slice(&((46 * k) as u32).to_le_bytes());
    b.extend_from_slice(&22u32.to_le_bytes());
    b.extend_from_slice(&((46 * k) as u16).to_le_bytes());
    for _ in 0..k { b.extend_from_slice(&bare_central_header()); }
    b
}

/// A password-carrying `read.seek` line: every entry is opened with `by_index_decrypt(i, pw)` and read to its end.
/// `None` when some decoder's outcome on the decrypted bytes depends on the consumer's buffer sizes, or when a decoder
/// would be fed the decrypted prefix of a truncated AES payload (see `crypto_tables`).
pub fn seek_pw_line(bytes: &[u8], pw: &[u8]) -> Option<String> {
    let mut codec = codec_table(bytes);
    let (aesp, extra, incremental) = crypto_tables(bytes, pw);
    if incremental { return None; }
    for row in extra {
        if codec == "-" { codec = row; } else if !codec.split(';').any(|r| r == row) { codec = format!("{codec};{row}"); }
    }
    if codec != "-" && schedule_dependent_pw(bytes, Some(pw)) { return None; }
    let pws = if pw.is_empty() { "-".to_string() } else { hex(pw) };
    Some(format!("read.seek bytes={} codec={codec} pw={pws} aesp={aesp}", hex(bytes)))
}

/// Passwords for the adversarial classes: the one the crypto generators encrypt with, a different one, the empty
/// one, one with NUL / high bytes, a long one.
pub const GEN_PW: &[u8] = b"pw-C05";
pub fn some_password(r: &mut Rng) -> Vec<u8> {
    match r.below(6) {
        0 | 1 => GEN_PW.to_vec(),
        2 => vec![],
        3 => b"wrong".to_vec(),
        4 => vec![0, 0xff, 0x80, b'x', 0],
        _ => { let n = r.range(1, 70) as usize; r.bytes(n) }
    }
}

/// A password whose ZipCrypto check byte matches `check` on the 12-byte header `hdr` (brute force over short
/// candidates; about one in 256 passes).
pub fn passing_password(hdr: &[u8], check: u8) -> Option<Vec<u8>> {
    if hdr.len() < 12 { return None; }
    for i in 0..5000u32 {
        let cand = format!("p{i}").into_bytes();
        if crate::pkware::Keys::new(&cand).decrypt(&hdr[..12])[11] == check { return Some(cand); }
    }
    None
}

/// A ZipCrypto entry written per APPNOTE 6.1 with the independent cipher: 12-byte header (last byte = high
/// byte of the CRC, or of the DOS time with a data descriptor) + the stored bytes, encrypted with `pw`.
pub fn zipcrypto_payload(pw: &[u8], check: u8, stored: &[u8], r: &mut Rng) -> Vec<u8> {
    let mut hdr = r.bytes(11);
    hdr.push(check);
    hdr.extend_from_slice(stored);
    crate::pkware::Keys::new(pw).encrypt(&hdr)
}

impl Stream for ReadStream {
    fn name(&self) -> &'static str {
        "read"
    }

    fn gen(&self, seed: u64, tier: &str) -> GenOut {
        let mut g = GenOut::default();
        g.rule = "archives from (a) the independent APPNOTE builder (descriptors, forced ZIP64 subsets, prefix, gaps, made-by systems, unknown extras, comments), (b) the crate's writer, (c) builder archives with lying headers (values near 0/2^16/2^32/2^64, AES extras with/without flag, method 99), (c3/c4) finding F4 - passwords on adversarial encrypted entries (read.seek pw=): ZipCrypto-flagged entries holding the first 0..13 bytes of a correctly encrypted entry (right / wrong / check-byte-passing / empty password, with and without data descriptor, compressing methods, lying sizes), AES entries of the three strengths, AE-1/AE-2, cut at every length around salt+2+10 (declared size true / larger / smaller), method 99 with and without the AES record, the record without method 99 / without the flag; and a password on every AES-extra case and on a share of the liars, truncations, substitutions and random strings (seekpw.*; PBKDF2 / key stream / HMAC tables for the model computed with the RustCrypto crates, decrypted streams of compressing methods decoded by the codec libraries directly), (d) every truncation point and byte substitutions of seeds, (e) random bytes; each through the seekable (read.seek) and streaming (read.stream) readers; (b2/b3) the streaming entry loop under per-entry consumption patterns (read.streamc: {0, 1, k, all-1, all, all+1, beyond} computed from the entry sizes, and random) over short-read underlying streams (chunk 1, 2, 3, 7, 64, 4096, unlimited) on writer-made and builder-made archives with at least one entry, the visitor on the same archives, and archives with an encrypted / data-descriptor entry the stream must refuse; and a third of them (all truncations and random strings) through ZipWriter::new_append + finish (read.append), (f) pre-allocation liars: junk of 0..200000 bytes (2000000 thorough) + end records (plain and ZIP64) declaring cde_start_pos-1 / cde_start_pos / cde_start_pos+1 / 4x / 64x / 2^32 / 2^64-1 entries, and archives with 50..400 (3000) real entries (read.mem: open only), (f2) the same with the directory declared at offset 0 / in the middle / 1, 45, 46 bytes before and 1 byte behind the end record and counts room/46-1, room/46, room/46+1, room, (f3) dense directories: n minimal 46-byte central headers and an end record declaring n-1 / n / n+1 (the worst valid request: one reserved slot per 46 input bytes), directories hidden in the end record's comment (room 0, growth by doubling), (h) archives EMITTED by CPython zipfile at generation time (harness/pyzip.py; skipped and counted when python3 is missing): stored / deflate / bzip2 / lzma (unsupported: must fail per entry) payloads, archive and entry comments, duplicate names, DOS / Unix / other hosts, mkdir, unseekable output (data descriptors), force_zip64 seekable and unseekable, 0..64 KiB prefixes prepended or written through - the oracle compares names, contents, method, timestamp, mode, comment, CRC, sizes and header offsets with what Python says it wrote, (g) empty ZIP64 archives whose directory offset points beyond the input (D16 regression cases: new_append must refuse; as a hard guard finish is skipped and reported by the oracle should the directory start ever exceed the input length by more than 1 MiB). The oracle re-runs every case on the implementation under a counting global allocator: no panic, deterministic, wall time < 2 s, peak heap while opening <= 16*len + 1 MiB (measurement, not proof; one reserved slot costs size_of::<ZipFileData>()+75 bytes and needs 46 input bytes). distinct = distinct op lines; non-trivial = the archive opens".into();
        let thorough = tier == "thorough";
        let scale = if thorough { 20 } else { 1 };
        let mut idx = 0u64;
        let mut napp = 0u64;
        let mut push = |g: &mut GenOut, kind: &str, bytes: &[u8], expect: Option<String>, stream_too: bool| {
            let codec = codec_table(bytes);
            if codec != "-" && expect.is_none() && schedule_dependent(bytes) {
                *g.dist.entry(format!("gen.skipped.schedule-dependent-decoder.{kind}")).or_insert(0) += 1;
                return;
            }
            let e = expect.map(|e| format!(" expect={e}")).unwrap_or_default();
            g.push(&format!("seek.{kind}"), format!("read.seek bytes={} codec={codec}{e}", hex(bytes)));
            if stream_too {
                g.push(&format!("stream.{kind}"), format!("read.stream bytes={} codec={codec}", hex(bytes)));
            }
            // the same bytes with a password on every entry (finding F4): every AES-extra case, a share of the
            // liars / truncations / substitutions / random strings
            napp += 1;
            let share = match kind { "aes-extra" => 1, "liar" | "subst" => 3, "truncate" | "random" => 4, _ => 0 };
            if share != 0 && napp % share == 0 {
                let mut rp = super::rng_for(seed, "read.pw", napp);
                let pw = some_password(&mut rp);
                match seek_pw_line(bytes, &pw) {
                    Some(l) => g.push(&format!("seekpw.{kind}"), l),
                    None => *g.dist.entry(format!("gen.skipped.schedule-dependent-decoder.pw.{kind}")).or_insert(0) += 1,
                }
            }
            // opening the same bytes for append: every truncation / random case, a third of the rest
            if kind == "truncate" || kind == "random" || napp % 3 == 0 {
                g.push(&format!("append.{kind}"), format!("read.append bytes={}", hex(bytes)));
            }
        };
        // (a) well-formed foreign archives
        for _ in 0..400 * scale {
            idx += 1;
            let mut r = super::rng_for(seed, "read.wf", idx);
            let (l, e) = rand_layout(&mut r);
            let b = mkzip::build(&l);
            push(&mut g, "builder", &b.bytes, Some(e), r.chance(1, 3));
        }
        // (a2) F7: well-formed layouts beyond `Spec.Zip.Layout`: permuted central directory, ZIP64 record behind
        // other extra records / with the disk-start field, unsaturated end record next to forced ZIP64 records,
        // extensible data sector; (a3) non-conforming gaps inside / behind the central directory (no expectation)
        for _ in 0..300 * scale {
            idx += 1;
            let mut r = super::rng_for(seed, "read.wfg", idx);
            let (l, e, feats) = rand_layout_g(&mut r);
            let b = mkzip::build(&l);
            for f in &feats { *g.dist.entry(format!("gen.feature.{f}")).or_insert(0) += 1; }
            push(&mut g, "builder.g", &b.bytes, Some(e), r.chance(1, 3));
        }
        for _ in 0..60 * scale {
            idx += 1;
            let mut r = super::rng_for(seed, "read.nc", idx);
            let (l, kind) = rand_layout_nonconforming(&mut r);
            let b = mkzip::build(&l);
            push(&mut g, &format!("nonconforming.{kind}"), &b.bytes, None, false);
        }
        // (b) the crate's writer
        for _ in 0..200 * scale {
            idx += 1;
            let mut r = super::rng_for(seed, "read.w", idx);
            let (b, e) = writer_archive(&mut r);
            push(&mut g, "writer", &b, Some(e), true);
        }
        // (b2) streaming reader under consumption patterns and short-read underlying streams (C10, C09)
        for _ in 0..250 * scale {
            idx += 1;
            let mut r = super::rng_for(seed, "read.sc", idx);
            let b = if r.chance(2, 3) { writer_archive(&mut r).0 } else {
                let (mut l, _) = rand_layout(&mut r);
                for e in l.entries.iter_mut() { e.descriptor = Desc::None; e.flags &= !1; e.gap_before.clear(); }
                l.prefix.clear();
                mkzip::build(&l).bytes
            };
            let pat = match r.below(7) { 0 => "0".to_string(), 1 => "1".into(), 2 => "5,0,1000000".into(), 3 => "1000000".into(), 4 => format!("{}", r.below(2000)), 5 => "0,1000000".into(), _ => format!("{},{},{}", r.below(40), r.below(3), r.below(100000)) };
            let inner = *r.pick(&[0u64, 1, 2, 7, 64, 4096, 3]);
            let codec = codec_table_streamc(&b, &pat.split(',').filter_map(|x| x.parse().ok()).collect::<Vec<usize>>(), inner as usize);
            g.push("streamc", format!("read.streamc bytes={} codec={codec} consume={pat} inner={inner}", hex(&b)));
        }
        // (b3) C10's quantifier: archives with at least one entry from the writer and the builder; per-entry
        // patterns from {0, 1, k, all-1, all, all+1, beyond} computed from the entry sizes; short-read
        // underlying streams; the visitor on the same kinds of archive; entries the stream must refuse
        for k in 0..420 * scale {
            idx += 1;
            let mut r = super::rng_for(seed, "read.c10", idx);
            let (b, src) = c10_archive(&mut r);
            let codec = codec_table(&b);
            let sizes: Vec<u64> = seek_list(&b).map(|v| v.iter().map(|(_, c)| c.len() as u64).collect()).unwrap_or_default();
            let (regime, pat) = sized_pattern(&mut r, &sizes);
            let pat_s = if pat.is_empty() { "0".to_string() } else { pat.iter().map(|x| x.to_string()).collect::<Vec<_>>().join(",") };
            let inner = [0u64, 1, 2, 3, 7, 64, 4096][(k % 7) as usize];
            g.push(&format!("streamc.{src}.{regime}"), format!("read.streamc bytes={} codec={codec} consume={pat_s} inner={inner} src={src}", hex(&b)));
            if k % 3 == 0 {
                g.push(&format!("stream.c10.{src}"), format!("read.stream bytes={} codec={codec} src={src}", hex(&b)));
            }
        }
        for k in 0..60 * scale {
            idx += 1;
            let mut r = super::rng_for(seed, "read.c10r", idx);
            let (b, j) = c10_refused(&mut r);
            let codec = codec_table(&b);
            let pat = *r.pick(&["0", "1", "7", "1000000"]);
            let inner = [0u64, 1, 2, 3, 7, 64, 4096][(k % 7) as usize];
            g.push("streamc.refused", format!("read.streamc bytes={} codec={codec} consume={pat} inner={inner} refuse={j}", hex(&b)));
            g.push("stream.refused", format!("read.stream bytes={} codec={codec} refuse={j}", hex(&b)));
        }
        // (b4) review finding F5: damaged LARGE compressed entries (damage near the end), k from {0, 1, k, all-1,
        // all, all+1}; the model is told what the codec library hands out before its error (`B:` rows)
        {
            let methods: &[u16] = &[8, 12, 93];
            let ncase = if tier == "quickx" { 6 } else { 24 * scale.min(4) };
            for c in 0..ncase {
                idx += 1;
                let mut r = super::rng_for(seed, "read.dmg", idx);
                let method = methods[((c / 6) % 3) as usize];
                let method = if tier == "quickx" { methods[(c % 3) as usize] } else { method };
                // zstd blocks hold up to 128 KiB: several blocks are needed for data to come out before the damage
                let n = if method == 93 && c % 24 < 18 { 280_000 } else { 70_000 };
                let (b, all, after) = damaged_large(&mut r, method, n, c % 24 < 18);
                let k = match c % 6 { 0 => 0, 1 => 1, 2 => r.range(2, all as u64 - 1) as usize, 3 => all - 1, 4 => all, _ => all + 1 };
                let inner = [0u64, 4096, 64, 7, 0, 1][(c % 6) as usize];
                let pat = vec![k, 1000];
                let codec = codec_table_streamc(&b, &pat, inner as usize);
                let class = if codec.contains(":err:") { "rejected" } else { "accepted" };
                g.push(&format!("streamc.damaged.m{method}.{class}"), format!("read.streamc bytes={} codec={codec} consume={k},1000 inner={inner} dmg={method} after={}", hex(&b), hex(&after)));
            }
        }
        // (b5) the same with SMALL entries behind a 1- or 2-byte underlying stream (the decoder sees the damage late)
        for c in 0..(if tier == "quickx" { 3 } else { 9 * scale }) {
            idx += 1;
            let mut r = super::rng_for(seed, "read.dmgs", idx);
            let method = [8u16, 12, 93][(c % 3) as usize];
            let n = r.range(1500, 4000) as usize;
            let (b, all, after) = damaged_large(&mut r, method, n, true);
            let k = match (c / 3) % 3 { 0 => 1, 1 => r.range(2, all as u64 - 1) as usize, _ => all };
            let inner = 1 + r.below(2);
            let pat = vec![k, 1000];
            let codec = codec_table_streamc(&b, &pat, inner as usize);
            let class = if codec.contains(":err:") { "rejected" } else { "accepted" };
            g.push(&format!("streamc.damaged.small.m{method}.{class}"), format!("read.streamc bytes={} codec={codec} consume={k},1000 inner={inner} dmg={method} after={}", hex(&b), hex(&after)));
        }
        // (c) liars
        for _ in 0..500 * scale {
            idx += 1;
            let mut r = super::rng_for(seed, "read.lie", idx);
            let (mut l, _) = rand_layout(&mut r);
            lie(&mut r, &mut l);
            let b = mkzip::build(&l);
            push(&mut g, "liar", &b.bytes, None, r.chance(1, 3));
        }
        // (c2) AES extra records in every combination, through BOTH readers (the streaming reader parses the
        // local extra field, the seekable one the central extra field)
        for _ in 0..80 * scale {
            idx += 1;
            let mut r = super::rng_for(seed, "read.aesx", idx);
            let content = rand_content(&mut r);
            let mut e = Entry::stored(b"aes-extra", &content);
            let inner = *r.pick(&[0u16, 0, 8, 12, 93, 99, 1]);
            let mut x = vec![0x01, 0x99, 7, 0];
            x.extend_from_slice(&[*r.pick(&[1u8, 2, 2, 3]), 0, 0x41, if r.chance(9, 10) { 0x45 } else { 0x46 }, *r.pick(&[1u8, 2, 3, 3, 4])]);
            x.extend_from_slice(&inner.to_le_bytes());
            if r.chance(1, 8) { x[2] = 6; x.pop(); }
            if r.chance(3, 4) { e.local_extra = x.clone(); }
            if r.chance(3, 4) { e.central_extra = x.clone(); }
            if r.chance(1, 3) { e.flags |= 1; }
            if r.chance(1, 2) { e.method = 99; }
            if inner != 0 && inner != 99 && inner != 1 && r.chance(1, 2) { e.data = compress(inner, &content); }
            // an unencrypted entry that merely CARRIES an AES record is plaintext: its CRC-32 must be enforced by
            // both readers whatever the record says (AE-2 exempts only entries that really are AES-encrypted)
            if e.flags & 1 == 0 && r.chance(1, 2) {
                if r.chance(1, 2) || e.data.is_empty() { e.crc ^= 1 << r.below(32); } else { let p = r.below(e.data.len() as u64) as usize; e.data[p] ^= 1 << r.below(8); }
            }
            let mut l = Layout::new(vec![e, Entry::stored(b"plain", b"second entry")]);
            if r.chance(1, 4) { l.entries.swap(0, 1); }
            let b = mkzip::build(&l);
            push(&mut g, "aes-extra", &b.bytes, None, true);
        }
        // (c3) finding F4: passwords on adversarial ENCRYPTED entries.  ZipCrypto-flagged entries whose stored bytes
        // are the first 0..13 (and a few more) bytes of a correctly encrypted entry - shorter than, equal to and just
        // above the 12-byte header -, with the right password, a wrong one, a wrong one that passes the check byte, the
        // empty one; with and without data descriptor (the check byte is then the DOS time's); with a compressing
        // method; with a declared size that lies in both directions
        for _ in 0..(20 * scale) {
            idx += 1;
            let mut r = super::rng_for(seed, "read.zcshort", idx);
            let content = { let n = r.below(6) as usize; r.bytes(n) };
            let method = *r.pick(&[0u16, 0, 0, 8, 12, 93]);
            let stored = compress(method, &content);
            let dd = r.chance(1, 4);
            let time: u16 = r.below(65536) as u16;
            let crc = crc32fast::hash(&content);
            // the crate compares with the time as it re-encodes it (`DateTime::timepart`): use a valid time
            let time = (time & 0xF800).min(23 << 11) | (time & 0x07E0).min(59 << 5) | (time & 0x1F).min(29);
            let check = if dd { (time >> 8) as u8 } else { (crc >> 24) as u8 };
            let full = zipcrypto_payload(GEN_PW, check, &stored, &mut r);
            let lens: Vec<usize> = if thorough || method != 0 { (0..=full.len().min(14)).collect() } else { (0..=full.len()).collect() };
            for cut in lens {
                let mut e = Entry::stored(b"zc", &content);
                e.method = method;
                e.flags |= 1;
                e.time = time;
                e.data = full[..cut.min(full.len())].to_vec();
                if dd { e.descriptor = *r.pick(&[Desc::Sig32, Desc::NoSig32]); }
                match r.below(6) { 0 => e.lie_central_csize = Some(cut as u64 + 1), 1 => e.lie_central_csize = Some((cut as u64).saturating_sub(1)), 2 => e.lie_central_csize = Some(12), _ => {} }
                let mut l = Layout::new(vec![e, Entry::stored(b"plain", b"second entry")]);
                if r.chance(1, 4) { l.entries.swap(0, 1); }
                let b = mkzip::build(&l).bytes;
                let mut pws: Vec<Vec<u8>> = vec![GEN_PW.to_vec()];
                match r.below(3) { 0 => pws.push(vec![]), 1 => pws.push(b"wrong".to_vec()), _ => { if let Some(p) = passing_password(&full, check) { pws.push(p); } } }
                for pw in pws {
                    match seek_pw_line(&b, &pw) {
                        Some(line) => g.push("seekpw.zc-short", line),
                        None => *g.dist.entry("gen.skipped.schedule-dependent-decoder.pw.zc-short".into()).or_insert(0) += 1,
                    }
                }
            }
        }
        // (c4) AES entries (AE-1 / AE-2, the three strengths, inner method Stored / Deflated) cut at every length around
        // salt + verifier + authentication code: nothing, part of the salt, salt only, salt + 1 verifier byte, the
        // 12 + salt bytes of an empty entry minus one / exactly / plus one, the whole entry minus one byte of the code,
        // the whole entry; declared size = what is there, or more, or less; right / wrong / empty password; method 99
        // with and without the AES record, the AES record without method 99, the record without the encryption flag
        for _ in 0..(12 * scale) {
            idx += 1;
            let mut r = super::rng_for(seed, "read.aesshort", idx);
            let strength = *r.pick(&[1u8, 2, 3]);
            let bits = 64 + 64 * strength as usize;
            let sl = bits / 16;
            let ver = *r.pick(&[1u16, 2]);
            let inner = *r.pick(&[0u16, 0, 8]);
            let content = { let n = r.below(5) as usize * r.below(9) as usize; r.bytes(n) };
            let salt = r.bytes(sl);
            let enc = super::aes::encrypt(bits, inner, GEN_PW, &content, &salt);
            let full = enc.payload.clone();
            let mut cuts: Vec<usize> = vec![0, 1, sl - 1, sl, sl + 1, sl + 2, sl + 3, sl + 11, sl + 12, sl + 13, full.len().saturating_sub(10), full.len() - 1, full.len()];
            cuts.sort(); cuts.dedup();
            for cut in cuts {
                if cut > full.len() { continue; }
                let mut e = Entry::stored(b"aes", &content);
                e.crc = if ver == 2 { 0 } else { enc.crc };
                e.method = 99;
                e.flags |= 1;
                e.data = full[..cut].to_vec();
                let x = super::aes::aes_extra(ver, strength, inner);
                e.local_extra = x.clone();
                e.central_extra = x;
                match r.below(10) {
                    0 => e.lie_central_csize = Some(cut as u64 + 1),
                    1 => e.lie_central_csize = Some((cut as u64).saturating_sub(1)),
                    2 => e.lie_central_csize = Some(sl as u64 + 12),
                    3 => e.lie_central_csize = Some(sl as u64 + 11),
                    4 => e.lie_central_csize = Some(0xFFFF_FFFE),
                    5 => { e.central_extra.clear(); }                       // method 99 without the record
                    6 => { e.method = inner; }                              // the record without method 99
                    7 => { e.flags &= !1; }                                 // the record without the flag
                    _ => {}
                }
                let mut l = Layout::new(vec![e, Entry::stored(b"plain", b"second entry")]);
                if r.chance(1, 4) { l.entries.swap(0, 1); }
                let b = mkzip::build(&l).bytes;
                let mut pws: Vec<Vec<u8>> = vec![GEN_PW.to_vec()];
                match r.below(3) { 0 => pws.push(vec![]), 1 => pws.push(b"wrong".to_vec()), _ => {} }
                for pw in pws {
                    match seek_pw_line(&b, &pw) {
                        Some(line) => g.push("seekpw.aes-short", line),
                        None => *g.dist.entry("gen.skipped.schedule-dependent-decoder.pw.aes-short".into()).or_insert(0) += 1,
                    }
                }
                if cut == full.len() { push(&mut g, "aes-full", &b, None, false); }
            }
        }
        // (c5) K-C: WELL-FORMED WinZip-AES entries from an independent producer whose central extra field holds the
        // AES record together with other records - unknown records and the ZIP64 record (forced on a small entry,
        // "ZIP64 records carry the values") - in every relative order: APPNOTE 4.5 does not order the records of an
        // extra field.  `sizes=` is what the PRODUCER recorded (compressed size, uncompressed size, CRC-32 and
        // length of the plaintext) per entry; the oracle compares it with what the reader reports and decrypts.
        for _ in 0..(24 * scale) {
            idx += 1;
            let mut r = super::rng_for(seed, "read.aesz64", idx);
            let strength = *r.pick(&[1u8, 2, 3]);
            let bits = 64 + 64 * strength as usize;
            let ver = *r.pick(&[1u16, 2]);
            let inner = *r.pick(&[0u16, 0, 8]);
            let content = rand_content(&mut r);
            let salt = r.bytes(bits / 16);
            let enc = super::aes::encrypt(bits, inner, GEN_PW, &content, &salt);
            let mut e = Entry::stored(b"aes64", &content);
            e.crc = if ver == 2 { 0 } else { enc.crc };
            e.method = 99;
            e.flags |= 1;
            e.data = enc.payload.clone();
            e.version_needed = 51;
            let aesx = super::aes::aes_extra(ver, strength, inner);
            e.local_extra = aesx.clone();
            let unknown = |r: &mut Rng| -> Vec<u8> {
                let id = *r.pick(&[0x5455u16, 0x7875, 0xcafe, 0x000a]);
                let pl = { let n = r.below(12) as usize; r.bytes(n) };
                let mut x = id.to_le_bytes().to_vec();
                x.extend_from_slice(&(pl.len() as u16).to_le_bytes());
                x.extend_from_slice(&pl);
                x
            };
            let (before, after) = (r.below(3) as usize, r.below(3) as usize);
            let mut x = vec![];
            for _ in 0..before { x.extend_from_slice(&unknown(&mut r)); }
            x.extend_from_slice(&aesx);
            for _ in 0..after { x.extend_from_slice(&unknown(&mut r)); }
            e.central_extra = x;
            let shape = match r.below(4) {
                0 => { "no-zip64" }
                1 => { e.zip64_central = *r.pick(&[(true, true, false), (false, true, false), (true, true, true)]); e.zip64_central_pos = r.below(before as u64 + 1) as usize; "zip64-first" }
                _ => { e.zip64_central = *r.pick(&[(true, true, false), (false, true, false), (true, false, false), (true, true, true), (false, false, true)]);
                       e.zip64_central_pos = before + 1 + r.below(after as u64 + 1) as usize; "aes-first" }
            };
            let tail = if after > 0 { "aes-then-other" } else { "aes-last" };
            *g.dist.entry(format!("gen.aesz64.{shape}.{tail}")).or_insert(0) += 1;
            let sizes = format!("{}:{}:{}:{}", e.data.len(), content.len(), crc32fast::hash(&content), content.len());
            let mut l = Layout::new(vec![e, Entry::stored(b"plain", b"second entry")]);
            let swap = r.chance(1, 4);
            if swap { l.entries.swap(0, 1); }
            let b = mkzip::build(&l).bytes;
            let sizes = if swap { format!("-;{sizes}") } else { format!("{sizes};-") };
            match seek_pw_line(&b, GEN_PW) {
                Some(line) => g.push("seekpw.aes-z64", format!("{line} sizes={sizes}")),
                None => *g.dist.entry("gen.skipped.schedule-dependent-decoder.pw.aes-z64".into()).or_insert(0) += 1,
            }
        }
        // (d) truncations and substitutions of small seeds
        for s in 0..(if thorough { 12 } else { 3 }) {
            let mut r = super::rng_for(seed, "read.seed", s);
            let (mut l, _) = rand_layout(&mut r);
            l.prefix.truncate(8);
            for e in l.entries.iter_mut() { e.data.truncate(40); e.usize_ = e.usize_.min(40); e.method = 0; e.crc = crc32fast::hash(&e.data); e.usize_ = e.data.len() as u64; }
            l.entries.truncate(2);
            let b = mkzip::build(&l).bytes;
            let step = if thorough { 1 } else { (b.len() / 120).max(1) };
            for cut in (0..b.len()).step_by(step) {
                push(&mut g, "truncate", &b[..cut], None, cut % 3 == 0);
            }
            let nsub = if thorough { 3000 } else { 250 };
            for _ in 0..nsub {
                let mut m = b.clone();
                if m.is_empty() { break; }
                let p = r.below(m.len() as u64) as usize;
                m[p] = r.next() as u8;
                push(&mut g, "subst", &m, None, r.chance(1, 4));
            }
        }
        // (e) random bytes
        for _ in 0..200 * scale {
            idx += 1;
            let mut r = super::rng_for(seed, "read.rand", idx);
            let mut b = { let n = r.below(200) as usize; r.bytes(n) };
            if r.chance(1, 2) { b.extend_from_slice(&[0x50, 0x4b, 0x05, 0x06]); b.extend_from_slice(&{ let n = r.below(30) as usize; r.bytes(n) }); }
            push(&mut g, "random", &b, None, true);
        }
        // (h) archives emitted by CPython's zipfile (F8): stored / deflate / bzip2 / lzma (unsupported method: must
        // fail per entry), archive and entry comments, duplicate names, DOS and other hosts, mkdir, unseekable output
        // (data descriptors), force_zip64 seekable and unseekable, prefixes of 0..64 KiB prepended or written
        // through (absolute offsets).  The oracle compares with what Python says it wrote.
        match python_archives(seed, if thorough { 2100 } else { 140 }) {
            None => { *g.dist.entry("gen.seek.python.skipped(no python3)".into()).or_insert(0) += 1; }
            Some(v) => for m in v {
                let bytes = unhex(&m["bytes"]).unwrap_or_default();
                let kind = format!("python.{}", m["kind"]);
                let codec = codec_table(&bytes);
                g.push(&format!("seek.{kind}"), format!("read.seek bytes={} codec={codec} expect={} pymeta={}", hex(&bytes), m["expect"], m["pymeta"]));
                match m.get("stream").map(|s| s.as_str()) {
                    Some("src") => g.push(&format!("stream.{kind}"), format!("read.stream bytes={} codec={codec} src=python", hex(&bytes))),
                    Some("refuse") => g.push(&format!("stream.{kind}.refused"), format!("read.stream bytes={} codec={codec} refuse=0", hex(&bytes))),
                    _ => g.push(&format!("stream.{kind}.other"), format!("read.stream bytes={} codec={codec}", hex(&bytes))),
                }
            }
        }
        // (f) pre-allocation liars: junk + an end record declaring as many entries as the guard at
        // read.rs:413 lets through (count = cde_start_pos), one more (guard trips), and 2^64-1; plus
        // archives with many real entries.  `read.mem` opens only; the oracle measures the peak heap.
        let sizes: &[usize] = if thorough { &[0, 1, 45, 46, 1000, 20000, 65535, 65536, 300000, 2000000] } else { &[0, 1, 46, 1000, 20000, 65535, 200000] };
        for &p in sizes {
            idx += 1;
            let mut r = super::rng_for(seed, "read.mem", idx);
            let junk = r.bytes(p);
            for count in [p as u64, p as u64 + 1, (p as u64).saturating_sub(1), 4 * p as u64, 64 * p as u64] {
                let b = eocd_liar(&junk, count);
                g.push("mem.liar32", format!("read.mem bytes={}", hex(&b)));
                g.push("append.liar32", format!("read.append bytes={}", hex(&b)));
            }
            for count in [p as u64 + 76, p as u64 + 77, p as u64, 4 * (p as u64 + 76), 64 * (p as u64 + 76), u64::MAX, 1u64 << 32] {
                let b = eocd64_liar(&junk, count);
                g.push("mem.liar64", format!("read.mem bytes={}", hex(&b)));
                g.push("append.liar64", format!("read.append bytes={}", hex(&b)));
            }
        }
        // (f2) the repaired guard (`count <= (cde_start_pos - directory_start) / 46`) at its limits: the directory
        // declared at offset 0 so that the whole input counts as room, counts m-1 / m / m+1 / 46*m (what the
        // unrepaired guard admitted) around m = room/46; the directory declared in the middle and one byte before the
        // end record; junk of a length that makes room an exact multiple of 46 and one less
        let sizes2: &[usize] = if thorough { &[0, 16, 45, 46, 62, 1000, 20010, 65535, 300000, 2000000] } else { &[0, 16, 62, 1000, 20010, 65535, 200000] };
        for &p in sizes2 {
            idx += 1;
            let mut r = super::rng_for(seed, "read.mem2", idx);
            let junk = r.bytes(p);
            let room64 = p as u64 + 76;
            let m = room64 / 46;
            for count in [m.saturating_sub(1), m, m + 1, 46 * m, room64] {
                let b = eocd64_liar_at(&junk, count, 0);
                g.push("mem.liar64.room", format!("read.mem bytes={}", hex(&b)));
                g.push("append.liar64.room", format!("read.append bytes={}", hex(&b)));
            }
            for ds in [room64 / 2, room64 - 1, room64 - 46, room64 - 45, room64 + 1] {
                let room = room64.saturating_sub(ds);
                for count in [room / 46, room / 46 + 1] {
                    let b = eocd64_liar_at(&junk, count, ds);
                    g.push("mem.liar64.room-ds", format!("read.mem bytes={}", hex(&b)));
                }
            }
            // 32-bit end record: room = the declared directory size
            for size in [p as u64, (p as u64).saturating_sub(1), p as u64 / 2] {
                let m32 = size / 46;
                for count in [m32.saturating_sub(1), m32, m32 + 1, size] {
                    let b = eocd_liar_sized(&junk, count, size as u32);
                    g.push("mem.liar32.room", format!("read.mem bytes={}", hex(&b)));
                    g.push("append.liar32.room", format!("read.append bytes={}", hex(&b)));
                }
            }
        }
        // (f3) the worst VALID request: a directory of minimal headers and nothing else (one slot per 46 bytes),
        // also with the count one too high / too low, and a directory hidden in the end record's comment
        // (the list-based model pays O(len) per read: directories of more than ~1000 headers go through the
        // implementation-only `dense=` measurement below)
        for n in if thorough { vec![1usize, 2, 45, 300, 1000, 4000] } else { vec![1usize, 45, 1000] } {
            let b = dense_directory(n);
            g.push("mem.dense", format!("read.mem bytes={}", hex(&b)));
            if n <= 300 { g.push("append.dense", format!("read.append bytes={}", hex(&b))); }
            let mut lo = b.clone();
            let p = 46 * n;
            lo[p + 8..p + 10].copy_from_slice(&((n - 1) as u16).to_le_bytes());
            lo[p + 10..p + 12].copy_from_slice(&((n - 1) as u16).to_le_bytes());
            g.push("mem.dense-1", format!("read.mem bytes={}", hex(&lo)));
            let mut hi = b.clone();
            hi[p + 8..p + 10].copy_from_slice(&((n + 1) as u16).to_le_bytes());
            hi[p + 10..p + 12].copy_from_slice(&((n + 1) as u16).to_le_bytes());
            g.push("mem.dense+1", format!("read.mem bytes={}", hex(&hi)));
        }
        // implementation-only: the oracle builds `dense_directory(n)` itself and measures the open (the model answers
        // for the small `bytes` of the line)
        for n in if thorough { vec![4000usize, 20000, 65534, 65535, 70000, 500000] } else { vec![4000usize, 65535, 70000] } {
            g.push("mem.dense.big", format!("read.mem bytes={} dense={n}", hex(&dense_directory(1))));
        }
        for k in [1usize, 2, 100, 700] {
            let b = directory_in_comment(k);
            g.push("mem.incomment", format!("read.mem bytes={}", hex(&b)));
            g.push("append.incomment", format!("read.append bytes={}", hex(&b)));
        }
        // (g) append liars (D16 regression cases): empty ZIP64 archives whose directory offset points
        // beyond the end record — `new_append` must answer InvalidArchive
        for off in [99u64, 1 << 16, 1 << 32, 1 << 40, u64::MAX - 1, u64::MAX] {
            let mut b = eocd64_liar(&[], 0);
            b[48..56].copy_from_slice(&off.to_le_bytes());
            g.push("append.beyond", format!("read.append bytes={}", hex(&b)));
            g.push("mem.beyond", format!("read.mem bytes={}", hex(&b)));
        }
        // (g2) ZIP64 end records that lie about BOTH the entry count and the directory offset (count <= offset):
        // the pre-allocation guard must compare the count with where the end record was FOUND, never with a
        // declared offset
        for (cnt, off) in [(1u64 << 20, 1u64 << 20), (1 << 20, 1 << 40), (1 << 24, u64::MAX - 100), (1 << 61, 1 << 62), (70000, 70000), (300, 1 << 32)] {
            let mut b = eocd64_liar(&[], cnt);
            b[48..56].copy_from_slice(&off.to_le_bytes());
            g.push("mem.liar64off", format!("read.mem bytes={}", hex(&b)));
            g.push("seek.liar64off", format!("read.seek bytes={} codec=-", hex(&b)));
        }
        for n in if thorough { vec![50usize, 400, 3000] } else { vec![50usize, 400] } {
            let entries: Vec<Entry> = (0..n).map(|i| Entry::stored(format!("f{i}").as_bytes(), b"")).collect();
            let b = mkzip::build(&Layout::new(entries)).bytes;
            g.push("mem.many", format!("read.mem bytes={}", hex(&b)));
        }
        g
    }

    fn run(&self, line: &str) -> String {
        let (op, a) = parse_line(line);
        let bytes = match get_hex(&a, "bytes") { Some(b) => b, None => return "bad-op".into() };
        match op.as_str() {
            "read.seek" => {
                let pw = match a.get("pw").map(|s| s.as_str()) { None | Some("none") => None, Some(h) => unhex(h) };
                run_seek(bytes, pw)
            }
            "read.stream" => run_stream(bytes),
            "read.append" => run_append(bytes),
            "read.mem" => run_mem(bytes),
            "read.streamc" => {
                let pat: Vec<usize> = a.get("consume").map(|s| if s == "-" { vec![] } else { s.split(',').filter_map(|x| x.parse().ok()).collect() }).unwrap_or_default();
                run_streamc(bytes, pat, get_u64(&a, "inner").unwrap_or(0) as usize)
            }
            _ => "bad-op".into(),
        }
    }

    fn nontrivial(&self, _line: &str, resp: &str) -> bool {
        resp.starts_with("open=ok") || resp.starts_with("visit=ok") || resp.starts_with("append=ok") || resp.starts_with("end=ok files=")
    }

    fn stats(&self) -> Vec<(String, u64)> {
        use std::sync::atomic::Ordering::Relaxed;
        vec![
            ("mem.measured_cases".into(), MEASURED.load(Relaxed)),
            ("mem.sizeof_ZipFileData".into(), std::mem::size_of::<zip::verif_hooks::ZipFileData>() as u64),
            ("mem.budget_K_bytes_per_input_byte".into(), MEM_K as u64),
            ("mem.slot_bytes_per_reserved_element".into(), slot_bytes() as u64),
            ("mem.budget_C_bytes".into(), 1 << 20),
            ("mem.max_peak_bytes".into(), MAX_PEAK.load(Relaxed)),
            ("mem.max_peak_per_input_byte_x100(len>=40000)".into(), MAX_RATIO_X100.load(Relaxed)),
            ("time.max_case_us".into(), MAX_US.load(Relaxed)),
            ("time.limit_us".into(), TIME_LIMIT_US as u64),
        ]
    }

    fn oracle(&self, line: &str, resp: &str) -> Vec<OracleFailure> {
        let mut f = vec![];
        if resp.contains("panic") {
            f.push(OracleFailure { what: format!("panic: {}", &resp[..resp.len().min(200)]) });
            return f;
        }
        if resp.contains("fin=skipped") {
            f.push(OracleFailure { what: format!("new_append accepted a central directory start more than 1 MiB beyond the end of the input ({}): finish()/Drop would write there (zero fill up to that offset, capacity-overflow panic or allocation abort) - D16 regressed", resp.split(' ').find(|t| t.starts_with("ds=")).unwrap_or("ds=?")) });
        }
        let (op, a) = parse_line(line);
        // resources (measured on the implementation alone): wall time of the whole case, peak heap
        // while opening
        if let Some(bytes) = get_hex(&a, "bytes") {
            use std::sync::atomic::Ordering::Relaxed;
            let t0 = std::time::Instant::now();
            let again = self.run(line);
            let mut us = t0.elapsed().as_micros();
            // wall time is only a proxy for work done: on a loaded machine the process may simply not have been
            // scheduled, so a slow measurement is repeated and the fastest of three counts
            let mut tries = 0;
            while us > TIME_LIMIT_US && tries < 2 {
                let t1 = std::time::Instant::now();
                let _ = self.run(line);
                us = us.min(t1.elapsed().as_micros());
                tries += 1;
            }
            MAX_US.fetch_max(us as u64, Relaxed);
            if us > TIME_LIMIT_US {
                f.push(OracleFailure { what: format!("case took {us} us (> {TIME_LIMIT_US} us) on {} input bytes", bytes.len()) });
            }
            if again != resp {
                f.push(OracleFailure { what: "non-deterministic response on re-run".into() });
            }
            let peak = measure_open(&op, &bytes);
            MEASURED.fetch_add(1, Relaxed);
            MAX_PEAK.fetch_max(peak as u64, Relaxed);
            if bytes.len() >= RATIO_MIN_LEN {
                MAX_RATIO_X100.fetch_max((peak as u64 * 100) / bytes.len() as u64, Relaxed);
            }
            if let Some(n) = get_u64(&a, "dense") {
                // the worst valid request at scale, implementation only: n minimal headers, end record declaring n
                let big = dense_directory(n as usize);
                let t1 = std::time::Instant::now();
                let opened = { let b = big.clone(); catch(move || zip::ZipArchive::new(Cursor::new(b)).map(|a| a.len()).ok()) };
                let us = t1.elapsed().as_micros();
                MAX_US.fetch_max(us as u64, Relaxed);
                if opened != Ok(Some(n as usize)) {
                    f.push(OracleFailure { what: format!("a directory of {n} minimal central headers does not open with {n} entries: {opened:?}") });
                }
                if us > TIME_LIMIT_US {
                    f.push(OracleFailure { what: format!("opening a directory of {n} minimal headers took {us} us (> {TIME_LIMIT_US} us)") });
                }
                let pk = measure_open("read.mem", &big);
                MEASURED.fetch_add(1, Relaxed);
                MAX_PEAK.fetch_max(pk as u64, Relaxed);
                MAX_RATIO_X100.fetch_max((pk as u64 * 100) / big.len() as u64, Relaxed);
                if pk > mem_budget(big.len()) {
                    f.push(OracleFailure { what: format!("peak heap while opening = {pk} bytes > budget {} = {MEM_K}*len + 1 MiB for len = {} (directory of {n} minimal headers)", mem_budget(big.len()), big.len()) });
                }
            }
            let budget = mem_budget(bytes.len());
            if peak > budget {
                f.push(OracleFailure { what: format!("peak heap while opening = {peak} bytes > budget {budget} = {MEM_K}*len + 1 MiB for len = {} ({} bytes of heap per input byte)", bytes.len(), peak / bytes.len().max(1)) });
            }
        }
        if op == "read.streamc" {
            // however much of each entry is consumed and however the underlying reader chunks its reads, the
            // stream yields the same entries in the same order and ends the same way as when everything is read
            let bytes = get_hex(&a, "bytes").unwrap_or_default();
            let full = run_streamc(bytes, vec![usize::MAX / 2], 0);
            let names = |s: &str| -> Vec<String> { s.split(" | ").skip(1).map(|e| e.split(" got=").next().unwrap_or("").to_string()).collect() };
            let end = |s: &str| s.split(" | ").next().unwrap_or("").to_string();
            // a consumer that stops early does not see a checksum error the full read reports; entries and the end agree otherwise
            if full.starts_with("end=ok") && (end(&full) != end(resp) || names(&full) != names(resp)) {
                f.push(OracleFailure { what: format!("streaming: entries differ from the read-everything run: `{}` vs `{}`", &resp[..resp.len().min(160)], &full[..full.len().min(160)]) });
            }
            // C10: an entry the stream cannot serve (data descriptor / encryption bit) is an error, never data
            if a.contains_key("refuse") && resp != "end=err:unsupported" {
                f.push(OracleFailure { what: format!("streaming: an encrypted / data-descriptor entry did not end the stream with UnsupportedArchive: `{}`", &resp[..resp.len().min(160)]) });
            }
            // C10 / F5: behind a DAMAGED entry — whatever part of it the consumer asked for, data or error — the
            // stream delivers the next entry intact and then the end of entries
            if a.contains_key("dmg") {
                let after = get_hex(&a, "after").unwrap_or_default();
                let ents: Vec<&str> = resp.split(" | ").skip(1).collect();
                let want = format!("ok:{}:{}", crc32fast::hash(&after), after.len());
                if !resp.starts_with("end=ok files=2") || ents.len() != 2 || ents[1].split(" got=").nth(1) != Some(want.as_str()) {
                    f.push(OracleFailure { what: format!("C10: the entry behind a damaged entry is not delivered intact (want got={want}): `{}`", &resp[..resp.len().min(60)]) });
                }
                let k: usize = a.get("consume").and_then(|s| s.split(',').next()).and_then(|x| x.parse().ok()).unwrap_or(0);
                let got0 = ents.first().and_then(|e| e.split(" got=").nth(1)).unwrap_or("");
                // never MORE than asked for, and data only in the amount asked for
                if got0.starts_with("ok:") && got0.rsplit(':').next().and_then(|x| x.parse::<usize>().ok()).map(|n| n > k).unwrap_or(true) {
                    f.push(OracleFailure { what: format!("C10: damaged entry, {k} bytes requested: `{got0}`") });
                }
            }
            // C10: the streamed entries are the seekable reader's entries — names, method, timestamp, CRC, sizes —
            // and each consumer sees the prefix of the seekable reader's content it asked for
            if a.contains_key("src") {
                let bytes = get_hex(&a, "bytes").unwrap_or_default();
                let pat: Vec<usize> = a.get("consume").map(|s| s.split(',').filter_map(|x| x.parse().ok()).collect()).unwrap_or_default();
                match seek_list(&bytes) {
                    Err(e) => f.push(OracleFailure { what: format!("C10: the seekable reader fails on a generated archive: {e}") }),
                    Ok(sl) => {
                        let ents: Vec<&str> = resp.split(" | ").skip(1).collect();
                        if !resp.starts_with(&format!("end=ok files={}", sl.len())) || ents.len() != sl.len() {
                            f.push(OracleFailure { what: format!("C10: stream yields `{}`, the seekable reader has {} entries", &resp[..resp.len().min(80)], sl.len()) });
                        } else {
                            for (i, (e, (meta, content))) in ents.iter().zip(sl.iter()).enumerate() {
                                let (smeta, got) = e.split_once(" got=").unwrap_or((e, ""));
                                if let Some(d) = same_stream_fields(smeta, meta) {
                                    f.push(OracleFailure { what: format!("C10: entry {i} differs between the streaming and the seekable reader: {d}") });
                                }
                                let k = if pat.is_empty() { 0 } else { pat[i % pat.len()] };
                                let want = &content[..k.min(content.len())];
                                let exp = format!("ok:{}:{}", crc32fast::hash(want), want.len());
                                if got != exp {
                                    f.push(OracleFailure { what: format!("C10: entry {i}, {k} bytes requested of {}: stream delivered `{got}`, the seekable reader's content gives `{exp}`", content.len()) });
                                }
                            }
                        }
                    }
                }
            }
            return f;
        }
        if op == "read.stream" {
            if a.contains_key("refuse") && resp != "visit=err:unsupported" {
                f.push(OracleFailure { what: format!("visitor: an encrypted / data-descriptor entry did not end the visit with UnsupportedArchive: `{}`", &resp[..resp.len().min(160)]) });
            }
            if a.contains_key("src") {
                // C10: visit_file once per entry in order with the seekable reader's names/sizes/method/time/content,
                // then visit_additional_metadata once per entry, in order, carrying the central comment and mode
                let bytes = get_hex(&a, "bytes").unwrap_or_default();
                match seek_list(&bytes) {
                    Err(e) => f.push(OracleFailure { what: format!("C10: the seekable reader fails on a generated archive: {e}") }),
                    Ok(sl) => {
                        let parts: Vec<&str> = resp.split(" | ").skip(1).collect();
                        let files: Vec<&str> = parts.iter().filter(|p| p.starts_with("file ")).cloned().collect();
                        let metas: Vec<&str> = parts.iter().filter(|p| p.starts_with("meta ")).cloned().collect();
                        let n = sl.len();
                        let in_order = parts.iter().take(n).all(|p| p.starts_with("file ")) && parts.iter().skip(n).all(|p| p.starts_with("meta "));
                        if !resp.starts_with(&format!("visit=ok files={n} metas={n}")) || files.len() != n || metas.len() != n || !in_order {
                            f.push(OracleFailure { what: format!("C10: visit must deliver {n} files then {n} metadata records: `{}`", &resp[..resp.len().min(100)]) });
                        } else {
                            for i in 0..n {
                                let (meta, content) = &sl[i];
                                let (fmeta, dec) = files[i].split_once(" dec=").unwrap_or((files[i], ""));
                                if let Some(d) = same_stream_fields(fmeta, meta) {
                                    f.push(OracleFailure { what: format!("C10: visit_file {i} differs from the seekable reader: {d}") });
                                }
                                let exp = format!("ok:{}:{}", crc32fast::hash(content), content.len());
                                if dec != exp {
                                    f.push(OracleFailure { what: format!("C10: visit_file {i} content `{dec}` vs seekable `{exp}`") });
                                }
                                for k in ["name", "raw", "mode", "comment"] {
                                    if meta_field(metas[i], k) != meta_field(meta, k) {
                                        f.push(OracleFailure { what: format!("C10: visit_additional_metadata {i}: {k} `{}` vs the seekable reader's `{}`", meta_field(metas[i], k), meta_field(meta, k)) });
                                    }
                                }
                            }
                        }
                    }
                }
            }
            return f;
        }
        if op != "read.seek" { return f; }
        if let Some(pw) = a.get("pw").filter(|p| p.as_str() != "none").and_then(|p| unhex(p)) {
            // implementation only (finding F4): a password changes nothing for an entry whose encryption flag is
            // clear (read.rs: `(Some(_), false) => password = None`), whatever else the entry claims - AES record,
            // method 99; and an entry WITH the flag is never served without one
            let bytes = get_hex(&a, "bytes").unwrap_or_default();
            let flags: Vec<bool> = directory_entries(&bytes).iter().map(|e| e.encrypted).collect();
            let plain = run_seek(bytes, None);
            let dec = |s: &str| -> Vec<String> { s.split(" | ").skip(1).map(|e| e.split(" dec=").nth(1).unwrap_or("").split(" byname=").next().unwrap_or("").to_string()).collect() };
            let (with_pw, without) = (dec(resp), dec(&plain));
            if with_pw.len() == without.len() {
                for (i, (x, y)) in with_pw.iter().zip(without.iter()).enumerate() {
                    match flags.get(i) {
                        // (an AES record without the flag: `InvalidPassword` from by_index_decrypt is what by_index
                        // reports as the password-required error - D2)
                        Some(false) if x != y && !(x == "invalidpw" && y == "err:passwordrequired") => f.push(OracleFailure { what: format!("entry {i} is not encrypted, yet by_index_decrypt(pw={}) gives `{x}` and by_index `{y}`: the password must be ignored", hex(&pw)) }),
                        Some(true) if y != "err:passwordrequired" && !y.starts_with("err:") => f.push(OracleFailure { what: format!("entry {i} carries the encryption flag, yet by_index without a password gives `{y}`") }),
                        _ => {}
                    }
                }
            } else {
                f.push(OracleFailure { what: format!("the password changes the number of entries listed: {} vs {}", with_pw.len(), without.len()) });
            }
        }
        // what the PRODUCER recorded for an encrypted entry (class aes-z64): sizes as listed, plaintext as decrypted
        if let Some(sz) = a.get("sizes") {
            let ents: Vec<&str> = resp.split(" | ").skip(1).collect();
            let want: Vec<&str> = sz.split(';').collect();
            if !resp.starts_with("open=ok") || ents.len() != want.len() {
                f.push(OracleFailure { what: format!("K-C aes-extra-order: well-formed archive not opened as produced ({} entries): `{}`", want.len(), &resp[..resp.len().min(120)]) });
            } else {
                for (i, (e, w)) in ents.iter().zip(want.iter()).enumerate() {
                    let xs: Vec<&str> = w.split(':').collect();
                    if xs.len() != 4 { continue; }
                    let (cs, us) = (meta_field(e, "cs"), meta_field(e, "us"));
                    if cs != xs[0] || us != xs[1] {
                        f.push(OracleFailure { what: format!("K-C aes-extra-order: entry {i}: the producer recorded compressed size {} / size {} (central header + ZIP64 record), the reader reports {cs} / {us}", xs[0], xs[1]) });
                    }
                    if !e.contains(&format!(" ok:{}:{} byname=", xs[2], xs[3])) {
                        f.push(OracleFailure { what: format!("K-C aes-extra-order: entry {i}: the right password does not return the producer's plaintext (crc {} len {}): `{}`", xs[2], xs[3], &e[e.len().saturating_sub(90)..]) });
                    }
                }
            }
        }
        let exp = match a.get("expect") { Some(e) => e.clone(), None => return f };
        let parts: Vec<&str> = exp.split(';').collect();
        if parts.len() < 3 { return f; }
        let n: usize = parts[0].parse().unwrap_or(0);
        let want_head = format!("open=ok n={} off={} comment={}", n, parts[1], parts[2]);
        if !resp.starts_with(&want_head) {
            f.push(OracleFailure { what: format!("well-formed archive not opened as produced: want `{want_head}` got `{}`", &resp[..resp.len().min(120)]) });
            return f;
        }
        let ents: Vec<&str> = resp.split(" | ").skip(1).collect();
        if ents.len() != n {
            f.push(OracleFailure { what: format!("entry count {} != {}", ents.len(), n) });
            return f;
        }
        // last index per name, for by_name
        for (i, (e, x)) in ents.iter().zip(parts[3..].iter()).enumerate() {
            let xs: Vec<&str> = x.split(':').collect();
            if xs.len() != 4 { continue; }
            let (name, m, crc, len) = (xs[0], xs[1], xs[2], xs[3]);
            // the producer's name BYTES are what `name_raw()` must return; the decoded `name()` equals them for
            // ASCII names (non-ASCII unflagged names are decoded as CP437: C19's subject, checked by the text stream)
            let ascii = name.as_bytes().chunks(2).all(|h| h[0] < b'8');
            if !e.contains(&format!(" raw={name} ")) || (ascii && !e.contains(&format!(" name={name} "))) {
                f.push(OracleFailure { what: format!("entry {i}: name differs from the producer's ({name})") });
            }
            if !e.contains(&format!(" m={m} ")) {
                f.push(OracleFailure { what: format!("entry {i}: method differs from the producer's ({m})") });
            }
            let unsupported = !(m == "0" || m == "8" || m == "12" || m == "93");
            // an unsupported method fails cleanly PER ENTRY: metadata and raw bytes are served, decoding is refused
            if unsupported && !e.contains(" dec=err:unsupported ") {
                f.push(OracleFailure { what: format!("entry {i}: method {m} is not decodable, by_index must answer UnsupportedArchive for this entry alone: `{}`", &e[e.len().saturating_sub(90)..]) });
            }
            if !unsupported && !e.contains(&format!(" ok:{crc}:{len} byname=")) {
                f.push(OracleFailure { what: format!("entry {i}: content differs from the producer's (crc {crc} len {len}): `{}`", &e[e.len().saturating_sub(90)..]) });
            }
            // by_name returns the LAST entry with that name
            let last = parts[3..].iter().rposition(|y| y.split(':').next() == Some(name)).unwrap_or(i);
            let chs_last = ents[last].split(" chs=").nth(1).and_then(|s| s.split(' ').next()).unwrap_or("?");
            // ... and an undecodable last entry of that name makes the lookup fail the way by_index does for it
            let last_m = parts[3..][last].split(':').nth(1).unwrap_or("0");
            let want_byname = if last_m == "0" || last_m == "8" || last_m == "12" || last_m == "93" { chs_last.to_string() } else { "err:unsupported".to_string() };
            if !e.ends_with(&format!("byname={want_byname}")) {
                f.push(OracleFailure { what: format!("entry {i}: by_name does not return the last entry of that name") });
            }
        }
        // what the PRODUCER (CPython zipfile) says it wrote, field by field
        if let Some(pm) = a.get("pymeta").filter(|p| p.as_str() != "-") {
            for (i, (e, want)) in ents.iter().zip(pm.split(';')).enumerate() {
                for kv in want.split(',') {
                    let (k, v) = kv.split_once('=').unwrap_or((kv, ""));
                    let got = meta_field(e, k);
                    let ok = match k {
                        "bit3" => true,
                        // a DOS read-only entry: permission bits only
                        "perm" => meta_field(e, "mode").parse::<u32>().map(|m| (m & 0o777).to_string() == v).unwrap_or(false),
                        _ => got == v,
                    };
                    if !ok { f.push(OracleFailure { what: format!("entry {i}: {k} = `{got}`, the producer (CPython zipfile) wrote `{v}`") }); }
                }
            }
        }
        f
    }
}

// ---------------------------------------------------------------------------------------------
/// `eocdwin`: the end-record search window at its limits (comment + trailing bytes of 65 514 … 65 536
/// bytes).  Separate from `read` because each case costs the list-based model several seconds.
pub struct EocdWin;

impl Stream for EocdWin {
    fn name(&self) -> &'static str { "eocdwin" }

    fn gen(&self, _seed: u64, tier: &str) -> GenOut {
        let mut g = GenOut::default();
        g.rule = "one-entry archives whose end record lies at the far end of the 65 557-byte search window: comment lengths 65 514 / 65 515 / 65 534 / 65 535, comment + trailing garbage summing to 65 535, and one byte more (record outside the window: must be an error). non-trivial = the archive opens".into();
        let cases: &[(usize, usize)] = if tier == "thorough" { &[(65535, 0), (65534, 0), (65515, 0), (65514, 0), (100, 65435), (0, 65535), (65535, 1), (100, 65436)] } else { &[(65535, 0), (65515, 0), (100, 65435), (65535, 1)] };
        for &(clen, tr) in cases {
            let mut l = Layout::new(vec![Entry::stored(b"a", b"hello")]);
            l.comment = vec![b'c'; clen];
            l.trailing = vec![0u8; tr];
            let b = mkzip::build(&l);
            let exp = if clen + tr <= 65535 { format!(" expect=1;0;{};61:0:{}:5", hex(&l.comment), crc32fast::hash(b"hello")) } else { String::new() };
            g.push("window", format!("read.seek bytes={} codec=-{exp}", hex(&b.bytes)));
        }
        g
    }
    fn run(&self, line: &str) -> String { ReadStream.run(line) }
    fn nontrivial(&self, line: &str, resp: &str) -> bool { ReadStream.nontrivial(line, resp) }
    fn oracle(&self, line: &str, resp: &str) -> Vec<OracleFailure> { ReadStream.oracle(line, resp) }
}
