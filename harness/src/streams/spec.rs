//! `spec.*` (C03): cross-check of the Lean format specification.
//!
//! One parameter line describes a layout (entries: made-by, versions, flags, method, time, date, crc,
//! uncompressed size, name, central extra, comment, attributes, forced ZIP64 triple, local extra,
//! local ZIP64, descriptor kind, gap, stored data, local version; archive: prefix, gap before the
//! central directory, comment, forced ZIP64 end records + their versions, trailing bytes).
//!
//! * implementation side (`run`): the bytes the independent Rust builder `crate::mkzip` lays out
//!   (length, CRC-32, hex when small), then what the REAL `zip::ZipArchive` reports on them;
//! * model side (driver op `spec.build`): the bytes `Spec.Zip.build` lays out, then the view
//!   `Spec.Zip.viewOf` that theorem `reader_on_wf` says the reader returns.
//!   A difference in the first part means the two builders disagree about the format; a difference in
//!   the second part means the crate does not read a well-formed foreign archive as the theorem says.
//! * oracle (implementation only): the crate's view is compared with the layout parameters by code
//!   that knows nothing of the Lean side; a sample of cases is also opened with CPython `zipfile`.
//!
//! Generalised layouts (`Spec.Zip.LayoutG`, finding F7): a line may carry `order=` (the entry indices the central
//! directory lists, in ITS order: permutation, sub-list, repetitions), `sat=` (1: markers in the plain end record
//! next to forced ZIP64 end records, 0: the real values), `ext=` (extensible data sector of the ZIP64 end record),
//! `egap=` (bytes in front of the ZIP64 end record), `zp=` / `zd=` (per entry: number of foreign central extra
//! records in front of the ZIP64 record / 1 = it carries the disk-start field).  The driver then builds with
//! `Spec.Zip.buildG` and answers `Spec.Zip.viewOfG` (theorem `reader_on_wf_cd_order`); this side builds with
//! mkzip's `cd_order`, `eocd_unsaturated`, `end64_ext`, `gap_before_end`, `zip64_central_pos`, `zip64_disk`.
use super::{GenOut, OracleFailure, Stream};
use crate::mkzip::{self, Desc, Entry, Layout};
use crate::prng::Rng;
use crate::util::*;
use std::io::{Cursor, Read, Write};

pub struct SpecStream;

fn desc_code(d: Desc) -> u8 {
    match d {
        Desc::None => 0,
        Desc::Sig32 => 1,
        Desc::NoSig32 => 2,
        Desc::Sig64 => 3,
        Desc::NoSig64 => 4,
    }
}
fn desc_of(n: u64) -> Desc {
    match n {
        1 => Desc::Sig32,
        2 => Desc::NoSig32,
        3 => Desc::Sig64,
        4 => Desc::NoSig64,
        _ => Desc::None,
    }
}

fn entry_param(e: &Entry) -> String {
    let z = (e.zip64_central.0 as u8) | ((e.zip64_central.1 as u8) << 1) | ((e.zip64_central.2 as u8) << 2);
    format!(
        "{},{},{},{},{},{},{},{},{},{},{},{},{},{},{},{},{},{},{},{}",
        e.made_by, e.version_needed, e.flags, e.method, e.time, e.date, e.crc, e.usize_,
        hex(&e.name), hex(&e.central_extra), hex(&e.comment), e.int_attrs, e.ext_attrs, z,
        hex(&e.local_extra), e.zip64_local as u8, desc_code(e.descriptor), hex(&e.gap_before),
        hex(&e.data), e.local_version.map(|v| v as u32).unwrap_or(65536)
    )
}

fn parse_entry(s: &str) -> Option<Entry> {
    let p: Vec<&str> = s.split(',').collect();
    if p.len() != 20 {
        return None;
    }
    let n = |i: usize| -> Option<u64> { p[i].parse().ok() };
    let mut e = Entry::stored(b"", b"");
    e.made_by = n(0)? as u16;
    e.version_needed = n(1)? as u16;
    e.flags = n(2)? as u16;
    e.method = n(3)? as u16;
    e.time = n(4)? as u16;
    e.date = n(5)? as u16;
    e.crc = n(6)? as u32;
    e.usize_ = n(7)?;
    e.name = unhex(p[8])?;
    e.central_extra = unhex(p[9])?;
    e.comment = unhex(p[10])?;
    e.int_attrs = n(11)? as u16;
    e.ext_attrs = n(12)? as u32;
    let z = n(13)?;
    e.zip64_central = (z & 1 == 1, z & 2 == 2, z & 4 == 4);
    e.local_extra = unhex(p[14])?;
    e.zip64_local = n(15)? == 1;
    e.descriptor = desc_of(n(16)?);
    e.gap_before = unhex(p[17])?;
    e.data = unhex(p[18])?;
    let lv = n(19)?;
    e.local_version = if lv >= 65536 { None } else { Some(lv as u16) };
    Some(e)
}

fn layout_line(l: &Layout, n_distinct: usize, rep: usize, py: bool) -> String {
    let mut s = format!(
        "spec.build pre={} gapcd={} comment={} z64end={} v64a={} v64b={} trailing={} n={} rep={} py={}",
        hex(&l.prefix), hex(&l.gap_before_cd), hex(&l.comment), l.zip64_eocd as u8, l.end64_versions.0,
        l.end64_versions.1, hex(&l.trailing), n_distinct, rep, py as u8
    );
    for (i, e) in l.entries.iter().take(n_distinct).enumerate() {
        s += &format!(" e{}={}", i, entry_param(e));
    }
    // generalised parameters: only written when used, so that plain layouts keep going through `Spec.Zip.build`
    let list = |v: Vec<String>| if v.is_empty() { "-".to_string() } else { v.join(",") };
    if let Some(o) = &l.cd_order { s += &format!(" order={}", list(o.iter().map(|i| i.to_string()).collect())); }
    if l.eocd_unsaturated { s += " sat=0"; }
    if !l.end64_ext.is_empty() { s += &format!(" ext={}", hex(&l.end64_ext)); }
    if !l.gap_before_end.is_empty() { s += &format!(" egap={}", hex(&l.gap_before_end)); }
    if l.entries.iter().any(|e| e.zip64_central_pos != 0) { s += &format!(" zp={}", list(l.entries.iter().map(|e| e.zip64_central_pos.to_string()).collect())); }
    if l.entries.iter().any(|e| e.zip64_disk.is_some()) { s += &format!(" zd={}", list(l.entries.iter().map(|e| (e.zip64_disk.is_some() as u8).to_string()).collect())); }
    s
}

/// the indices the central directory lists, in its order (indices beyond the entry list name nothing)
fn listed(l: &Layout) -> Vec<usize> {
    match &l.cd_order {
        Some(o) => o.iter().cloned().filter(|i| *i < l.entries.len()).collect(),
        None => (0..l.entries.len()).collect(),
    }
}

fn parse_layout(line: &str) -> Option<(Layout, bool)> {
    let (_, a) = parse_line(line);
    let n = get_u64(&a, "n")? as usize;
    let rep = get_u64(&a, "rep").unwrap_or(1).max(1) as usize;
    let mut es = vec![];
    for i in 0..n {
        es.push(parse_entry(a.get(&format!("e{i}"))?)?);
    }
    let mut entries = Vec::with_capacity(n * rep);
    for _ in 0..rep {
        entries.extend(es.iter().cloned());
    }
    let mut l = Layout::new(entries);
    l.prefix = get_hex(&a, "pre")?;
    l.gap_before_cd = get_hex(&a, "gapcd")?;
    l.comment = get_hex(&a, "comment")?;
    l.zip64_eocd = get_u64(&a, "z64end")? == 1;
    l.end64_versions = (get_u64(&a, "v64a").unwrap_or(45) as u16, get_u64(&a, "v64b").unwrap_or(45) as u16);
    l.trailing = get_hex(&a, "trailing")?;
    let nats = |k: &str| -> Option<Option<Vec<usize>>> {
        match a.get(k) {
            None => Some(None),
            Some(s) if s == "-" || s.is_empty() => Some(Some(vec![])),
            Some(s) => s.split(',').map(|x| x.parse::<usize>().ok()).collect::<Option<Vec<_>>>().map(Some),
        }
    };
    if let Some(o) = nats("order")? { l.cd_order = Some(o); }
    l.eocd_unsaturated = a.get("sat").map(|s| s == "0").unwrap_or(false);
    if a.contains_key("ext") { l.end64_ext = get_hex(&a, "ext")?; }
    // `LayoutG.gap`: the bytes in front of the ZIP64 end record exist only when that record does
    if a.contains_key("egap") && l.zip64_eocd { l.gap_before_end = get_hex(&a, "egap")?; }
    if let Some(zp) = nats("zp")? { for (e, p) in l.entries.iter_mut().zip(zp) { e.zip64_central_pos = p; } }
    if let Some(zd) = nats("zd")? { for (e, d) in l.entries.iter_mut().zip(zd) { if d == 1 { e.zip64_disk = Some(0); } } }
    Some((l, get_u64(&a, "py").unwrap_or(0) == 1))
}

fn method_u16(m: zip::CompressionMethod) -> u16 {
    #[allow(deprecated)]
    m.to_u16()
}

fn shown(cnt: usize, i: usize) -> bool {
    cnt <= 8 || i < 3 || i + 1 == cnt
}

fn supported(m: u16) -> bool {
    m == 0 || m == 8 || m == 12 || m == 93
}

/// What the real crate reports on `bytes`, in the shape of the driver's `specBuild`.
fn crate_view(bytes: Vec<u8>) -> String {
    let r = catch(move || {
        let mut a = match zip::ZipArchive::new(Cursor::new(bytes)) {
            Ok(a) => a,
            Err(e) => return format!(" | open={}", super::read::cls_z(&e)),
        };
        let cnt = a.len();
        let mut s = format!(" | open n={} off={} comment={}", cnt, a.offset(), hex(a.comment()));
        for i in 0..cnt {
            if !shown(cnt, i) {
                continue;
            }
            let (meta, name, m) = match a.by_index_raw(i) {
                Ok(mut f) => {
                    let t = f.last_modified();
                    let (va, vb) = f.version_made_by();
                    let m = method_u16(f.compression());
                    let mut meta = format!(
                        "name={} raw={} m={} t={}-{}-{}-{}-{}-{} crc={} cs={} us={} mode={} extra={} comment={} vmb={} hs={} chs={} ds={}",
                        hex(f.name().as_bytes()), hex(f.name_raw()), m,
                        t.year(), t.month(), t.day(), t.hour(), t.minute(), t.second(),
                        f.crc32(), f.compressed_size(), f.size(),
                        f.unix_mode().map(|m| m.to_string()).unwrap_or_else(|| "none".into()),
                        hex(f.extra_data()), hex(f.comment().as_bytes()), va as u32 * 10 + vb as u32,
                        f.header_start(), f.central_header_start(), f.data_start()
                    );
                    let mut raw = vec![];
                    meta += &match f.read_to_end(&mut raw) {
                        Ok(_) => format!(" rawread=ok:{}:{}", crc32fast::hash(&raw), raw.len()),
                        Err(e) => format!(" rawread={}", super::read::cls_io(&e)),
                    };
                    (meta, f.name().to_string(), m)
                }
                Err(e) => {
                    s += &format!(" | {i} rawerr={}", super::read::cls_z(&e));
                    continue;
                }
            };
            let dec = match a.by_index(i) {
                Err(e) => super::read::cls_z(&e),
                Ok(mut f) => {
                    if m == 0 {
                        let mut buf = vec![];
                        match f.read_to_end(&mut buf) {
                            Ok(_) => format!("ok:{}:{}", crc32fast::hash(&buf), buf.len()),
                            Err(e) => super::read::cls_io(&e),
                        }
                    } else {
                        "skip".into()
                    }
                }
            };
            let byname = match a.by_name(&name) {
                Ok(f) => f.central_header_start().to_string(),
                Err(e) => super::read::cls_z(&e),
            };
            s += &format!(" | {i} {meta} dec={dec} byname={byname}");
        }
        s
    });
    r.unwrap_or_else(|m| format!(" | open=panic:{}", m.replace(' ', "_")))
}

fn summary(bytes: &[u8]) -> String {
    format!(
        "b len={} crc={} hex={}",
        bytes.len(),
        crc32fast::hash(bytes),
        if bytes.len() <= 400 { hex(bytes) } else { "-".into() }
    )
}

// ------------------------------------------------------------------------------------------
// generator

const SAFE: &[u8] = b"abcdefghijklmnopqrstuvwxyz0123456789/._- ";

fn safe_bytes(r: &mut Rng, n: usize) -> Vec<u8> {
    (0..n).map(|_| SAFE[r.below(SAFE.len() as u64) as usize]).collect()
}

/// bytes that never contain 'P' (0x50): no ZIP signature can start inside them
fn no_pk(r: &mut Rng, n: usize) -> Vec<u8> {
    (0..n).map(|_| { let b = r.next() as u8; if b == 0x50 { 0x51 } else { b } }).collect()
}

fn rand_name(r: &mut Rng) -> (Vec<u8>, bool) {
    match r.below(8) {
        0 => (b"a".to_vec(), false),
        1 => (b"dir/".to_vec(), false),
        2 => ("h\u{e9}llo/w\u{f6}rld.txt".as_bytes().to_vec(), true),
        3 => (vec![0x80, 0x81, 0xfe, b'x'], false), // CP437 high bytes, flag clear
        4 => (vec![], false),
        5 => (vec![0xff, 0xfe, b'a', 0xc3], true), // invalid UTF-8 with the flag set (lossy decoding)
        _ => { let n = r.range(1, 40) as usize; (safe_bytes(r, n), r.chance(1, 8)) }
    }
}

fn rand_extra(r: &mut Rng) -> Vec<u8> {
    let mut x = vec![];
    for _ in 0..r.range(1, 3) {
        let id = *r.pick(&[0x5455u16, 0x7875, 0xcafe, 0x000a, 0x0000, 0xffff, 0x0002, 0x9900]);
        let pl = { let n = r.below(14) as usize; no_pk(r, n) };
        x.extend_from_slice(&id.to_le_bytes());
        x.extend_from_slice(&(pl.len() as u16).to_le_bytes());
        x.extend_from_slice(&pl);
    }
    x
}

fn deflate(data: &[u8]) -> Vec<u8> {
    let mut e = flate2::write::DeflateEncoder::new(vec![], flate2::Compression::default());
    e.write_all(data).unwrap();
    e.finish().unwrap()
}

/// One random well-formed entry.  `py_ok` is cleared when the entry uses something CPython's zipfile
/// does not support or reports differently.
fn rand_entry(r: &mut Rng, py_ok: &mut bool) -> Entry {
    let content = super::read::rand_content(r);
    let (name, utf8) = rand_name(r);
    let mut e = Entry::stored(&name, &content);
    if utf8 { e.flags |= 0x0800; }
    match r.below(10) {
        0..=4 => {}
        5..=7 => { e.method = 8; e.data = deflate(&content); }
        8 => {
            // a method the crate has no decoder for: the entry must list, and fail only when opened
            e.method = *r.pick(&[1u16, 6, 9, 14, 95, 98, 0xFFFF]);
            *py_ok = false;
        }
        _ => {
            // declared sizes at the 32-bit boundary (the data cannot be decoded; listing and raw
            // reading must still be exact)
            e.method = 8;
            e.data = no_pk(r, 20);
            e.usize_ = *r.pick(&[0xFFFF_FFFEu64, 0xFFFF_FFFF, 0x1_0000_0000, 0x1234_5678_9abc]);
            *py_ok = false;
        }
    }
    e.time = r.below(65536) as u16;
    e.date = r.below(65536) as u16;
    e.descriptor = *r.pick(&[Desc::None, Desc::None, Desc::None, Desc::Sig32, Desc::NoSig32, Desc::Sig64, Desc::NoSig64]);
    e.zip64_local = r.chance(1, 6);
    e.zip64_central = (r.chance(1, 5), r.chance(1, 5), r.chance(1, 5));
    if r.chance(1, 3) { e.central_extra = rand_extra(r); }
    if r.chance(1, 3) { e.local_extra = rand_extra(r); }
    if r.chance(1, 4) { e.comment = if r.chance(1, 2) { b"entry comment".to_vec() } else { vec![0x82, b'c'] }; }
    let sys = *r.pick(&[0u16, 0, 3, 3, 3, 7, 10, 19, 255]);
    e.made_by = (sys << 8) | *r.pick(&[20u16, 30, 45, 63, 0, 255]);
    e.version_needed = *r.pick(&[10u16, 20, 45, 46, 63]);
    if r.chance(1, 6) { e.local_version = Some(*r.pick(&[10u16, 20, 45])); }
    e.ext_attrs = match r.below(7) {
        0 => 0,
        1 => 0x10,
        2 => 0x01,
        3 => 0x11,
        4 => 0x20,
        5 => (0o100000 | r.below(512) as u32) << 16,
        _ => r.next() as u32,
    };
    e.int_attrs = r.below(4) as u16;
    if r.chance(1, 10) { e.flags |= *r.pick(&[2u16, 4, 6]); }
    if r.chance(1, 12) { e.flags |= 1; *py_ok = false; }
    if r.chance(1, 12) { e.crc ^= 1; *py_ok = false; } // wrong CRC: listed as recorded, read fails
    if r.chance(1, 8) { e.gap_before = { let n = r.below(20) as usize; no_pk(r, n) }; }
    e
}

fn rand_layout(r: &mut Rng) -> (Layout, bool) {
    let n = match r.below(10) { 0 => 0, 1..=4 => 1, 5..=7 => 2, 8 => 3, _ => r.range(4, 9) } as usize;
    let mut py_ok = true;
    let mut entries: Vec<Entry> = vec![];
    for i in 0..n {
        let mut e = rand_entry(r, &mut py_ok);
        if i > 0 && r.chance(1, 5) {
            e.name = entries[r.below(i as u64) as usize].name.clone();
            e.flags = (e.flags & !0x0800) | (entries.iter().find(|x| x.name == e.name).unwrap().flags & 0x0800);
        }
        entries.push(e);
    }
    if entries.iter().any(|e| e.flags & 0x0800 != 0 && std::str::from_utf8(&e.name).is_err()) { py_ok = false; }
    let mut l = Layout::new(entries);
    if r.chance(1, 3) {
        l.comment = match r.below(4) {
            0 => b"archive comment".to_vec(),
            1 => { let n = r.below(40) as usize; no_pk(r, n) },
            2 => { let n = r.below(600) as usize; vec![b'c'; n] },
            _ => vec![0x4b, 0x05, 0x06, 0x4b], // signature tail without its first byte
        };
    }
    if r.chance(1, 3) { l.prefix = { let n = r.below(200) as usize; no_pk(r, n) }; }
    if r.chance(1, 40) { l.prefix = { let n = r.range(3000, 9000) as usize; no_pk(r, n) }; }
    l.zip64_eocd = r.chance(1, 5);
    if l.zip64_eocd && r.chance(1, 2) { l.end64_versions = (*r.pick(&[45u16, 0x031e, 63]), *r.pick(&[45u16, 20, 63])); }
    if r.chance(1, 8) { l.gap_before_cd = { let n = r.below(16) as usize; no_pk(r, n) }; }
    if !l.zip64_eocd && r.chance(1, 6) { l.trailing = { let n = r.below(60) as usize; no_pk(r, n) }; }
    // CPython looks for the end record at the very end first and otherwise searches; both fine
    (l, py_ok)
}

/// One random GENERALISED layout (`Spec.Zip.LayoutG`): a `rand_layout` with any of - the directory listing the
/// entries in another order (reversed, rotated, shuffled), only some of them, or an arbitrary index list with
/// repetitions and indices that name nothing; the central ZIP64 record behind 0..k+1 of the foreign central
/// records (beyond k: clamped) and/or with the disk-start field; forced ZIP64 end records with the real values
/// kept in the plain end record, an extensible data sector, bytes in front of the ZIP64 end record.
/// Returns the layout, whether CPython can be expected to read it the same way, and the features used.
fn rand_layout_g(r: &mut Rng) -> (Layout, bool, Vec<&'static str>) {
    let (mut l, mut py_ok) = loop {
        let (l, p) = rand_layout(r);
        if l.entries.len() >= 2 || (l.entries.len() == 1 && r.chance(1, 3)) { break (l, p); }
    };
    let n = l.entries.len();
    let mut feats: Vec<&'static str> = vec![];
    let mut order: Vec<usize> = (0..n).collect();
    match r.below(8) {
        0 | 1 => {}
        2 => { order.reverse(); }
        3 => { let k = r.range(1, n.max(2) as u64) as usize % n.max(1); order.rotate_left(k); }
        4 | 5 => { for i in (1..n).rev() { let j = r.below(i as u64 + 1) as usize; order.swap(i, j); } }
        6 => {
            // a sub-list, in shuffled order: entries the directory no longer names stay in the file as dead data
            for i in (1..n).rev() { let j = r.below(i as u64 + 1) as usize; order.swap(i, j); }
            let keep = r.below(n as u64 + 1) as usize;
            order.truncate(keep);
            feats.push("order.sublist");
        }
        _ => {
            // an arbitrary index list: repetitions, indices beyond the entry list (they name nothing)
            let k = r.below(2 * n as u64 + 2) as usize;
            order = (0..k).map(|_| r.below(n as u64 + 2) as usize).collect();
            feats.push("order.arbitrary");
            py_ok = false;
        }
    }
    if order.iter().enumerate().any(|(i, j)| i != *j) || order.len() != n {
        if !feats.iter().any(|f| f.starts_with("order.")) { feats.push("order.permutation"); }
        l.cd_order = Some(order);
    }
    for e in l.entries.iter_mut() {
        if r.chance(1, 2) {
            if e.central_extra.is_empty() || r.chance(1, 2) { e.central_extra = rand_extra(r); if r.chance(1, 2) { let more = rand_extra(r); e.central_extra.extend_from_slice(&more); } }
            // number of complete records in the foreign extra data
            let (mut k, mut cut) = (0usize, 0usize);
            while cut + 4 <= e.central_extra.len() {
                let len = u16::from_le_bytes([e.central_extra[cut + 2], e.central_extra[cut + 3]]) as usize;
                if cut + 4 + len > e.central_extra.len() { break; }
                cut += 4 + len; k += 1;
            }
            if e.zip64_central == (false, false, false) && r.chance(3, 4) {
                e.zip64_central = *r.pick(&[(true, false, false), (false, true, false), (false, false, true), (true, true, false), (true, true, true), (false, true, true), (true, false, true)]);
            }
            e.zip64_central_pos = r.below(k as u64 + 2) as usize;
            if e.zip64_central_pos != 0 && !feats.contains(&"z64pos") { feats.push("z64pos"); }
        }
        if r.chance(1, 4) {
            e.zip64_disk = Some(0);
            py_ok = false;
            if !feats.contains(&"z64disk") { feats.push("z64disk"); }
        }
    }
    if r.chance(1, 2) {
        l.zip64_eocd = true;
        l.trailing.clear();
        if r.chance(1, 2) { l.eocd_unsaturated = true; feats.push("eocd-unsaturated"); }
        if r.chance(2, 3) {
            // APPNOTE 4.3.14.2: header id (2 bytes), data size (4 bytes), data
            let pl = { let n = r.below(30) as usize; no_pk(r, n) };
            let mut x = 0x0065u16.to_le_bytes().to_vec();
            x.extend_from_slice(&(pl.len() as u32).to_le_bytes());
            x.extend_from_slice(&pl);
            l.end64_ext = x;
            feats.push("end64-ext");
            py_ok = false;
        }
        if r.chance(1, 2) { l.gap_before_end = { let n = r.range(1, 12) as usize; no_pk(r, n) }; feats.push("end64-gap"); py_ok = false; }
    }
    (l, py_ok, feats)
}

// ------------------------------------------------------------------------------------------
// oracle helpers (independent of the Lean side)

fn dos_time(date: u16, time: u16) -> String {
    format!(
        "{}-{}-{}-{}-{}-{}",
        1980 + (date >> 9), (date >> 5) & 15, date & 31, time >> 11, (time >> 5) & 63, (time & 31) * 2
    )
}

fn expected_mode(made_by: u16, attrs: u32) -> String {
    if attrs == 0 {
        return "none".into();
    }
    match made_by >> 8 {
        3 => (attrs >> 16).to_string(),
        0 => {
            let dir = attrs & 0x10 != 0;
            let ro = attrs & 1 != 0;
            match (dir, ro) {
                (true, false) => 0o40775u32,
                (false, false) => 0o100664,
                (true, true) => 0o555,
                (false, true) => 0o444,
            }
            .to_string()
        }
        _ => "none".into(),
    }
}

fn field<'a>(ent: &'a str, key: &str) -> Option<&'a str> {
    let pat = format!(" {key}=");
    let s = format!(" {ent}");
    let i = s.find(&pat)?;
    let start = i + pat.len() - 1; // index in `ent`
    let rest = &ent[start..];
    Some(rest.split(' ').next().unwrap_or(""))
}

const PY: &str = r#"
import sys, io, zipfile, binascii
data = binascii.unhexlify(sys.stdin.read().strip())
try:
    z = zipfile.ZipFile(io.BytesIO(data))
except Exception as e:
    print("open-failed " + type(e).__name__ + " " + str(e)); sys.exit(0)
out = ["n=%d" % len(z.infolist()), "comment=" + (binascii.hexlify(z.comment).decode() or "-")]
for zi in z.infolist():
    out.append("%d:%d:%d:%d:%d" % (zi.header_offset, zi.CRC, zi.compress_size, zi.file_size, zi.compress_type))
try:
    out.append("test=" + str(z.testzip()))
except Exception as e:
    out.append("test=EXC " + type(e).__name__ + " " + str(e))
print(" ".join(out))
"#;

fn python_view(bytes: &[u8]) -> Option<String> {
    use std::process::{Command, Stdio};
    let mut ch = Command::new("python3").arg("-c").arg(PY).stdin(Stdio::piped()).stdout(Stdio::piped()).stderr(Stdio::null()).spawn().ok()?;
    ch.stdin.as_mut()?.write_all(hex(bytes).as_bytes()).ok()?;
    let out = ch.wait_with_output().ok()?;
    Some(String::from_utf8_lossy(&out.stdout).trim().to_string())
}

impl Stream for SpecStream {
    fn name(&self) -> &'static str {
        "spec"
    }

    fn gen(&self, seed: u64, tier: &str) -> GenOut {
        let mut g = GenOut::default();
        g.rule = "random well-formed layouts from one parameter encoding (0-9 entries: stored/deflate/unsupported methods, declared sizes at the 2^32 boundary, every descriptor kind, forced ZIP64 subsets, local ZIP64, foreign extra records local/central, gaps, DOS/Unix/other hosts, CP437/UTF-8/invalid-UTF-8 names, duplicates, encrypted flag, wrong CRC; prefix 0-9000 bytes, gap before the directory, comment, forced ZIP64 end records with arbitrary versions, trailing bytes) + hand-made boundary layouts (65535/65536 entries, empty archive, every single feature alone). Built by mkzip.rs (impl side) and Spec.Zip.build (model side): bytes compared; the real crate's view compared with Spec.Zip.viewOf; a sample is opened with CPython zipfile. Generalised layouts (classes g.*; the driver builds with Spec.Zip.buildG and answers viewOfG): the directory lists the entries reversed / rotated / shuffled, only some of them, or by an arbitrary index list with repetitions and indices naming nothing (order=); the central ZIP64 record behind 0..k+1 of the foreign central records and with the disk-start field (zp=, zd=); forced ZIP64 end records with the real values kept in the plain end record (sat=0), an extensible data sector (ext=), bytes in front of the ZIP64 end record (egap=). distinct = distinct op lines; non-trivial = the crate opens the archive".into();
        let thorough = tier == "thorough";
        let n_rand = if thorough { 12000 } else { 500 };
        let mut py_budget = if thorough { 300 } else { 14 };
        // hand-made: every feature alone on a one-entry archive
        let base = || Entry::stored(b"f.txt", b"hello spec");
        let mut singles: Vec<(&str, Layout)> = vec![];
        singles.push(("empty", Layout::new(vec![])));
        singles.push(("plain", Layout::new(vec![base()])));
        for d in [Desc::Sig32, Desc::NoSig32, Desc::Sig64, Desc::NoSig64] {
            let mut e = base(); e.descriptor = d; singles.push(("desc", Layout::new(vec![e])));
        }
        for z in 1..8u8 {
            let mut e = base(); e.zip64_central = (z & 1 == 1, z & 2 == 2, z & 4 == 4); singles.push(("z64sub", Layout::new(vec![e])));
        }
        { let mut e = base(); e.zip64_local = true; singles.push(("lz64", Layout::new(vec![e]))); }
        { let mut e = base(); e.zip64_local = true; e.descriptor = Desc::Sig64; singles.push(("lz64desc", Layout::new(vec![e]))); }
        { let mut l = Layout::new(vec![base()]); l.prefix = b"#!/bin/sh\nexit 0\n".to_vec(); singles.push(("prefix", l)); }
        { let mut l = Layout::new(vec![base()]); l.zip64_eocd = true; singles.push(("z64end", l)); }
        { let mut l = Layout::new(vec![base()]); l.zip64_eocd = true; l.prefix = vec![7; 33]; l.end64_versions = (0x031e, 20); singles.push(("z64end.prefix", l)); }
        { let mut l = Layout::new(vec![base()]); l.trailing = vec![0; 17]; singles.push(("trailing", l)); }
        { let mut l = Layout::new(vec![base()]); l.comment = b"a comment".to_vec(); l.trailing = b"junk".to_vec(); singles.push(("comment.trailing", l)); }
        { let mut l = Layout::new(vec![base(), base()]); singles.push(("dup", l)); }
        { let mut l = Layout::new(vec![base()]); l.gap_before_cd = vec![1, 2, 3]; l.entries[0].gap_before = vec![9; 5]; singles.push(("gaps", l)); }
        for us in [0xFFFF_FFFEu64, 0xFFFF_FFFF, 0x1_0000_0000] {
            let mut e = base(); e.method = 8; e.usize_ = us; singles.push(("usize.boundary", Layout::new(vec![e])));
            let mut e = base(); e.method = 8; e.usize_ = us; e.zip64_central = (false, true, false); singles.push(("usize.boundary.zc", Layout::new(vec![e])));
        }
        for (k, l) in singles {
            let py = l.entries.iter().all(|e| e.method == 0);
            g.push(&format!("single.{k}"), layout_line(&l, l.entries.len(), 1, py));
        }
        // entry-count boundary of the end record (0xFFFF is the "see ZIP64" marker)
        for cnt in [65534usize, 65535, 65536] {
            if !thorough && cnt == 65534 { continue; }
            let mut e = Entry::stored(b"d/", b"");
            e.ext_attrs = 0x10; e.made_by = 20;
            let l = Layout::new(vec![e]);
            g.push("count.boundary", layout_line(&l, 1, cnt, true));
        }
        for idx in 0..n_rand {
            let mut r = super::rng_for(seed, "spec", idx);
            let (l, py_ok) = rand_layout(&mut r);
            let py = py_ok && py_budget > 0 && r.chance(1, 6);
            if py { py_budget -= 1; }
            let kind = if l.zip64_eocd { "rand.z64end" } else if !l.trailing.is_empty() { "rand.trailing" } else if !l.prefix.is_empty() { "rand.prefix" } else { "rand.plain" };
            g.push(kind, layout_line(&l, l.entries.len(), 1, py));
        }
        // generalised layouts (F7): the driver builds with `Spec.Zip.buildG` and answers `viewOfG`
        {
            let base = || Entry::stored(b"f.txt", b"hello spec");
            let two = || { let mut b2 = Entry::stored(b"g.txt", b"second"); b2.central_extra = vec![0x55, 0x54, 1, 0, 7, 0xfe, 0xca, 2, 0, 8, 9]; vec![base(), b2] };
            let mut singles: Vec<(&str, Layout)> = vec![];
            { let mut l = Layout::new(two()); l.cd_order = Some(vec![1, 0]); singles.push(("reversed", l)); }
            { let mut l = Layout::new(two()); l.cd_order = Some(vec![1]); singles.push(("sublist", l)); }
            { let mut l = Layout::new(two()); l.cd_order = Some(vec![]); singles.push(("none-listed", l)); }
            { let mut l = Layout::new(two()); l.cd_order = Some(vec![1, 1, 7, 0]); singles.push(("repeated", l)); }
            for pos in 0..4usize { for z in [1u8, 2, 4, 7] {
                let mut l = Layout::new(two()); l.entries[1].zip64_central = (z & 1 == 1, z & 2 == 2, z & 4 == 4); l.entries[1].zip64_central_pos = pos; singles.push(("z64pos", l));
            } }
            { let mut l = Layout::new(two()); l.entries[0].zip64_disk = Some(0); l.entries[1].zip64_disk = Some(0); l.entries[1].zip64_central_pos = 1; l.entries[1].zip64_central = (true, true, true); singles.push(("z64disk", l)); }
            for (sat, ext, gap) in [(true, false, false), (false, false, false), (true, true, false), (true, false, true), (false, true, true)] {
                let mut l = Layout::new(two()); l.zip64_eocd = true; l.eocd_unsaturated = !sat;
                if ext { l.end64_ext = vec![0x65, 0, 2, 0, 0, 0, 7, 7]; }
                if gap { l.gap_before_end = vec![1, 2, 3]; }
                l.prefix = vec![7; 9];
                singles.push(("z64end", l));
            }
            for (k, l) in singles {
                let py = l.cd_order.as_ref().map(|o| o.iter().all(|i| *i < 2) && { let mut q = o.clone(); q.dedup(); q.len() == o.len() }).unwrap_or(true)
                    && l.end64_ext.is_empty() && l.gap_before_end.is_empty() && l.entries.iter().all(|e| e.zip64_disk.is_none());
                g.push(&format!("g.single.{k}"), layout_line(&l, l.entries.len(), 1, py));
            }
        }
        let n_g = if thorough { 8000 } else { 350 };
        let mut py_budget_g = if thorough { 200 } else { 10 };
        for idx in 0..n_g {
            let mut r = super::rng_for(seed, "spec.g", idx);
            let (l, py_ok, feats) = rand_layout_g(&mut r);
            for f in &feats { *g.dist.entry(format!("gen.feature.{f}")).or_insert(0) += 1; }
            let py = py_ok && py_budget_g > 0 && r.chance(1, 4);
            if py { py_budget_g -= 1; }
            let kind = if feats.iter().any(|f| f.starts_with("order.")) { "g.order" } else if feats.iter().any(|f| f.starts_with("z64")) { "g.z64place" } else if l.zip64_eocd { "g.z64end" } else { "g.plain" };
            g.push(kind, layout_line(&l, l.entries.len(), 1, py));
        }
        g
    }

    fn run(&self, line: &str) -> String {
        let (op, _) = parse_line(line);
        if op != "spec.build" {
            return "bad-op".into();
        }
        let (l, _) = match parse_layout(line) { Some(x) => x, None => return "bad-op".into() };
        let b = mkzip::build(&l);
        let head = summary(&b.bytes);
        format!("{head} hyp=1{}", crate_view(b.bytes))
    }

    fn nontrivial(&self, _line: &str, resp: &str) -> bool {
        resp.contains(" | open n=")
    }

    fn oracle(&self, line: &str, resp: &str) -> Vec<OracleFailure> {
        let msgs: std::cell::RefCell<Vec<String>> = std::cell::RefCell::new(vec![]);
        let fail = |w: String| msgs.borrow_mut().push(w);
        let done = |msgs: &std::cell::RefCell<Vec<String>>| -> Vec<OracleFailure> { msgs.borrow().iter().map(|w| OracleFailure { what: w.clone() }).collect() };
        if resp.contains("panic") {
            fail(format!("panic: {}", &resp[..resp.len().min(200)]));
            return done(&msgs);
        }
        let (l, py) = match parse_layout(line) { Some(x) => x, None => return done(&msgs) };
        let b = mkzip::build(&l);
        // what the directory lists, in its order: entry `k` of the reader's view is entry `ord[k]` of the layout
        let ord = listed(&l);
        let cnt = ord.len();
        let parts: Vec<&str> = resp.split(" | ").collect();
        let want_open = format!("open n={} off={} comment={}", cnt, l.prefix.len(), hex(&l.comment));
        if parts.len() < 2 || parts[1] != want_open {
            fail(format!("well-formed foreign archive not opened as laid out: want `{want_open}` got `{}`", parts.get(1).unwrap_or(&"")));
            return done(&msgs);
        }
        let ents = &parts[2..];
        let n_shown = (0..cnt).filter(|&i| shown(cnt, i)).count();
        if ents.len() != n_shown {
            fail(format!("{} entries reported, {} expected", ents.len(), n_shown));
            return done(&msgs);
        }
        // central positions: walk the central directory the builder laid out
        for (k, i) in (0..cnt).filter(|&i| shown(cnt, i)).enumerate() {
            let e = &l.entries[ord[i]];
            let ent = ents[k];
            let chk = |key: &str, want: String| {
                match field(ent, key) {
                    Some(v) if v == want => {}
                    got => fail(format!("entry {i}: {key} reported {:?}, the central directory records {want}", got)),
                }
            };
            if !ent.starts_with(&format!("{i} ")) { fail(format!("entry {i}: out of order: `{}`", &ent[..ent.len().min(40)])); continue; }
            chk("raw", hex(&e.name));
            if e.name.iter().all(|b| *b < 0x80) { chk("name", hex(&e.name)); }
            if e.flags & 0x0800 != 0 { chk("name", hex(String::from_utf8_lossy(&e.name).as_bytes())); }
            chk("m", e.method.to_string());
            chk("t", dos_time(e.date, e.time));
            chk("crc", e.crc.to_string());
            chk("cs", e.data.len().to_string());
            chk("us", e.usize_.to_string());
            chk("mode", expected_mode(e.made_by, e.ext_attrs));
            chk("vmb", (e.made_by & 0xFF).to_string());
            chk("hs", b.offsets[ord[i]].0.to_string());
            chk("ds", b.offsets[ord[i]].1.to_string());
            chk("rawread", format!("ok:{}:{}", crc32fast::hash(&e.data), e.data.len()));
            if e.comment.iter().all(|b| *b < 0x80) { chk("comment", hex(&e.comment)); }
            match field(ent, "extra") {
                Some(x) => {
                    // the recorded foreign records with ONE ZIP64 record (4-byte header + 0..3 64-bit fields +
                    // an optional 4-byte disk number) inserted between two of them
                    let xb = unhex(x).unwrap_or_default();
                    let ce = &e.central_extra;
                    let zl = xb.len().saturating_sub(ce.len());
                    let fits = |cut: usize| xb.len() == ce.len() + zl && xb[..cut] == ce[..cut] && xb[cut + zl..] == ce[cut..]
                        && (zl == 0 || (xb[cut..cut + 2] == [1, 0] && u16::from_le_bytes([xb[cut + 2], xb[cut + 3]]) as usize == zl - 4));
                    let z_ok = [0usize, 8, 12, 16, 20, 24, 28, 32].contains(&zl) && (0..=ce.len()).any(|cut| fits(cut));
                    if !z_ok {
                        fail(format!("entry {i}: extra data {x} is not the recorded extra {} with one ZIP64 record inserted", hex(ce)));
                    }
                }
                None => fail(format!("entry {i}: no extra field reported")),
            }
            let enc = e.flags & 1 == 1;
            let want_dec = if enc { "err:passwordrequired".to_string() }
                else if !supported(e.method) { "err:unsupported".to_string() }
                else if e.method == 0 { if crc32fast::hash(&e.data) == e.crc { format!("ok:{}:{}", e.crc, e.data.len()) } else { "err:io:other".into() } }
                else { "skip".to_string() };
            chk("dec", want_dec);
            // by_name: the LAST entry whose decoded name equals this one's
            if let Some(nm) = field(ent, "name") {
                // entries with an equal raw name and equal UTF-8 flag decode equally
                let last = (0..cnt).rev().find(|&j| l.entries[ord[j]].name == e.name && (l.entries[ord[j]].flags & 0x0800) == (e.flags & 0x0800));
                if let Some(j) = last {
                    let ej = &l.entries[ord[j]];
                    let same_decoded_later = (j + 1..cnt).any(|q| l.entries[ord[q]].name.iter().all(|b| *b < 0x80) && l.entries[ord[q]].name == e.name);
                    if !same_decoded_later && shown(cnt, j) {
                        let kj = (0..cnt).filter(|&q| shown(cnt, q)).position(|q| q == j).unwrap();
                        let want = if ej.flags & 1 == 1 { "err:passwordrequired".to_string() }
                            else if !supported(ej.method) { "err:unsupported".to_string() }
                            else { field(ents[kj], "chs").unwrap_or("?").to_string() };
                        let _ = nm;
                        chk("byname", want);
                    }
                }
            }
        }
        // the central records are contiguous from the directory start
        if cnt > 0 && shown(cnt, 0) {
            if field(ents[0], "chs") != Some(&b.cd_offset.to_string()) {
                fail(format!("entry 0: central header start {:?} != {}", field(ents[0], "chs"), b.cd_offset));
            }
        }
        if py {
            match python_view(&b.bytes) {
                None => {}
                Some(p) => {
                    let mut want = format!("n={} comment={}", cnt, hex(&l.comment));
                    for &i in &ord {
                        let e = &l.entries[i];
                        want += &format!(" {}:{}:{}:{}:{}", b.offsets[i].0, e.crc, e.data.len(), e.usize_, e.method);
                    }
                    want += " test=None";
                    let same = if cnt > 200 { p.starts_with(&format!("n={} ", cnt)) && p.ends_with("test=None") } else { p == want };
                    if !same {
                        fail(format!("CPython zipfile reads the builder's archive differently: want `{}` got `{}`", &want[..want.len().min(300)], &p[..p.len().min(300)]));
                    }
                }
            }
        }
        done(&msgs)
    }
}
