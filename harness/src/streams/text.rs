//! C19: CP437 / lossy UTF-8 decoding of entry names and comments, raw names, the writer's flag rule.
//!
//! ops (scalars are comma-separated lower-case hex, `-` = empty):
//! every successful response starts with the class token `ok`:
//!   text.cp437 bytes=<hex>                      → <scalars> | panic        (`Vec<u8>::from_cp437`)
//!   text.utf8lossy bytes=<hex>                  → <scalars>                (`String::from_utf8_lossy`)
//!   text.utf8block prefix=<hex>                 → <fnv64 digest of the lossy decodings of prefix++[0..=255]>
//!   text.name flag=<0|1> name=<hex> comment=<hex>
//!        → name=<scalars> comment=<scalars> raw=<hex> sname=<scalars> sraw=<hex>
//!        (hand-built one-entry stored archive; central header through `ZipArchive`, local header
//!         through `read_zipfile_from_stream`)
//!   text.arch cflags=<u16> lflags=<u16> cname=<hex> lname=<hex> comment=<hex> cextra=<hex> lextra=<hex> zip=<hex>
//!        → same fields as text.name (the streaming part may be `err unsupported`: local encryption / descriptor bit)
//!        (`zip` is the archive built from the other fields: local and central header with their own flags, names and
//!         extra fields - Info-ZIP Unicode Path 0x7075 / Unicode Comment 0x6375 records among them; the implementation
//!         and the model read `zip`, the oracle re-builds it from the fields)
//!   text.write chars=<scalars>                  → stored=<hex> len=<u16> flag=<0|1> back=<scalars> raw=<hex> | err invalid
//!        (`ZipWriter::start_file`; fields taken from the produced central header; read back with `ZipArchive`)
use super::cp437_table::CP437_REF;
use super::{GenOut, OracleFailure, Stream};
use crate::prng::Rng;
use crate::util::*;
use std::io::Cursor;
use zip::verif_hooks::FromCp437;

pub struct Text;

// ------------------------------------------------------------------------------------------------
// canonical printing

fn scalars<I: IntoIterator<Item = u32>>(it: I) -> String {
    let mut s = String::new();
    for v in it {
        if !s.is_empty() {
            s.push(',');
        }
        s.push_str(&format!("{:x}", v));
    }
    if s.is_empty() {
        "-".into()
    } else {
        s
    }
}

fn str_scalars(s: &str) -> String {
    scalars(s.chars().map(|c| c as u32))
}

fn parse_scalars(s: &str) -> Option<Vec<u32>> {
    if s == "-" || s.is_empty() {
        return Some(vec![]);
    }
    s.split(',').map(|t| u32::from_str_radix(t, 16).ok()).collect()
}

fn fnv_byte(h: u64, b: u64) -> u64 {
    (h ^ b).wrapping_mul(0x100000001b3)
}

fn fnv_scalars(mut h: u64, s: &str) -> u64 {
    for c in s.chars() {
        let v = c as u64;
        h = fnv_byte(h, v & 0xff);
        h = fnv_byte(h, (v >> 8) & 0xff);
        h = fnv_byte(h, (v >> 16) & 0xff);
        h = fnv_byte(h, (v >> 24) & 0xff);
    }
    fnv_byte(h, 0xff)
}

// ------------------------------------------------------------------------------------------------
// hand-built archive (APPNOTE 4.3.7, 4.3.12, 4.3.16): one stored, empty entry

fn le16(v: &mut Vec<u8>, x: u16) {
    v.extend_from_slice(&x.to_le_bytes());
}
fn le32(v: &mut Vec<u8>, x: u32) {
    v.extend_from_slice(&x.to_le_bytes());
}

fn build_archive(flags: u16, name: &[u8], comment: &[u8]) -> Vec<u8> {
    build_archive2(flags, flags, name, name, comment, &[], &[])
}

/// Local and central header with their OWN flags, names and extra fields (they may disagree: the central header
/// is authoritative for `ZipArchive`, the local one is all the streaming reader sees).
fn build_archive2(cflags: u16, lflags: u16, cname: &[u8], lname: &[u8], comment: &[u8], cextra: &[u8], lextra: &[u8]) -> Vec<u8> {
    let mut v = Vec::with_capacity(128 + cname.len() + lname.len() + comment.len() + cextra.len() + lextra.len());
    // local file header
    le32(&mut v, 0x04034b50);
    le16(&mut v, 20); // version needed
    le16(&mut v, lflags);
    le16(&mut v, 0); // stored
    le16(&mut v, 0); // time
    le16(&mut v, 0x21); // date 1980-01-01
    le32(&mut v, 0); // crc32 of the empty string
    le32(&mut v, 0);
    le32(&mut v, 0);
    le16(&mut v, lname.len() as u16);
    le16(&mut v, lextra.len() as u16);
    v.extend_from_slice(lname);
    v.extend_from_slice(lextra);
    let cd = v.len() as u32;
    // central directory header
    le32(&mut v, 0x02014b50);
    le16(&mut v, 20); // made by: DOS, 2.0
    le16(&mut v, 20);
    le16(&mut v, cflags);
    le16(&mut v, 0);
    le16(&mut v, 0);
    le16(&mut v, 0x21);
    le32(&mut v, 0);
    le32(&mut v, 0);
    le32(&mut v, 0);
    le16(&mut v, cname.len() as u16);
    le16(&mut v, cextra.len() as u16);
    le16(&mut v, comment.len() as u16);
    le16(&mut v, 0);
    le16(&mut v, 0);
    le32(&mut v, 0);
    le32(&mut v, 0); // local header offset
    v.extend_from_slice(cname);
    v.extend_from_slice(cextra);
    v.extend_from_slice(comment);
    let cd_size = v.len() as u32 - cd;
    // end of central directory
    le32(&mut v, 0x06054b50);
    le16(&mut v, 0);
    le16(&mut v, 0);
    le16(&mut v, 1);
    le16(&mut v, 1);
    le32(&mut v, cd_size);
    le32(&mut v, cd);
    le16(&mut v, 0);
    v
}

fn run_name(flag: bool, name: &[u8], comment: &[u8]) -> String {
    let bytes = build_archive(if flag { 1 << 11 } else { 0 }, name, comment);
    run_arch(&bytes, false)
}

/// Infozip Unicode Path (0x7075) / Unicode Comment (0x6375) record: version, CRC-32 of the header field it
/// belongs to, UTF-8 text.
fn unicode_record(id: u16, version: u8, crc: u32, text: &[u8]) -> Vec<u8> {
    let mut v = vec![];
    le16(&mut v, id);
    le16(&mut v, (5 + text.len()) as u16);
    v.push(version);
    le32(&mut v, crc);
    v.extend_from_slice(text);
    v
}

fn run_arch(bytes: &[u8], raw: bool) -> String {
    let central = {
        let mut ar = match zip::ZipArchive::new(Cursor::new(bytes)) {
            Ok(a) => a,
            Err(e) => return zerr_class(&e),
        };
        // (an entry whose central header has the encryption bit is looked at through by_index_raw)
        let f = match if raw { ar.by_index_raw(0) } else { ar.by_index(0) } {
            Ok(f) => f,
            Err(e) => return zerr_class(&e),
        };
        format!("ok name={} comment={} raw={}", str_scalars(f.name()), str_scalars(f.comment()), hex(f.name_raw()))
    };
    let mut rd = bytes;
    let stream = match zip::read::read_zipfile_from_stream(&mut rd) {
        Ok(Some(f)) => format!("sname={} sraw={}", str_scalars(f.name()), hex(f.name_raw())),
        Ok(None) => "err nofile".to_string(),
        Err(e) => zerr_class(&e),
    };
    format!("{central} {stream}")
}

// ------------------------------------------------------------------------------------------------
// writer

struct Written {
    stored: Vec<u8>,
    len_field: u16,
    flags: u16,
    local_stored: Vec<u8>,
    local_len_field: u16,
    local_flags: u16,
    back: Result<(String, Vec<u8>), String>,
}

fn rd16(b: &[u8], at: usize) -> u16 {
    u16::from_le_bytes([b[at], b[at + 1]])
}
fn rd32(b: &[u8], at: usize) -> u32 {
    u32::from_le_bytes([b[at], b[at + 1], b[at + 2], b[at + 3]])
}

fn write_name(name: &str, enc: bool) -> Result<Written, String> {
    use zip::unstable::write::FileOptionsExt;
    let mut w = zip::ZipWriter::new(Cursor::new(Vec::new()));
    let mut opts = zip::write::FileOptions::default()
        .compression_method(zip::CompressionMethod::Stored)
        .last_modified_time(zip::DateTime::default());
    if enc {
        opts = opts.with_deprecated_encryption(b"pw");
    }
    w.start_file(name, opts).map_err(|e| zerr_class(&e))?;
    let bytes = w.finish().map_err(|e| zerr_class(&e))?.into_inner();
    // the archive has one entry, no data, no extra field, no comments: everything between the fixed
    // part of a header and the next record is the name as written
    let eocd = bytes.len() - 22;
    if rd32(&bytes, eocd) != 0x06054b50 {
        return Err("err harness:no-eocd".into());
    }
    let cd = rd32(&bytes, eocd + 16) as usize;
    if rd32(&bytes, cd) != 0x02014b50 || rd32(&bytes, 0) != 0x04034b50 {
        return Err("err harness:no-headers".into());
    }
    let back = match zip::ZipArchive::new(Cursor::new(&bytes[..])) {
        Err(e) => Err(zerr_class(&e)),
        Ok(mut ar) => match ar.by_index_raw(0) {
            Err(e) => Err(zerr_class(&e)),
            Ok(f) => Ok((f.name().to_string(), f.name_raw().to_vec())),
        },
    };
    Ok(Written {
        stored: bytes[cd + 46..eocd].to_vec(),
        len_field: rd16(&bytes, cd + 28),
        flags: rd16(&bytes, cd + 8),
        local_stored: bytes[30..(30 + rd16(&bytes, 26) as usize).min(cd)].to_vec(),
        local_len_field: rd16(&bytes, 26),
        local_flags: rd16(&bytes, 6),
        back,
    })
}

fn chars_to_string(v: &[u32]) -> Option<String> {
    v.iter().map(|&x| char::from_u32(x)).collect()
}

// ------------------------------------------------------------------------------------------------
// independent lossy decoder for the oracle: derived from the *definition* of UTF-8 (bit layout,
// shortest form, scalar values only) by interval reasoning, not from the byte-range table.

fn seq_len(b0: u8) -> usize {
    match b0.leading_ones() {
        0 => 1,
        2 => 2,
        3 => 3,
        4 => 4,
        _ => 0,
    }
}

/// Is `p` a non-empty prefix of some well-formed sequence?  Returns the scalar range it can reach.
fn viable(p: &[u8]) -> Option<(u32, u32)> {
    let n = seq_len(p[0]);
    if n == 0 || p.len() > n {
        return None;
    }
    if p[1..].iter().any(|c| c & 0xC0 != 0x80) {
        return None;
    }
    let lead_bits = if n == 1 { p[0] as u32 } else { (p[0] as u32) & (0x7f >> n) };
    let (mut lo, mut hi) = (lead_bits, lead_bits);
    for i in 1..n {
        if i < p.len() {
            lo = (lo << 6) | (p[i] as u32 & 0x3f);
            hi = (hi << 6) | (p[i] as u32 & 0x3f);
        } else {
            lo <<= 6;
            hi = (hi << 6) | 0x3f;
        }
    }
    const MIN: [u32; 5] = [0, 0, 0x80, 0x800, 0x10000];
    let lo = lo.max(MIN[n]);
    let hi = hi.min(0x10FFFF);
    if lo > hi || (lo >= 0xD800 && hi <= 0xDFFF) {
        return None;
    }
    Some((lo, hi))
}

fn ref_lossy(b: &[u8]) -> Vec<u32> {
    let mut out = vec![];
    let mut i = 0;
    while i < b.len() {
        let mut k = 0;
        let mut last = None;
        while i + k < b.len() && k < 4 {
            match viable(&b[i..i + k + 1]) {
                Some(r) => {
                    last = Some(r);
                    k += 1;
                }
                None => break,
            }
        }
        match last {
            Some((lo, hi)) if k == seq_len(b[i]) && lo == hi => out.push(lo),
            _ => out.push(0xFFFD),
        }
        i += k.max(1);
    }
    out
}

// ------------------------------------------------------------------------------------------------
// generators

fn enc(c: u32) -> Vec<u8> {
    char::from_u32(c).map(|c| c.to_string().into_bytes()).unwrap_or_default()
}

const BOUNDARY: [u32; 22] = [
    0, 1, 0x41, 0x7f, 0x80, 0xa0, 0xff, 0x7ff, 0x800, 0xfff, 0x1000, 0xcfff, 0xd000, 0xd7ff, 0xe000, 0xfffd,
    0xffff, 0x10000, 0x3ffff, 0x40000, 0x100000, 0x10ffff,
];

fn rand_scalar(r: &mut Rng) -> u32 {
    loop {
        let v = match r.below(6) {
            0 => r.below(0x80),
            1 => r.range(0x80, 0x7ff),
            2 => r.range(0x800, 0xffff),
            3 => r.range(0x10000, 0x10ffff),
            4 => *r.pick(&BOUNDARY) as u64,
            _ => r.range(0x20, 0x7e),
        } as u32;
        if char::from_u32(v).is_some() {
            return v;
        }
    }
}

/// One fragment of a byte string biased towards the edges of UTF-8 well-formedness.
fn fragment(r: &mut Rng) -> Vec<u8> {
    let cont = |r: &mut Rng| r.range(0x80, 0xbf) as u8;
    match r.below(16) {
        0 | 1 => enc(rand_scalar(r)),
        2 => vec![r.range(0x20, 0x7e) as u8],
        3 => vec![*r.pick(&[0xc0u8, 0xc1]), cont(r)], // overlong 2-byte
        4 => vec![0xe0, r.range(0x80, 0x9f) as u8, cont(r)], // overlong 3-byte
        5 => vec![0xed, r.range(0xa0, 0xbf) as u8, cont(r)], // surrogates
        6 => vec![0xf0, r.range(0x80, 0x8f) as u8, cont(r), cont(r)], // overlong 4-byte
        7 => vec![0xf4, r.range(0x90, 0xbf) as u8, cont(r), cont(r)], // > 10FFFF
        8 => vec![r.range(0xf5, 0xff) as u8],
        9 => {
            // truncated tail of a valid multi-byte sequence
            let mut e = enc(rand_scalar(r).max(0x80));
            let cut = 1 + r.below(e.len() as u64 - 1) as usize;
            e.truncate(cut);
            e
        }
        10 => (0..r.range(1, 3)).map(|_| cont(r)).collect(), // lone continuation bytes
        11 => {
            // second byte exactly at the edge of its admissible range
            let (b0, b1): (u8, u8) = *r.pick(&[
                (0xe0, 0x9f), (0xe0, 0xa0), (0xed, 0x9f), (0xed, 0xa0), (0xf0, 0x8f), (0xf0, 0x90), (0xf4, 0x8f),
                (0xf4, 0x90), (0xc2, 0x7f), (0xc2, 0x80), (0xdf, 0xbf), (0xdf, 0xc0), (0xe1, 0x7f), (0xef, 0xc0),
                (0xf1, 0x7f), (0xf3, 0xc0), (0xc1, 0xbf), (0xf5, 0x80),
            ]);
            let mut v = vec![b0, b1];
            for _ in 0..r.below(3) {
                v.push(cont(r));
            }
            v
        }
        12 => {
            // valid sequence with one byte replaced
            let mut e = enc(rand_scalar(r));
            let i = r.below(e.len() as u64) as usize;
            e[i] = r.next() as u8;
            e
        }
        13 => { let n = r.range(1, 4) as usize; r.bytes(n) }
        14 => vec![0xef, 0xbf, 0xbd], // a genuine U+FFFD
        _ => vec![r.range(0x80, 0xff) as u8],
    }
}

fn edge_bytes(r: &mut Rng, max_frag: u64) -> Vec<u8> {
    let mut v = vec![];
    for _ in 0..r.range(0, max_frag) {
        v.extend(fragment(r));
    }
    v
}

fn rand_chars(r: &mut Rng, n: u64) -> Vec<u32> {
    match r.below(4) {
        0 => (0..n).map(|_| r.range(0x20, 0x7e) as u32).collect(), // ASCII only: flag stays clear
        1 => (0..n).map(|_| r.below(0x80) as u32).collect(),       // ASCII incl. controls and NUL
        _ => (0..n).map(|_| rand_scalar(r)).collect(),
    }
}

/// A string of scalars whose UTF-8 encoding has exactly `bytes` bytes.
fn chars_of_len(r: &mut Rng, bytes: usize, ascii: bool) -> Vec<u32> {
    let mut v = vec![];
    let mut left = bytes;
    while left > 0 {
        let c = if ascii { r.range(0x20, 0x7e) as u32 } else { rand_scalar(r) };
        let l = enc(c).len();
        if l <= left {
            v.push(c);
            left -= l;
        }
    }
    v
}

impl Stream for Text {
    fn name(&self) -> &'static str {
        "text"
    }

    fn gen(&self, seed: u64, tier: &str) -> GenOut {
        let thorough = tier == "thorough";
        let mut g = GenOut::default();
        g.exhaustive = false;
        g.rule = "text.cp437 / text.utf8lossy / text.name (both flags): every one of the 256 single bytes; \
                  text.utf8block: every 1-byte prefix x 256 (= all 2-byte sequences) in quick, plus every 2-byte prefix \
                  x 256 (= all 3-byte sequences, 1.7e7) in thorough, compared by digest per block; text.utf8lossy: \
                  random byte strings assembled from edge fragments (overlong C0/C1/E0 80../F0 80.., surrogates ED \
                  A0.., F4 90.., F5+, truncated tails, lone continuation bytes, range-edge second bytes, mutated \
                  valid sequences, valid scalars of every length) + 64 KiB strings; text.cp437: random strings incl. \
                  all-ASCII (fast path) and 64 KiB; text.name: hand-built one-entry archives with such names and \
                  comments under both flags, up to 65535 bytes; text.arch: the same reader paths on archives whose local and central \
                  header have their OWN flag words (14 fixed words incl. 0xF800, 0x0806, all-ones-but-bit-11, descriptor and \
                  encryption bits; random words), names (mismatch: central is authoritative for ZipArchive, local for the \
                  streaming reader) and extra fields carrying Info-ZIP Unicode Path 0x7075 / Unicode Comment 0x6375 records \
                  (valid: version 1 + CRC-32 of the raw header field + a different UTF-8 text; stale CRC; other versions) in \
                  central, local or both, alone or behind a 0x5455 record - name and comment must be decoded by the flag \
                  alone; text.write: ASCII / mixed / boundary scalar strings \
                  through ZipWriter, encoded length up to 65535 bytes, and 65536+ bytes (must be rejected). distinct = distinct op lines; non-trivial = \
                  response is not an error"
            .into();
        let mut r = super::rng_for(seed, "text", 0);
        // 1. all 256 byte values in every mode
        for b in 0..256u32 {
            let h = format!("{:02x}", b);
            g.push("cp437.allbytes", format!("text.cp437 bytes={h}"));
            g.push("utf8.allbytes", format!("text.utf8lossy bytes={h}"));
            g.push("name.allbytes", format!("text.name flag=0 name={h} comment={h}"));
            g.push("name.allbytes", format!("text.name flag=1 name={h} comment={h}"));
            // the byte inside an ASCII context (defeats the fast path for high bytes only)
            g.push("cp437.allbytes.ctx", format!("text.cp437 bytes=41{h}7a"));
            g.push("utf8block.prefix1", format!("text.utf8block prefix={h}"));
        }
        g.push("utf8block.prefix0", "text.utf8block prefix=-".into());
        g.push("cp437.all256", format!("text.cp437 bytes={}", hex(&(0..=255u8).collect::<Vec<u8>>())));
        g.push("cp437.empty", "text.cp437 bytes=-".into());
        g.push("utf8.empty", "text.utf8lossy bytes=-".into());
        g.push("name.empty", "text.name flag=0 name=- comment=-".into());
        g.push("name.empty", "text.name flag=1 name=- comment=-".into());
        // 2. 2-byte prefix blocks (all 3-byte sequences): exhaustive in thorough, sampled in quick
        if thorough {
            for p in 0..65536u32 {
                g.push("utf8block.prefix2", format!("text.utf8block prefix={:04x}", p));
            }
        } else {
            for b0 in [0xc2u32, 0xdf, 0xe0, 0xe1, 0xec, 0xed, 0xee, 0xef, 0xf0, 0xf1, 0xf3, 0xf4, 0xf5, 0x7f, 0x80, 0xc1] {
                for b1 in [0x7fu32, 0x80, 0x8f, 0x90, 0x9f, 0xa0, 0xbf, 0xc0] {
                    g.push("utf8block.prefix2", format!("text.utf8block prefix={:02x}{:02x}", b0, b1));
                }
            }
            for _ in 0..400 {
                g.push("utf8block.prefix2", format!("text.utf8block prefix={:04x}", r.below(65536)));
            }
        }
        // 3-byte prefixes of 4-byte sequences at the edges (the 4th byte exhaustively)
        for p in ["f09080", "f08fbf", "f48fbf", "f49080", "f0bfbf", "f18080", "f3bfbf", "f0907f", "f090c0", "edbfbf", "e0a080"] {
            g.push("utf8block.prefix3", format!("text.utf8block prefix={p}"));
        }
        // 3. random edge-biased byte strings
        let n_utf8 = if thorough { 1_000_000 } else { 100_000 };
        for _ in 0..n_utf8 {
            let v = edge_bytes(&mut r, 5);
            g.push("utf8.edge", format!("text.utf8lossy bytes={}", hex(&v)));
        }
        let n_big = if thorough { 40 } else { 6 };
        for k in 0..n_big {
            let mut v = vec![];
            while v.len() < 65535 {
                if k % 2 == 0 { v.extend(fragment(&mut r)); } else { v.extend(enc(rand_scalar(&mut r))); }
            }
            v.truncate(65535);
            g.push("utf8.64k", format!("text.utf8lossy bytes={}", hex(&v)));
        }
        // 4. cp437 random strings
        let n_cp = if thorough { 100_000 } else { 5_000 };
        for _ in 0..n_cp {
            let n = r.below(24) as usize;
            let v: Vec<u8> = match r.below(3) {
                0 => (0..n).map(|_| r.below(0x80) as u8).collect(), // fast path
                1 => r.bytes(n),
                _ => (0..n).map(|_| if r.chance(1, 6) { r.range(0x80, 0xff) as u8 } else { r.range(0x20, 0x7e) as u8 }).collect(),
            };
            g.push("cp437.random", format!("text.cp437 bytes={}", hex(&v)));
        }
        for ascii in [true, false] {
            let v: Vec<u8> = (0..65535).map(|_| if ascii { r.below(0x80) as u8 } else { r.next() as u8 }).collect();
            g.push("cp437.64k", format!("text.cp437 bytes={}", hex(&v)));
        }
        // 5. archives: names and comments under both flags
        let n_name = if thorough { 60_000 } else { 4_000 };
        for _ in 0..n_name {
            let flag = r.below(2);
            let name = match r.below(4) {
                0 => (0..r.below(12)).map(|_| r.range(0x20, 0x7e) as u8).collect::<Vec<u8>>(),
                1 => { let n = r.below(12) as usize; r.bytes(n) }
                _ => edge_bytes(&mut r, 4),
            };
            let comment = match r.below(4) {
                0 => vec![],
                1 => { let n = r.below(12) as usize; r.bytes(n) }
                _ => edge_bytes(&mut r, 3),
            };
            g.push("name.random", format!("text.name flag={flag} name={} comment={}", hex(&name), hex(&comment)));
        }
        for flag in 0..2 {
            let mut name = vec![];
            while name.len() < 65535 { name.extend(fragment(&mut r)); }
            name.truncate(65535);
            let comment: Vec<u8> = r.bytes(65535);
            g.push("name.64k", format!("text.name flag={flag} name={} comment={}", hex(&name), hex(&comment)));
            // the crate's own doc example and a high-byte name that is also valid UTF-8
            g.push("name.example", format!("text.name flag={flag} name=43757261876f comment=cccdcdb9"));
            g.push("name.example", format!("text.name flag={flag} name=c3a9e282ac2e747874 comment=f09f9880"));
        }
        // 5b. other flag bits, local/central disagreement, Info-ZIP Unicode Path / Comment records
        let arch_line = |cflags: u16, lflags: u16, cname: &[u8], lname: &[u8], comment: &[u8], cextra: &[u8], lextra: &[u8]| {
            format!("text.arch cflags={cflags} lflags={lflags} cname={} lname={} comment={} cextra={} lextra={} zip={}",
                hex(cname), hex(lname), hex(comment), hex(cextra), hex(lextra),
                hex(&build_archive2(cflags, lflags, cname, lname, comment, cextra, lextra)))
        };
        let flagset: [u16; 14] = [0, 0x0800, 0xF800, 0x0806, 0x0006, 0x1000, 0x2800, 0x4000, 0x8800, 0xF7F6, 0xFFF6, 0x0808, 0x0001, 0x0809];
        let names: [&[u8]; 5] = [b"plain.txt", &[0x43, 0x75, 0x72, 0x61, 0x87, 0x6f], &[0xc3, 0xa9, 0xe2, 0x82, 0xac], &[0xff, 0x80, 0x41], b""];
        // (a) every flag word of the set on both sides x every name, identical headers, no extra
        for &fl in &flagset { for nm in &names {
            g.push("arch.flags", arch_line(fl, fl, nm, nm, &[0xcc, 0xcd], &[], &[]));
        }}
        // (b) flags disagree (every ordered pair of four words), names disagree
        for &cf in &[0u16, 0x0800, 0xF800, 0x0006] { for &lf in &[0u16, 0x0800, 0xF800, 0x0006] {
            g.push("arch.mismatch", arch_line(cf, lf, names[1], names[2], names[2], &[], &[]));
            g.push("arch.mismatch", arch_line(cf, lf, names[2], names[1], names[1], &[], &[]));
        }}
        // (c) valid Unicode Path / Comment records (version 1, CRC-32 of the header's raw name / comment, another
        //     UTF-8 text) in central, local, both; also stale CRC, version 2, empty text, together with other records
        let uni: &[u8] = "\u{442}\u{435}\u{441}\u{442}-\u{1F600}.txt".as_bytes();
        let ts: [u8; 9] = [0x55, 0x54, 5, 0, 1, 0, 0, 0, 0];
        for &fl in &[0u16, 0x0800, 0xF800, 0x0806] { for nm in &names { for variant in 0..6u8 {
            let comment: &[u8] = &[0x87, 0x41];
            let (ver, crc_n, crc_c, text): (u8, u32, u32, &[u8]) = match variant {
                0 | 3 | 4 | 5 => (1, crc32fast::hash(nm), crc32fast::hash(comment), uni),
                1 => (1, crc32fast::hash(nm) ^ 1, crc32fast::hash(comment) ^ 1, uni),
                _ => (2, crc32fast::hash(nm), crc32fast::hash(comment), b""),
            };
            let mut rec = unicode_record(0x7075, ver, crc_n, text);
            if variant != 4 { rec.extend(unicode_record(0x6375, ver, crc_c, text)); }
            if variant == 5 { let mut t = ts.to_vec(); t.extend(rec); rec = t; }
            let (ce, le): (&[u8], &[u8]) = match variant { 3 => (&rec, &[]), 4 => (&[], &rec), _ => (&rec, &rec) };
            g.push("arch.unicodepath", arch_line(fl, fl, nm, nm, comment, ce, le));
        }}}
        // (d) random: flags, names, comments, mismatch, records
        let n_arch = if thorough { 40_000 } else { 2_500 };
        for _ in 0..n_arch {
            let rf = |r: &mut Rng| -> u16 { match r.below(4) { 0 => *r.pick(&flagset), 1 => (r.below(65536) as u16) & !9, 2 => if r.chance(1, 2) { 0x0800 } else { 0 }, _ => r.below(65536) as u16 } };
            let rn = |r: &mut Rng| -> Vec<u8> { match r.below(4) {
                0 => (0..r.below(12)).map(|_| r.range(0x20, 0x7e) as u8).collect::<Vec<u8>>(),
                1 => { let n = r.below(12) as usize; r.bytes(n) }
                _ => edge_bytes(r, 3),
            } };
            let cflags = rf(&mut r);
            let lflags = if r.chance(2, 3) { cflags } else { rf(&mut r) };
            let cname = rn(&mut r);
            let lname = if r.chance(2, 3) { cname.clone() } else { rn(&mut r) };
            let comment = if r.chance(1, 3) { vec![] } else { rn(&mut r) };
            let mk_extra = |r: &mut Rng, name: &[u8], comment: &[u8]| -> Vec<u8> {
                let mut e = vec![];
                if r.chance(1, 4) { e.extend_from_slice(&ts); }
                if r.chance(3, 4) {
                    let text = rn(r);
                    let crc = if r.chance(4, 5) { crc32fast::hash(name) } else { r.next() as u32 };
                    e.extend(unicode_record(0x7075, if r.chance(9, 10) { 1 } else { r.below(4) as u8 }, crc, &text));
                }
                if r.chance(1, 2) {
                    let text = rn(r);
                    e.extend(unicode_record(0x6375, 1, crc32fast::hash(comment), &text));
                }
                e
            };
            let cextra = if r.chance(1, 5) { vec![] } else { mk_extra(&mut r, &cname, &comment) };
            let lextra = if r.chance(1, 3) { cextra.clone() } else if r.chance(1, 2) { vec![] } else { mk_extra(&mut r, &lname, &comment) };
            g.push("arch.random", arch_line(cflags, lflags, &cname, &lname, &comment, &cextra, &lextra));
        }
        // 6. writer
        let n_write = if thorough { 60_000 } else { 4_000 };
        for _ in 0..n_write {
            let n = r.below(10);
            let cs = rand_chars(&mut r, n);
            g.push("write.random", format!("text.write chars={}", scalars(cs)));
        }
        for &c in BOUNDARY.iter() {
            g.push("write.boundary", format!("text.write chars={}", scalars([c])));
            g.push("write.boundary", format!("text.write chars={}", scalars([0x61, c, 0x62])));
            g.push("write.encrypted", format!("text.write chars={} enc=1", scalars([0x61, c, 0x62])));
        }
        g.push("write.empty", "text.write chars=-".into());
        for (len, ascii) in [(65535usize, true), (65535, false), (65534, false), (255, false), (256, true)] {
            let cs = chars_of_len(&mut r, len, ascii);
            g.push("write.long", format!("text.write chars={}", scalars(cs)));
        }
        // names that do not fit the 16-bit length field must be rejected (never stored with a wrapped length)
        for (len, ascii) in [(65536usize, true), (65537, false), (70000, true), (131072, false)] {
            let cs = chars_of_len(&mut r, len, ascii);
            g.push("write.toolong", format!("text.write chars={}", scalars(cs)));
        }
        g
    }

    fn run(&self, line: &str) -> String {
        let (op, a) = parse_line(line);
        match op.as_str() {
            "text.cp437" => {
                let bs = match get_hex(&a, "bytes") { Some(b) => b, None => return "bad-op".into() };
                match catch(move || bs.from_cp437()) {
                    Ok(s) => format!("ok {}", str_scalars(&s)),
                    Err(_) => "panic".into(),
                }
            }
            "text.utf8lossy" => {
                let bs = match get_hex(&a, "bytes") { Some(b) => b, None => return "bad-op".into() };
                match catch(move || String::from_utf8_lossy(&bs).into_owned()) {
                    Ok(s) => format!("ok {}", str_scalars(&s)),
                    Err(_) => "panic".into(),
                }
            }
            "text.utf8block" => {
                let mut p = match get_hex(&a, "prefix") { Some(b) => b, None => return "bad-op".into() };
                let mut h: u64 = 0xcbf29ce484222325;
                p.push(0);
                let last = p.len() - 1;
                for x in 0..=255u8 {
                    p[last] = x;
                    h = fnv_scalars(h, &String::from_utf8_lossy(&p));
                }
                format!("ok {:016x}", h)
            }
            "text.name" => {
                let (flag, name, comment) = match (get_u64(&a, "flag"), get_hex(&a, "name"), get_hex(&a, "comment")) {
                    (Some(f), Some(n), Some(c)) if n.len() <= 65535 && c.len() <= 65535 => (f != 0, n, c),
                    _ => return "bad-op".into(),
                };
                catch(move || run_name(flag, &name, &comment)).unwrap_or_else(|_| "panic".into())
            }
            "text.arch" => {
                let zip = match get_hex(&a, "zip") { Some(z) => z, None => return "bad-op".into() };
                let raw = get_u64(&a, "cflags").unwrap_or(0) & 1 == 1;
                catch(move || run_arch(&zip, raw)).unwrap_or_else(|_| "panic".into())
            }
            "text.write" => {
                let cs = match a.get("chars").and_then(|s| parse_scalars(s)).and_then(|v| chars_to_string(&v)) {
                    Some(s) => s,
                    None => return "bad-op".into(),
                };
                let enc = a.get("enc").map(|v| v == "1").unwrap_or(false);
                match catch(move || write_name(&cs, enc)) {
                    Err(_) => "panic".into(),
                    Ok(Err(e)) => e,
                    Ok(Ok(w)) => {
                        let back = match &w.back {
                            Ok((n, raw)) => format!("back={} raw={}", str_scalars(n), hex(raw)),
                            Err(e) => e.clone(),
                        };
                        format!("ok stored={} len={} flag={} bit0={} {}", hex(&w.stored), w.len_field, (w.flags >> 11) & 1, w.flags & 1, back)
                    }
                }
            }
            _ => "bad-op".into(),
        }
    }

    fn oracle(&self, line: &str, resp: &str) -> Vec<OracleFailure> {
        let mut f = vec![];
        let mut fail = |w: String| f.push(OracleFailure { what: w });
        let (op, a) = parse_line(line);
        if resp == "bad-op" {
            return f; // malformed request line (shrinker artefact), not an implementation outcome
        }
        if resp.contains("panic") {
            fail(format!("panic in {op}"));
            return f;
        }
        if op == "text.write" {
            // the only admissible failure: a name longer than the 16-bit length field is refused
            let cs = a.get("chars").and_then(|s| parse_scalars(s)).unwrap_or_default();
            let n = chars_to_string(&cs).map(|s| s.len()).unwrap_or(0);
            if n > 65535 {
                if resp != "err invalid" {
                    fail(format!("a {n}-byte name must be rejected with InvalidArchive, got `{}`", short(resp)));
                }
                return f;
            }
        }
        if op == "text.arch" {
            // only archives the generator built are judged (a shrunk or hand-edited line whose `zip` is not the
            // archive of the listed fields says nothing about the property)
            let gh = |k: &str| get_hex(&a, k).unwrap_or_default();
            let g16 = |k: &str| get_u64(&a, k).unwrap_or(0) as u16;
            if build_archive2(g16("cflags"), g16("lflags"), &gh("cname"), &gh("lname"), &gh("comment"), &gh("cextra"), &gh("lextra")) != gh("zip") {
                return f;
            }
        }
        if !resp.starts_with("ok ") {
            fail(format!("{op} must never fail, got `{resp}`"));
            return f;
        }
        let field = |k: &str| -> String {
            resp.split(' ').find_map(|kv| kv.strip_prefix(&format!("{k}="))).unwrap_or("?").to_string()
        };
        let cp = |b: &[u8]| scalars(b.iter().map(|&x| CP437_REF[x as usize]));
        let body = resp.strip_prefix("ok ").unwrap_or(resp);
        match op.as_str() {
            "text.cp437" => {
                let bs = get_hex(&a, "bytes").unwrap_or_default();
                if body != cp(&bs) {
                    fail(format!("from_cp437 differs from the CPython/Unicode CP437 table: got `{}`", short(body)));
                }
                let slice = catch({ let b = bs.clone(); move || (&b[..]).from_cp437().into_owned() });
                if slice.as_ref().map(|s| str_scalars(s)).unwrap_or_else(|_| "panic".into()) != body {
                    fail("&[u8]::from_cp437 differs from Vec<u8>::from_cp437".into());
                }
            }
            "text.utf8lossy" => {
                let bs = get_hex(&a, "bytes").unwrap_or_default();
                let want = scalars(ref_lossy(&bs));
                if body != want {
                    fail(format!("from_utf8_lossy differs from the maximal-subpart reference decoder: got `{}` want `{}`", short(body), short(&want)));
                }
                match std::str::from_utf8(&bs) {
                    Ok(s) => if str_scalars(s) != body { fail("valid UTF-8 does not decode to itself".into()) },
                    Err(_) => if !body.split(',').any(|x| x == "fffd") { fail("invalid UTF-8 decoded without U+FFFD".into()) },
                }
            }
            "text.utf8block" => {
                let mut p = get_hex(&a, "prefix").unwrap_or_default();
                let mut h: u64 = 0xcbf29ce484222325;
                p.push(0);
                let last = p.len() - 1;
                for x in 0..=255u8 {
                    p[last] = x;
                    let s: String = ref_lossy(&p).into_iter().map(|v| char::from_u32(v).unwrap_or('?')).collect();
                    h = fnv_scalars(h, &s);
                }
                if format!("{:016x}", h) != body {
                    fail("from_utf8_lossy differs from the reference decoder somewhere in this block".into());
                }
            }
            "text.name" => {
                let flag = get_u64(&a, "flag").unwrap_or(0) != 0;
                let name = get_hex(&a, "name").unwrap_or_default();
                let comment = get_hex(&a, "comment").unwrap_or_default();
                if field("raw") != hex(&name) || field("sraw") != hex(&name) {
                    fail("name_raw() is not the stored name bytes".into());
                }
                let dec = |b: &[u8]| if flag { scalars(ref_lossy(b)) } else { cp(b) };
                if field("name") != dec(&name) || field("sname") != dec(&name) {
                    fail(format!("name not decoded by the flagged encoding (flag={flag}): got `{}`", short(&field("name"))));
                }
                if field("comment") != dec(&comment) {
                    fail(format!("comment not decoded by the flagged encoding (flag={flag}): got `{}`", short(&field("comment"))));
                }
            }
            "text.arch" => {
                let g16 = |k: &str| get_u64(&a, k).unwrap_or(0) as u16;
                let gh = |k: &str| get_hex(&a, k).unwrap_or_default();
                let (cflags, lflags) = (g16("cflags"), g16("lflags"));
                let (cname, lname, comment) = (gh("cname"), gh("lname"), gh("comment"));
                let dec = |fl: u16, b: &[u8]| if fl & 0x0800 != 0 { scalars(ref_lossy(b)) } else { cp(b) };
                if field("raw") != hex(&cname) {
                    fail("name_raw() is not the name bytes of the central header".into());
                }
                if field("name") != dec(cflags, &cname) {
                    fail(format!("name not decoded from the central header's name by its flag alone (flags={cflags:#06x}): got `{}`", short(&field("name"))));
                }
                if field("comment") != dec(cflags, &comment) {
                    fail(format!("comment not decoded by the central header's flag alone (flags={cflags:#06x}): got `{}`", short(&field("comment"))));
                }
                if lflags & 9 != 0 {
                    if !resp.ends_with(" err unsupported") {
                        fail(format!("streaming reader must refuse local flags {lflags:#06x}"));
                    }
                } else {
                    if field("sraw") != hex(&lname) {
                        fail("streamed name_raw() is not the name bytes of the local header".into());
                    }
                    if field("sname") != dec(lflags, &lname) {
                        fail(format!("streamed name not decoded from the local header's name by its flag alone (flags={lflags:#06x}): got `{}`", short(&field("sname"))));
                    }
                }
            }
            "text.write" => {
                let cs = a.get("chars").and_then(|s| parse_scalars(s)).unwrap_or_default();
                let s = chars_to_string(&cs).unwrap_or_default();
                if field("stored") != hex(s.as_bytes()) {
                    fail("stored name bytes are not the UTF-8 bytes of the given name".into());
                }
                let nonascii = cs.iter().any(|&c| c >= 0x80);
                if field("flag") != (nonascii as u8).to_string() {
                    fail(format!("language-encoding flag is {} for a name that is {}ASCII", field("flag"), if nonascii { "not " } else { "" }));
                }
                if field("len") != s.len().to_string() {
                    fail(format!("name length field is {} for a {}-byte name", field("len"), s.len()));
                }
                if field("back") != scalars(cs.iter().copied()) {
                    fail(format!("name read back differs from the name written: got `{}`", short(&field("back"))));
                }
                if field("raw") != hex(s.as_bytes()) {
                    fail("name_raw() read back differs from the bytes written".into());
                }
                let enc = a.get("enc").map(|v| v == "1").unwrap_or(false);
                if field("bit0") != (enc as u8).to_string() {
                    fail(format!("encryption flag (bit 0) is {} for an entry written {} a password", field("bit0"), if enc { "with" } else { "without" }));
                }
                if let Ok(Ok(w)) = catch({ let s = s.clone(); move || write_name(&s, enc) }) {
                    if w.local_stored != w.stored || w.local_len_field != w.len_field || w.local_flags != w.flags {
                        fail("local and central header disagree on name bytes / length / flags".into());
                    }
                }
            }
            _ => {}
        }
        f
    }
}

fn short(s: &str) -> String {
    if s.len() > 120 { format!("{}…", &s[..120]) } else { s.to_string() }
}
