//! `write.run`: sequences of `ZipWriter` calls — C01/C02 (round trip, validity), C12 (any call order),
//! C13 (append), C14 (raw copy), C17 (aligned / extra data at the archive level).
use super::read::{cls_io, cls_z, direct_decode, rand_content, rand_name};
use super::{GenOut, OracleFailure, Stream};
use crate::prng::Rng;
use crate::strict::{strict_parse, StrictOpts, StrictView};
use crate::util::*;
use std::collections::BTreeMap;
use std::io::{BufRead, BufReader, Cursor, Write};
use std::sync::atomic::{AtomicU8, Ordering};
use std::sync::Mutex;
use zip::unstable::write::FileOptionsExt;
use zip::write::FileOptions;

pub struct WriteStream(pub &'static str);

#[derive(Clone, Debug)]
pub struct Opts {
    pub method: u16,
    pub level: Option<i32>,
    pub dp: u16,
    pub tp: u16,
    pub perm: Option<u32>,
    pub large: bool,
    pub pw: Option<Vec<u8>>,
}

impl Opts {
    pub fn tok(&self) -> String {
        format!(
            "{},{},{},{},{},{},{}",
            self.method,
            self.level.map(|l| l.to_string()).unwrap_or("n".into()),
            self.dp,
            self.tp,
            self.perm.map(|p| p.to_string()).unwrap_or("n".into()),
            self.large as u8,
            self.pw.as_ref().map(|p| hex(p)).unwrap_or("n".into())
        )
    }
    pub fn parse(x: &[&str]) -> Option<Opts> {
        if x.len() != 7 { return None; }
        Some(Opts {
            method: x[0].parse().ok()?,
            level: if x[1] == "n" { None } else { Some(x[1].parse().ok()?) },
            dp: x[2].parse().ok()?,
            tp: x[3].parse().ok()?,
            perm: if x[4] == "n" { None } else { Some(x[4].parse().ok()?) },
            large: x[5] == "1",
            pw: if x[6] == "n" { None } else { Some(unhex(x[6])?) },
        })
    }
    pub fn to_zip(&self) -> FileOptions {
        #[allow(deprecated)]
        let m = zip::CompressionMethod::from_u16(self.method);
        let mut o = FileOptions::default()
            .compression_method(m)
            .compression_level(self.level)
            .last_modified_time(zip::DateTime::from_msdos(self.dp, self.tp))
            .large_file(self.large);
        if let Some(p) = self.perm { o = o.unix_permissions(p); }
        if let Some(pw) = &self.pw { o = o.with_deprecated_encryption(pw); }
        o
    }
}

fn default_level(m: u16) -> i32 { match m { 8 => 6, 12 => 6, 93 => 3, _ => 0 } }

/// The documented level range of a compressing method: Deflated 0..=9, Bzip2 1..=9 (0 is refused since D10), Zstd
/// the library's own range.
pub fn level_range(method: u16) -> Option<std::ops::RangeInclusive<i32>> {
    match method { 8 => Some(0..=9), 12 => Some(1..=9), 93 => Some(zstd::compression_level_range()), _ => None }
}

/// Compress `chunks` with the codec library directly, feeding the same chunk sequence.
pub fn direct_compress(method: u16, level: i32, chunks: &[Vec<u8>]) -> Option<Vec<u8>> { direct_compress_fl(method, level, chunks, &[]) }

/// ... with a `flush()` of the encoder in front of chunk `i` for every `i` in `flushes` (`chunks.len()` = after the
/// last chunk): `ZipWriter::flush` forwards to the encoder, whose flush ends the current block, so the stored
/// stream depends on where the caller flushed.
pub fn direct_compress_fl(method: u16, level: i32, chunks: &[Vec<u8>], flushes: &[usize]) -> Option<Vec<u8>> {
    if !level_range(method).map(|r| r.contains(&level)).unwrap_or(false) { return None; }
    fn feed<E: Write>(e: &mut E, chunks: &[Vec<u8>], flushes: &[usize]) -> Option<()> {
        for (i, c) in chunks.iter().enumerate() {
            for _ in flushes.iter().filter(|f| **f == i) { e.flush().ok()?; }
            e.write_all(c).ok()?;
        }
        for _ in flushes.iter().filter(|f| **f >= chunks.len()) { e.flush().ok()?; }
        Some(())
    }
    match method {
        8 => {
            let mut e = flate2::write::DeflateEncoder::new(vec![], flate2::Compression::new(level as u32));
            feed(&mut e, chunks, flushes)?;
            e.finish().ok()
        }
        12 => {
            let mut e = bzip2::write::BzEncoder::new(vec![], bzip2::Compression::new(level as u32));
            feed(&mut e, chunks, flushes)?;
            e.finish().ok()
        }
        93 => {
            let mut e = zstd::stream::write::Encoder::new(vec![], level).ok()?;
            feed(&mut e, chunks, flushes)?;
            e.finish().ok()
        }
        _ => None,
    }
}

struct Cur {
    method: u16,
    level: i32,
    pw: Option<Vec<u8>>,
    chunks: Vec<Vec<u8>>,
    /// `flush` calls that reached the entry's encoder: number of chunks written before each
    flushes: Vec<usize>,
    /// the entry's encoder is installed (`switch_to` ran: not yet in the local part of extra-data mode, but already
    /// in the central-only part that `end_local_start_central_extra_data` opens)
    enc_on: bool,
    in_extra: bool,
    raw: bool,
}

/// A seekable source whose `read` returns at most `chunk` bytes per call.
pub struct ShortSrc { inner: Cursor<Vec<u8>>, chunk: usize }
impl ShortSrc {
    pub fn new(b: Vec<u8>) -> ShortSrc {
        let chunk = [usize::MAX, 1, 7, 4000][(crc32fast::hash(&b) % 4) as usize];
        ShortSrc { inner: Cursor::new(b), chunk }
    }
    /// the largest number of bytes one `read` delivers
    pub fn chunk(&self) -> usize { self.chunk }
}
impl std::io::Read for ShortSrc {
    fn read(&mut self, buf: &mut [u8]) -> std::io::Result<usize> {
        let n = buf.len().min(self.chunk);
        self.inner.read(&mut buf[..n])
    }
}
impl std::io::Seek for ShortSrc {
    fn seek(&mut self, p: std::io::SeekFrom) -> std::io::Result<u64> { self.inner.seek(p) }
}

#[derive(Clone)]
pub struct RunOut {
    pub tokens: Vec<String>,
    pub fin: Option<Vec<u8>>,
    pub comp: Vec<String>,
    pub zc: Vec<String>,
    /// entries the caller believes were created: (name, method, plaintext or None for raw copies / dirs)
    pub expect: Vec<(Vec<u8>, u16, Option<Vec<u8>>, Option<u32>)>,
    pub finished_ok: bool,
    pub comment: Vec<u8>,
    /// sink position right after the first successful finish (= end of the rewritten archive)
    pub end_pos: Option<u64>,
}

/// Record the codec rows of the entry being written without forgetting it: a start call that FAILED may
/// or may not have closed the previous entry (e.g. it fails in the implicit end_extra_data and the
/// entry stays open); rows are keyed by content, so recording too many is harmless.
fn note_cur(cur: &Option<Cur>, comp: &mut Vec<String>, zc: &mut Vec<String>) {
    if let Some(c) = cur {
        let mut tmp = Some(Cur { method: c.method, level: c.level, pw: c.pw.clone(), chunks: c.chunks.clone(), flushes: c.flushes.clone(), enc_on: c.enc_on, in_extra: c.in_extra, raw: c.raw });
        close_cur(&mut tmp, comp, zc);
    }
}

fn close_cur(cur: &mut Option<Cur>, comp: &mut Vec<String>, zc: &mut Vec<String>) {
    if let Some(c) = cur.take() {
        if c.raw { return; }
        let plain: Vec<u8> = c.chunks.concat();
        let stored: Vec<u8> = if c.method == 0 { plain.clone() } else {
            match direct_compress_fl(c.method, c.level, &c.chunks, &c.flushes) {
                Some(o) => {
                    comp.push(format!("{}:{}:{}:{}:{}", c.method, c.level, crc32fast::hash(&plain), plain.len(), hex(&o)));
                    o
                }
                None => return,
            }
        };
        if let Some(pw) = c.pw {
            let crc = crc32fast::hash(&plain);
            let mut buf = vec![0u8; 11];
            buf.push((crc >> 24) as u8);
            buf.extend_from_slice(&stored);
            let ct = crate::pkware::Keys::new(&pw).encrypt(&buf);
            zc.push(format!("{}:{}:{}:{}", hex(&pw), crc32fast::hash(&buf), buf.len(), hex(&ct)));
        }
    }
}

/// What the harness needs from a sink besides `Read + Write + Seek`.
pub trait SinkInfo {
    fn sink_bytes(&self) -> Vec<u8>;
    fn pos(&self) -> u64;
}
impl SinkInfo for Cursor<Vec<u8>> {
    fn sink_bytes(&self) -> Vec<u8> { self.get_ref().clone() }
    fn pos(&self) -> u64 { self.position() }
}

/// Results of `run_calls` by (hash, size) of its input: generator, adapter and oracles execute the same call
/// list three to four times, and most of that time goes into setting up compressor contexts (bzip2 / zstd
/// allocate megabytes per encoder).  The execution is deterministic (in-memory sink, fixed timestamps, zero
/// ZipCrypto header), so the outcome of the first execution is reused; bounded by a byte budget.
static RUN_MEMO: Mutex<Option<(std::collections::HashMap<(u64, usize), RunOut>, usize)>> = Mutex::new(None);
const RUN_MEMO_BUDGET: usize = 192 << 20;

/// Execute a call list on the real writer over an in-memory cursor.
pub fn run_calls(calls: &[String], srcs: &[Vec<u8>]) -> RunOut {
    let mut h: u64 = 0xcbf29ce484222325;
    let mut n = 0usize;
    let mut eat = |b: &[u8]| { for x in b { h ^= *x as u64; h = h.wrapping_mul(0x100000001b3); } h ^= 0xff; h = h.wrapping_mul(0x100000001b3); n += b.len() + 1; };
    for c in calls { eat(c.as_bytes()); }
    eat(b"|");
    for s in srcs { eat(s); }
    let key = (h, n);
    if let Ok(g) = RUN_MEMO.lock() {
        if let Some(r) = g.as_ref().and_then(|m| m.0.get(&key)) { return r.clone(); }
    }
    let first: Vec<&str> = calls[0].split(',').collect();
    let sink = if first[0] == "ap" { Cursor::new(unhex(first[1]).unwrap_or_default()) } else { Cursor::new(Vec::new()) };
    let r = run_calls_sink(calls, srcs, sink);
    if let Ok(mut g) = RUN_MEMO.lock() {
        let m = g.get_or_insert_with(|| (std::collections::HashMap::new(), 0));
        let cost = 256 + r.fin.as_ref().map(|f| f.len()).unwrap_or(0) + r.comp.iter().chain(r.zc.iter()).map(|s| s.len()).sum::<usize>()
            + r.expect.iter().map(|e| e.0.len() + e.2.as_ref().map(|p| p.len()).unwrap_or(0)).sum::<usize>() + r.comment.len();
        if m.1 + cost <= RUN_MEMO_BUDGET { m.1 += cost; m.0.insert(key, r.clone()); }
    }
    r
}

/// Execute a call list on the real writer over any sink.
pub fn run_calls_sink<S: std::io::Read + Write + std::io::Seek + SinkInfo>(calls: &[String], srcs: &[Vec<u8>], sink: S) -> RunOut {
    let mut out = RunOut { tokens: vec![], fin: None, comp: vec![], zc: vec![], expect: vec![], finished_ok: false, comment: vec![], end_pos: None };
    let mut sink = sink;
    let first: Vec<&str> = calls[0].split(',').collect();
    // sources of raw copies sit behind a reader that delivers SHORT reads (a socket, a pipe, a chunking
    // adapter): the `Read` contract allows them at any time, and a copy loop that takes a short read for the
    // end of the data silently truncates the entry.  The chunk size is a function of the source bytes, so a
    // replay of the same line behaves identically.
    let mut src_archives: Vec<Option<zip::ZipArchive<ShortSrc>>> =
        srcs.iter().map(|b| zip::ZipArchive::new(ShortSrc::new(b.clone())).ok()).collect();
    let mut panicked = false;
    let mut early: Option<bool> = None;
    'blk: {
        let sink_ref = &mut sink;
        let wr = std::panic::catch_unwind(std::panic::AssertUnwindSafe(|| {
            if first[0] == "ap" { zip::ZipWriter::new_append(sink_ref).map_err(|e| cls_z(&e)) } else { Ok(zip::ZipWriter::new(sink_ref)) }
        }));
        let mut w = match wr {
            Ok(Ok(w)) => { out.tokens.push("ok".into()); w }
            Ok(Err(e)) => { out.tokens.push(e); early = Some(false); break 'blk; }
            Err(_) => { out.tokens.push("panic".into()); early = Some(true); break 'blk; }
        };
        let mut cur: Option<Cur> = None;
        let mut pending_expect: Option<usize> = None;
        for call in &calls[1..] {
            let x: Vec<&str> = call.split(',').collect();
            let r = std::panic::catch_unwind(std::panic::AssertUnwindSafe(|| -> String {
                match x[0] {
                    "sf" | "sx" | "sa" => {
                        let name = unhex(x[1]).unwrap_or_default();
                        let o = match Opts::parse(&x[2..9]) { Some(o) => o, None => return "bad-call".into() };
                        let nm = String::from_utf8_lossy(&name).into_owned();
                        let res = match x[0] {
                            "sf" => w.start_file(nm, o.to_zip()).map(|_| "ok".to_string()),
                            "sx" => w.start_file_with_extra_data(nm, o.to_zip()).map(|v| format!("ok={v}")),
                            _ => w.start_file_aligned(nm, o.to_zip(), x[9].parse().unwrap_or(0)).map(|v| format!("ok={v}")),
                        };
                        if res.is_ok() { close_cur(&mut cur, &mut out.comp, &mut out.zc); } else { note_cur(&cur, &mut out.comp, &mut out.zc); }
                        match res {
                            Ok(t) => {
                                cur = Some(Cur { method: o.method, level: o.level.unwrap_or(default_level(o.method)), pw: o.pw.clone(), chunks: vec![], flushes: vec![], enc_on: x[0] != "sx", in_extra: x[0] == "sx", raw: false });
                                out.expect.push((name, o.method, Some(vec![]), Some(0o100000 | o.perm.map(|p| p & 0o777).unwrap_or(0o644))));
                                pending_expect = Some(out.expect.len() - 1);
                                t
                            }
                            Err(e) => { /* the previous entry may still be open (refusal in the implicit end_extra_data): keep its bookkeeping */ cls_z(&e) }
                        }
                    }
                    "w" => {
                        let b = unhex(x[1]).unwrap_or_default();
                        match w.write_all(&b) {
                            Ok(()) => {
                                if let Some(c) = cur.as_mut() {
                                    if !c.in_extra && !b.is_empty() {
                                        c.chunks.push(b.clone());
                                        if let Some(i) = pending_expect { if let Some(p) = out.expect[i].2.as_mut() { p.extend_from_slice(&b); } }
                                    }
                                }
                                "ok".into()
                            }
                            Err(e) => cls_io(&e),
                        }
                    }
                    "el" => match w.end_local_start_central_extra_data() {
                        Ok(v) => { if let Some(c) = cur.as_mut() { c.in_extra = true; c.enc_on = true; } format!("ok={v}") }
                        Err(e) => cls_z(&e),
                    },
                    "ex" => match w.end_extra_data() {
                        Ok(v) => { if let Some(c) = cur.as_mut() { c.in_extra = false; c.enc_on = true; } format!("ok={v}") }
                        Err(e) => cls_z(&e),
                    },
                    "dir" => {
                        let name = unhex(x[1]).unwrap_or_default();
                        let o = match Opts::parse(&x[2..9]) { Some(o) => o, None => return "bad-call".into() };
                        let nm = String::from_utf8_lossy(&name).into_owned();
                        let res = w.add_directory(nm.clone(), o.to_zip());
                        if res.is_ok() { close_cur(&mut cur, &mut out.comp, &mut out.zc); pending_expect = None; } else { note_cur(&cur, &mut out.comp, &mut out.zc); }
                        match res {
                            Ok(()) => {
                                // an encrypting option encrypts the (empty) content: 12 header bytes are stored
                                if let Some(pw) = &o.pw {
                                    let mut c = Some(Cur { method: 0, level: 0, pw: Some(pw.clone()), chunks: vec![], flushes: vec![], enc_on: true, in_extra: false, raw: false });
                                    close_cur(&mut c, &mut out.comp, &mut out.zc);
                                }
                                let n2 = if nm.ends_with('/') || nm.ends_with('\\') { nm } else { format!("{nm}/") };
                                out.expect.push((n2.into_bytes(), 0, Some(vec![]), Some(0o40000 | o.perm.map(|p| p & 0o777).unwrap_or(0o755))));
                                "ok".into()
                            }
                            Err(e) => cls_z(&e),
                        }
                    }
                    "sym" => {
                        let name = unhex(x[1]).unwrap_or_default();
                        let target = unhex(x[2]).unwrap_or_default();
                        let o = match Opts::parse(&x[3..10]) { Some(o) => o, None => return "bad-call".into() };
                        let res = w.add_symlink(String::from_utf8_lossy(&name).into_owned(), String::from_utf8_lossy(&target).into_owned(), o.to_zip());
                        if res.is_ok() { close_cur(&mut cur, &mut out.comp, &mut out.zc); pending_expect = None; } else { note_cur(&cur, &mut out.comp, &mut out.zc); }
                        match res {
                            Ok(()) => {
                                // the symlink target is the (stored) content; an encrypting option would also encrypt it
                                if let Some(pw) = &o.pw {
                                    let mut c = Some(Cur { method: 0, level: 0, pw: Some(pw.clone()), chunks: vec![target.clone()], flushes: vec![], enc_on: true, in_extra: false, raw: false });
                                    close_cur(&mut c, &mut out.comp, &mut out.zc);
                                }
                                out.expect.push((name, 0, Some(target), Some(0o120000 | o.perm.map(|p| p & 0o777).unwrap_or(0o777))));
                                "ok".into()
                            }
                            Err(e) => cls_z(&e),
                        }
                    }
                    "c" => { let b = unhex(x[1]).unwrap_or_default(); out.comment = b.clone(); w.set_raw_comment(b); "ok".into() }
                    // `impl Write for ZipWriter`: flush
                    "fl" => match w.flush() {
                        Ok(()) => {
                            // an encoder ends its current block: the stored stream depends on it
                            if let Some(c) = cur.as_mut() { if !c.raw && c.enc_on && c.method != 0 { c.flushes.push(c.chunks.len()); } }
                            "ok".into()
                        }
                        Err(e) => cls_io(&e),
                    },
                    "rc" => {
                        let si: usize = x[1].parse().unwrap_or(99);
                        let ei: usize = x[2].parse().unwrap_or(0);
                        match src_archives.get_mut(si).and_then(|a| a.as_mut()) {
                            None => "bad-call".into(),
                            Some(a) => match a.by_index_raw(ei) {
                                Err(e) => format!("src:{}", cls_z(&e)),
                                Ok(f) => {
                                    let (m, sname) = ({ #[allow(deprecated)] f.compression().to_u16() }, f.name().as_bytes().to_vec());
                                    let res = if x[3] == "same" { w.raw_copy_file(f) } else { w.raw_copy_file_rename(f, String::from_utf8_lossy(&unhex(x[3]).unwrap_or_default()).into_owned()) };
                                    if res.is_ok() { close_cur(&mut cur, &mut out.comp, &mut out.zc); pending_expect = None; } else { note_cur(&cur, &mut out.comp, &mut out.zc); }
                                    match res {
                                        Ok(()) => {
                                            cur = Some(Cur { method: m, level: 0, pw: None, chunks: vec![], flushes: vec![], enc_on: false, in_extra: false, raw: true });
                                            let nm = if x[3] == "same" { sname } else { unhex(x[3]).unwrap_or_default() };
                                            out.expect.push((nm, m, None, None));
                                            "ok".into()
                                        }
                                        Err(e) => cls_z(&e),
                                    }
                                }
                            },
                        }
                    }
                    "fin" => {
                        let res = w.finish();
                        close_cur(&mut cur, &mut out.comp, &mut out.zc);
                        pending_expect = None;
                        match res { Ok(sk) => { if !out.finished_ok { out.end_pos = Some(sk.pos()); } out.finished_ok = true; "ok".into() } Err(e) => cls_z(&e) }
                    }
                    "drop" => "ok".into(),   // the writer is dropped when this scope ends; nothing may follow
                    _ => "bad-call".into(),
                }
            }));
            match r {
                Ok(t) => out.tokens.push(t),
                Err(_) => { out.tokens.push("panic".into()); panicked = true; break; }
            }
            if x[0] == "drop" { break; }
        }
        close_cur(&mut cur, &mut out.comp, &mut out.zc);
        if panicked {
            std::mem::forget(w);
        } else {
            // the implicit finalisation on drop must not panic either (an `Err` there is printed and dropped)
            if std::panic::catch_unwind(std::panic::AssertUnwindSafe(|| drop(w))).is_err() {
                out.tokens.push("panic-in-drop".into());
                panicked = true;
            }
        }
    }
    if let Some(p) = early { return finish_out(out, sink.sink_bytes(), p); }
    finish_out(out, sink.sink_bytes(), panicked)
}

fn finish_out(mut out: RunOut, bytes: Vec<u8>, panicked: bool) -> RunOut {
    if !panicked { out.fin = Some(bytes); }
    out
}

pub fn show_final(b: &[u8]) -> String {
    if b.len() <= 6000 { format!("final={}", hex(b)) } else { format!("final=crc:{}:{}", crc32fast::hash(b), b.len()) }
}

fn parse_srcs(a: &std::collections::BTreeMap<String, String>) -> Vec<Vec<u8>> {
    (0..8).filter_map(|i| get_hex(a, &format!("src{i}"))).collect()
}

// ---------------------------------------------------------------------------------------------
// generators

pub fn rand_opts(r: &mut Rng, allow_pw: bool) -> Opts {
    let method = *r.pick(&[0u16, 0, 8, 8, 12, 93, 0, 8]);
    let level = match r.below(6) {
        0 | 1 | 2 => None,
        3 => Some(match method { 8 => r.below(10) as i32, 12 => r.range(1, 9) as i32, 93 => r.range(0, 22) as i32 - 3, _ => 1 }),
        4 => Some(*r.pick(&[0i32, 1, 9, 10, -1, 22, 23, 100, -7, -8])),
        _ => None,
    };
    // stored entries with a level are accepted silently by the crate; keep a few
    let level = if method == 0 && !r.chance(1, 10) { None } else { level };
    Opts {
        method,
        level,
        dp: 0x21 + (r.below(128) as u16) * 512 + (r.below(12) as u16) * 32 + r.below(28) as u16,
        tp: r.below(0xc000) as u16,
        perm: if r.chance(1, 2) { Some(r.below(0o10000) as u32) } else { None },
        large: r.chance(1, 10),
        pw: if allow_pw && r.chance(1, 10) { Some(r.bytes(5)) } else { None },
    }
}

pub fn rand_utf8_name(r: &mut Rng) -> Vec<u8> {
    if r.chance(1, 4) {
        // non-ASCII names: the UTF-8 flag must be set, also together with the encryption bit
        let pool = ["caf\u{e9}.txt", "\u{65e5}\u{672c}\u{8a9e}/\u{30d5}\u{30a1}\u{30a4}\u{30eb}", "na\u{ef}ve\\path", "\u{1f600}", "a\u{80}b", "dir\u{e9}/"];
        return pool[r.below(pool.len() as u64) as usize].as_bytes().to_vec();
    }
    let n = rand_name(r);
    String::from_utf8_lossy(&n).into_owned().into_bytes()
}

/// A mostly-valid call sequence ending in fin or drop.
pub fn rand_calls(r: &mut Rng, srcs: &[Vec<u8>], base: Option<&Vec<u8>>, misuse: bool) -> Vec<String> {
    let mut calls = vec![match base { Some(b) => format!("ap,{}", hex(b)), None => "new".into() }];
    let n = r.below(7) as usize;
    for _ in 0..n {
        match r.below(if misuse { 14 } else { 10 }) {
            0..=3 => {
                let o = rand_opts(r, true);
                calls.push(format!("sf,{},{}", hex(&rand_utf8_name(r)), o.tok()));
                for _ in 0..r.below(3) { calls.push(format!("w,{}", hex(&rand_content(r)))); }
            }
            4 => calls.push(format!("dir,{},{}", hex(&rand_utf8_name(r)), rand_opts(r, false).tok())),
            5 => calls.push(format!("sym,{},{},{}", hex(&rand_utf8_name(r)), hex(b"target/path"), rand_opts(r, false).tok())),
            6 => calls.push(format!("c,{}", hex(&{ let n = r.below(40) as usize; r.bytes(n) }))),
            7 => {
                let mut o = rand_opts(r, false);
                o.pw = None;
                calls.push(format!("sx,{},{}", hex(&rand_utf8_name(r)), o.tok()));
                let rec = |r: &mut Rng| { let id = *r.pick(&[0xcafeu16, 0xbeef, 0x4242, 0x0100]); let pl = { let n = r.below(20) as usize; r.bytes(n) }; let mut x = id.to_le_bytes().to_vec(); x.extend_from_slice(&(pl.len() as u16).to_le_bytes()); x.extend_from_slice(&pl); x };
                if r.chance(3, 4) { calls.push(format!("w,{}", hex(&rec(r)))); }
                if r.chance(1, 3) { calls.push("el".into()); if r.chance(1, 2) { calls.push(format!("w,{}", hex(&rec(r)))); } }
                calls.push("ex".into());
                calls.push(format!("w,{}", hex(&rand_content(r))));
            }
            8 => {
                let mut o = rand_opts(r, false);
                o.pw = None;
                let al = *r.pick(&[0u32, 1, 2, 4, 16, 64, 512, 4096, 3, 7, 65535, 32768]);
                calls.push(format!("sa,{},{},{}", hex(&rand_utf8_name(r)), o.tok(), al));
                calls.push(format!("w,{}", hex(&rand_content(r))));
            }
            9 => {
                if !srcs.is_empty() {
                    let si = r.below(srcs.len() as u64);
                    let nm = if r.chance(1, 2) { "same".to_string() } else { hex(&rand_utf8_name(r)) };
                    calls.push(format!("rc,{},{},{}", si, r.below(4), nm));
                }
            }
            // misuse
            10 => calls.push(format!("w,{}", hex(b"stray write"))),
            11 => calls.push("ex".into()),
            12 => calls.push("el".into()),
            _ => {
                // reserved / malformed extra data
                let mut o = rand_opts(r, false);
                o.pw = None;
                calls.push(format!("sx,{},{}", hex(b"x"), o.tok()));
                let bad: Vec<u8> = match r.below(7) {
                    0 => vec![1, 0, 0, 0], 1 => vec![0x55, 0x54, 1, 0, 9], 2 => vec![0xfe, 0xca, 9, 0, 1], 3 => vec![0xfe],
                    4 | 5 => {
                        // a well-formed record whose header ID is one of the reserved ones (the whole table, and the
                        // IDs up to 31): only the ID makes it unacceptable
                        let id: u16 = if r.chance(1, 5) { r.below(32) as u16 } else { *r.pick(&super::align::RESERVED) };
                        let n = r.below(6) as usize;
                        let mut v = vec![id as u8, (id >> 8) as u8, n as u8, 0];
                        v.extend(std::iter::repeat(0xab).take(n));
                        v
                    }
                    _ => {
                        // a valid record followed by a reserved one
                        let id = *r.pick(&super::align::RESERVED);
                        vec![0xfe, 0xca, 2, 0, 7, 7, id as u8, (id >> 8) as u8, 0, 0]
                    }
                };
                calls.push(format!("w,{}", hex(&bad)));
                calls.push("ex".into());
            }
        }
    }
    calls.push(if r.chance(4, 5) { "fin".into() } else { "drop".into() });
    if misuse && r.chance(1, 4) && calls.last().map(|c| c == "fin").unwrap_or(false) {
        calls.push(format!("w,{}", hex(b"after finish")));
        if r.chance(1, 2) { calls.push("fl".into()); }
        calls.push(format!("sf,{},{}", hex(b"late"), rand_opts(r, false).tok()));
        calls.push("fin".into());
    }
    // `Write::flush` at arbitrary places (one line in three): before anything, between the writes of an entry (stored,
    // compressing, encrypting), in extra-data mode, after a directory, after a refused call, after finish
    if r.chance(1, 3) {
        let mut i = 1;
        while i <= calls.len() {
            if i < calls.len() && calls[i - 1] == "drop" { break; }
            if r.chance(1, 4) { calls.insert(i, "fl".into()); i += 1; }
            i += 1;
        }
        // nothing may follow `drop`
        if let Some(k) = calls.iter().position(|c| c == "drop") { calls.truncate(k + 1); }
    }
    calls
}

/// Two codec rows with the same key (method, level, CRC and length of the plaintext) but different output: the
/// same content went through the same encoder with `flush` calls at different places.  The model looks a stream
/// up by that key, so such a line cannot be compared.
pub fn comp_collision(comp: &[String]) -> bool {
    let mut seen: std::collections::HashMap<&str, &str> = std::collections::HashMap::new();
    for row in comp {
        if let Some(i) = row.rfind(':') {
            let (k, v) = (&row[..i], &row[i + 1..]);
            if let Some(old) = seen.insert(k, v) { if old != v { return true; } }
        }
    }
    false
}

/// Remove the `fl` calls of a line whose codec rows would collide (see `comp_collision`); returns whether it did.
pub fn settle_flushes(calls: &mut Vec<String>, srcs: &[Vec<u8>]) -> bool {
    if !calls.iter().any(|c| c == "fl") { return false; }
    if !comp_collision(&run_calls(calls, srcs).comp) { return false; }
    calls.retain(|c| c != "fl");
    true
}

pub fn make_line(calls: &[String], srcs: &[Vec<u8>]) -> String {
    let ro = run_calls(calls, srcs);
    let mut line = format!("write.run calls={}", calls.join(";"));
    line += &format!(" comp={}", if ro.comp.is_empty() { "-".into() } else { ro.comp.join(";") });
    line += &format!(" zc={}", if ro.zc.is_empty() { "-".into() } else { ro.zc.join(";") });
    for (i, s) in srcs.iter().enumerate() { line += &format!(" src{i}={}", hex(s)); }
    line
}

/// `dist` counters of the `fl` calls of a line by the state they meet: `flush.closed` (the call answers BrokenPipe:
/// after finish, or after a call that closed the writer), `flush.ok`, and lines with a flush inside a compressing
/// entry (`flush.line-with-encoder-flush`: the codec row was built with the same flush points).
fn count_flushes(g: &mut GenOut, calls: &[String], srcs: &[Vec<u8>]) {
    if !calls.iter().any(|c| c == "fl") { return; }
    let ro = run_calls(calls, srcs);
    for (c, t) in calls.iter().zip(ro.tokens.iter()) {
        if c == "fl" { *g.dist.entry(if t == "ok" { "flush.ok".to_string() } else { format!("flush.{}", t.rsplit(':').next().unwrap_or("err")) }).or_insert(0) += 1; }
    }
    let plain: Vec<String> = calls.iter().filter(|c| *c != "fl").cloned().collect();
    if run_calls(&plain, srcs).comp != ro.comp { *g.dist.entry("flush.line-with-encoder-flush".into()).or_insert(0) += 1; }
}

fn small_source(r: &mut Rng) -> Vec<u8> {
    let (b, _) = super::read::writer_archive(r);
    b
}

// ---------------------------------------------------------------------------------------------
// C02: inputs at the 16-bit limits of the format, aligned and encrypted entries

/// A valid UTF-8 name of exactly `n` bytes (n >= 8).
fn sized_name(n: usize, non_ascii: bool, r: &mut Rng) -> Vec<u8> {
    let (head, tail): (&str, &str) = if non_ascii { ("\u{e9}t\u{e9}/", "\u{65e5}") } else { ("dir/", "z") };
    let mut v = head.as_bytes().to_vec();
    let alphabet = b"abcdefghijklmnopqrstuvwxyz0123456789._-";
    while v.len() + tail.len() < n { v.push(alphabet[r.below(alphabet.len() as u64) as usize]); }
    v.extend_from_slice(tail.as_bytes());
    v
}

/// Well-formed extra data of exactly `total` bytes (total >= 4) with user-writable header ids.
fn sized_extra(total: usize, r: &mut Rng) -> Vec<u8> {
    let mut v = vec![];
    let rec = |id: u16, n: usize, r: &mut Rng, v: &mut Vec<u8>| {
        v.extend_from_slice(&id.to_le_bytes());
        v.extend_from_slice(&(n as u16).to_le_bytes());
        let fill = r.next() as u8;
        v.extend(std::iter::repeat(fill & 0x3f).take(n));
    };
    if total - 4 <= 65535 { rec(0xcafe, total - 4, r, &mut v); } else { rec(0xcafe, 30000, r, &mut v); rec(0xbeef, total - 30000 - 8, r, &mut v); }
    v
}

fn fixed_opts(method: u16, large: bool, pw: Option<&[u8]>) -> Opts {
    Opts { method, level: None, dp: 0x5821, tp: 0x6000, perm: None, large, pw: pw.map(|p| p.to_vec()) }
}

/// One-entry source archive for raw copies (laid out by the independent builder).
fn one_entry_source() -> Vec<u8> {
    crate::mkzip::build(&crate::mkzip::Layout::new(vec![crate::mkzip::Entry::stored(b"src.txt", b"raw copy source")])).bytes
}

fn gen_c02_limits(seed: u64, tier: &str, g: &mut GenOut) {
    let thorough = tier == "thorough";
    let mut idx = 0u64;
    let rng = |idx: &mut u64| { *idx += 1; super::rng_for(seed, "write.c02", *idx) };
    let emit = |g: &mut GenOut, kind: &str, calls: Vec<String>, srcs: &[Vec<u8>]| g.push(&format!("c02.{kind}"), make_line(&calls, srcs));
    let small = |r: &mut Rng| hex(&{ let n = r.range(1, 40) as usize; r.bytes(n) });

    // ---- names of 65535 / 65536 / 70000 bytes through every entry-creating call
    let kinds: &[&str] = if thorough { &["sf", "sx", "sa", "dir", "sym", "rc"] } else { &["sf"] };
    for &len in &[65535usize, 65536, 70000] {
        for non_ascii in [false, true] {
            for &k in kinds {
                let mut r = rng(&mut idx);
                let nm = hex(&sized_name(len, non_ascii, &mut r));
                let o = fixed_opts(*r.pick(&[0u16, 8]), r.chance(1, 3), None);
                let mut calls = vec!["new".to_string()];
                let mut srcs = vec![];
                if r.chance(1, 2) { calls.push(format!("sf,{},{}", hex(b"first"), fixed_opts(0, false, None).tok())); calls.push(format!("w,{}", small(&mut r))); }
                match k {
                    "sf" => { calls.push(format!("sf,{nm},{}", o.tok())); calls.push(format!("w,{}", small(&mut r))); }
                    "sx" => { calls.push(format!("sx,{nm},{}", o.tok())); calls.push(format!("w,{}", hex(&sized_extra(12, &mut r)))); calls.push("ex".into()); calls.push(format!("w,{}", small(&mut r))); }
                    "sa" => { calls.push(format!("sa,{nm},{},{}", o.tok(), r.pick(&[4u32, 64, 4096]))); calls.push(format!("w,{}", small(&mut r))); }
                    "dir" => calls.push(format!("dir,{nm},{}", o.tok())),
                    "sym" => calls.push(format!("sym,{nm},{},{}", hex(b"target/path"), o.tok())),
                    _ => { srcs.push(one_entry_source()); calls.push(format!("rc,0,0,{nm}")); }
                }
                // the archive goes on after the (possibly refused) call
                calls.push(format!("sf,{},{}", hex(b"last"), fixed_opts(8, false, None).tok()));
                calls.push(format!("w,{}", small(&mut r)));
                calls.push("fin".into());
                emit(g, &format!("name.{len}"), calls, &srcs);
            }
        }
    }
    // add_directory appends '/': 65534 + 1 fits, 65535 + 1 does not, 65535 ending in '/' fits
    {
        let mut r = rng(&mut idx);
        for (len, slash) in [(65534usize, false), (65535, false), (65535, true)] {
            let mut nm = sized_name(len, false, &mut r);
            if slash { let k = nm.len() - 1; nm[k] = b'/'; }
            emit(g, "name.dir", vec!["new".into(), format!("dir,{},{}", hex(&nm), fixed_opts(0, false, None).tok()), "fin".into()], &[]);
        }
        // quick tier: one line each for the other calls at the limit and just beyond
        if !thorough {
            for (k, len) in [("sym", 65535usize), ("sym", 65536), ("sx", 65535), ("sa", 65535), ("rc", 65535), ("rc", 65536)] {
                let nm = hex(&sized_name(len, k == "sym", &mut r));
                let o = fixed_opts(0, false, None);
                let (calls, srcs) = match k {
                    "sym" => (vec!["new".into(), format!("sym,{nm},{},{}", hex(b"t"), o.tok()), "fin".into()], vec![]),
                    "sx" => (vec!["new".into(), format!("sx,{nm},{}", o.tok()), format!("w,{}", hex(&sized_extra(9, &mut r))), "ex".into(), format!("w,{}", small(&mut r)), "fin".into()], vec![]),
                    "sa" => (vec!["new".into(), format!("sa,{nm},{},512", o.tok()), format!("w,{}", small(&mut r)), "fin".into()], vec![]),
                    _ => (vec!["new".into(), format!("rc,0,0,{nm}"), "fin".into()], vec![one_entry_source()]),
                };
                emit(g, &format!("name.{k}"), calls, &srcs);
            }
        }
    }
    // ---- archive comments of 65535 / 65536 / 70000 bytes
    for &len in &[65535usize, 65536, 70000] {
        for with_entry in [false, true] {
            let mut r = rng(&mut idx);
            // no 'P' (0x50): the comment cannot embed a record signature
            let c: Vec<u8> = (0..len).map(|_| { let b = r.next() as u8; if b == 0x50 { 0x51 } else { b } }).collect();
            let mut calls = vec!["new".to_string()];
            if with_entry { calls.push(format!("sf,{},{}", hex(b"e"), fixed_opts(8, false, None).tok())); calls.push(format!("w,{}", small(&mut r))); }
            calls.push(format!("c,{}", hex(&c)));
            calls.push("fin".into());
            if len > 65535 && with_entry {
                // a refused finish leaves the writer usable: shorten the comment and finish again
                calls.push(format!("c,{}", hex(&c[..r.range(0, 65535) as usize])));
                calls.push("fin".into());
            }
            emit(g, &format!("comment.{len}"), calls, &[]);
        }
    }
    {
        // appending with a maximal comment
        let mut r = rng(&mut idx);
        let base = small_source(&mut r);
        emit(g, "comment.append", vec![format!("ap,{}", hex(&base)), format!("c,{}", hex(&vec![b'c'; 65535])), "fin".into()], &[]);
        emit(g, "comment.append", vec![format!("ap,{}", hex(&base)), format!("c,{}", hex(&vec![b'c'; 65536])), "fin".into()], &[]);
    }
    // ---- extra data through start_file_with_extra_data + write, with and without the 20-byte local ZIP64 record
    let totals: Vec<usize> = if thorough { (65508..=65540).collect() } else { vec![65514, 65515, 65516, 65535, 65536] };
    for &total in &totals {
        for large in [false, true] {
            if !thorough && ((large && total == 65536) || (!large && total == 65514)) { continue; }
            let mut r = rng(&mut idx);
            let x = sized_extra(total, &mut r);
            let mut calls = vec!["new".to_string(), format!("sx,{},{}", hex(b"x.bin"), fixed_opts(*r.pick(&[0u16, 8]), large, None).tok())];
            if r.chance(1, 2) { let cut = r.range(1, total as u64 - 1) as usize; calls.push(format!("w,{}", hex(&x[..cut]))); calls.push(format!("w,{}", hex(&x[cut..]))); } else { calls.push(format!("w,{}", hex(&x))); }
            calls.push("ex".into());
            calls.push(format!("w,{}", small(&mut r)));
            if r.chance(1, 2) { calls.push(format!("dir,{},{}", hex(b"after/"), fixed_opts(0, false, None).tok())); }
            calls.push("fin".into());
            emit(g, if large { "extra.large" } else { "extra" }, calls, &[]);
        }
    }
    // ---- central-only extra data (end_local_start_central_extra_data) near 65535 - 28 and at the limit
    let ctotals: Vec<(usize, bool)> = if thorough {
        let mut v = vec![];
        for t in (65500..=65520).chain(65530..=65540) { v.push((t, false)); v.push((t, true)); }
        v
    } else { vec![(65507, false), (65508, false), (65535, false), (65536, false), (65515, true), (65516, true)] };
    for (total, large) in ctotals {
        let mut r = rng(&mut idx);
        // a refused central part leaves the entry open with its compressor active: when the writer is then dropped
        // flate2 / bzip2 flush their stream from their own Drop (Model.dropInner; the codec row of the open entry is
        // recorded by close_cur at the end of run_calls_sink)
        let method = *r.pick(&[0u16, 8, 12, 93]);
        let mut calls = vec!["new".to_string(), format!("sx,{},{}", hex(b"c.bin"), fixed_opts(method, large, None).tok())];
        if r.chance(1, 2) { calls.push(format!("w,{}", hex(&sized_extra(r.range(4, 40) as usize, &mut r)))); }
        calls.push("el".into());
        calls.push(format!("w,{}", hex(&sized_extra(total, &mut r))));
        calls.push("ex".into());
        calls.push(format!("w,{}", small(&mut r)));
        calls.push("fin".into());
        emit(g, if large { "central-extra.large" } else { "central-extra" }, calls, &[]);
    }
    // ---- aligned entries: padding records up to the size limit of the extra field
    {
        // the second entry's preliminary data start is 62 + C (+20 with large_file); alignment 65535 makes the
        // padding record 4 + (65535 - (start + 4) % 65535) % 65535 bytes long.  Local extra field = that record
        // (+20): exactly 65535 bytes at C = 65473 and 65536 at C = 65472, with and without large_file; C = 65469
        // needs an empty padding record
        let cs: Vec<usize> = if thorough { (65440..=65480).collect() } else { vec![65469, 65472, 65473] };
        for &c in &cs {
            for large in [false, true] {
                if !thorough && large && c == 65469 { continue; }
                let mut r = rng(&mut idx);
                let calls = vec!["new".to_string(), format!("sf,{},{}", hex(b"a"), fixed_opts(0, false, None).tok()), format!("w,{}", hex(&vec![0x5au8; c])),
                    format!("sa,{},{},65535", hex(b"b"), fixed_opts(*r.pick(&[0u16, 8]), large, None).tok()), format!("w,{}", small(&mut r)), "fin".into()];
                emit(g, "aligned.limit", calls, &[]);
            }
        }
        let n = if thorough { 200 } else { 8 };
        for _ in 0..n {
            let mut r = rng(&mut idx);
            let mut calls = vec!["new".to_string()];
            for _ in 0..r.range(1, 3) {
                let al = *r.pick(&[2u32, 4, 8, 64, 512, 4096, 32768, 65535, 3, 1000]);
                let mut o = rand_opts(&mut r, false);
                o.pw = None;
                o.large = r.chance(1, 2);
                calls.push(format!("sa,{},{},{}", hex(&rand_utf8_name(&mut r)), o.tok(), al));
                for _ in 0..r.below(3) { calls.push(format!("w,{}", hex(&rand_content(&mut r)))); }
            }
            calls.push("fin".into());
            emit(g, "aligned", calls, &[]);
        }
    }
    // ---- ZipCrypto-encrypted entries: every method, empty / chunked content, directories and symlinks
    {
        let n = if thorough { 300 } else { 10 };
        for i in 0..n {
            let mut r = rng(&mut idx);
            let mut calls = vec!["new".to_string()];
            for j in 0..r.range(1, 3) {
                let pw = { let n = r.range(0, 12) as usize; r.bytes(n) };
                let mut o = rand_opts(&mut r, false);
                o.method = [0u16, 8, 12, 93][((i + j) % 4) as usize];
                if o.method == 0 { o.level = None; }
                o.pw = Some(pw);
                let nm = hex(&rand_utf8_name(&mut r));
                match r.below(6) {
                    0 => { o.method = 0; o.level = None; calls.push(format!("dir,{nm},{}", o.tok())); }
                    1 => { o.method = 0; o.level = None; calls.push(format!("sym,{nm},{},{}", hex(b"target/path"), o.tok())); }
                    _ => { calls.push(format!("sf,{nm},{}", o.tok())); for _ in 0..r.below(4) { calls.push(format!("w,{}", hex(&rand_content(&mut r)))); } }
                }
            }
            if r.chance(1, 3) { calls.push(format!("sf,{},{}", hex(b"plain"), rand_opts(&mut r, false).tok())); calls.push(format!("w,{}", hex(&rand_content(&mut r)))); }
            calls.push("fin".into());
            emit(g, "encrypted", calls, &[]);
        }
    }
}

impl Stream for WriteStream {
    fn name(&self) -> &'static str { self.0 }

    fn gen(&self, seed: u64, tier: &str) -> GenOut {
        C02_MODE.store(if tier == "thorough" { 2 } else { 1 }, Ordering::Relaxed);
        if self.0 == "append" { return gen_append(seed, tier); }
        if self.0 == "rawcopy" { return gen_rawcopy(seed, tier); }
        let mut g = GenOut::default();
        g.rule = "random sequences of ZipWriter calls (start_file/with_extra_data/aligned, write, end_local/end_extra, add_directory, add_symlink, set_comment, raw copy from source archives, new_append on base archives, finish/drop, plus misuse: stray writes, end_extra without begin, reserved/truncated extra data, bad levels, calls after finish); model bytes must equal implementation bytes (compressed payloads supplied by calling the codec libraries directly). distinct = distinct op lines; non-trivial = finish/drop reached with at least one entry".into();
        let n = if tier == "thorough" { 40_000 } else { 1_500 };
        for i in 0..n {
            let mut r = super::rng_for(seed, "write", i);
            let nsrc = r.below(3) as usize;
            let srcs: Vec<Vec<u8>> = (0..nsrc).map(|_| if r.chance(3, 4) { small_source(&mut r) } else { let (l, _) = super::read::rand_layout(&mut r); crate::mkzip::build(&l).bytes }).collect();
            let base = if r.chance(1, 5) { Some(small_source(&mut r)) } else { None };
            let misuse = r.chance(1, 3);
            let mut calls = rand_calls(&mut r, &srcs, base.as_ref(), misuse);
            if settle_flushes(&mut calls, &srcs) { *g.dist.entry("flush.removed-codec-row-collision".into()).or_insert(0) += 1; }
            count_flushes(&mut g, &calls, &srcs);
            let kind = if base.is_some() { "append" } else if misuse { "misuse" } else { "valid" };
            g.push(kind, make_line(&calls, &srcs));
        }
        // compression levels at and just outside the documented range of every compressing method, through
        // start_file and start_file_aligned (the refusal is the START call's; the archive goes on afterwards)
        for &m in &[8u16, 12, 93] {
            let rg = level_range(m).unwrap();
            for lv in [*rg.start() - 1, *rg.start(), *rg.end(), *rg.end() + 1] {
                for kind in ["sf", "sa"] {
                    let o = Opts { method: m, level: Some(lv), dp: 0x21, tp: 0, perm: None, large: false, pw: None };
                    let mut calls = vec!["new".to_string()];
                    calls.push(if kind == "sf" { format!("sf,{},{}", hex(b"lv"), o.tok()) } else { format!("sa,{},{},16", hex(b"lv"), o.tok()) });
                    calls.push(format!("w,{}", hex(b"level level level level")));
                    calls.push(format!("sf,{},{}", hex(b"next"), Opts { method: 0, level: None, ..o.clone() }.tok()));
                    calls.push(format!("w,{}", hex(b"tail")));
                    calls.push("fin".into());
                    g.push(if rg.contains(&lv) { "level.boundary-inside" } else { "level.boundary-outside" }, make_line(&calls, &[]));
                }
            }
        }
        // large incompressible contents in ONE write call through every compressing method: the encoder accepts
        // only part of the buffer per `write`, `write_all` re-offers the rest, and every byte must be counted and
        // hashed exactly once (noise of more than ~40 KiB for Deflate, ~3 MiB for Zstd and Bzip2)
        let big: &[(u16, usize)] = if tier == "thorough" { &[(8, 70_000), (8, 300_000), (0, 70_000), (93, 3_300_000), (12, 3_300_000)] } else { &[(8, 70_000), (0, 70_000)] };
        for (j, &(m, n)) in big.iter().enumerate() {
            let mut r = super::rng_for(seed, "write.big", j as u64);
            let o = Opts { method: m, level: None, dp: 0x21, tp: 0, perm: None, large: false, pw: None };
            let calls = vec!["new".to_string(), format!("sf,{},{}", hex(b"big.bin"), o.tok()), format!("w,{}", hex(&r.bytes(n))), format!("sf,{},{}", hex(b"after"), o.tok()), format!("w,{}", hex(b"tail")), "fin".to_string()];
            g.push("big", make_line(&calls, &[]));
        }
        gen_c02_limits(seed, tier, &mut g);
        g
    }

    fn run(&self, line: &str) -> String {
        if line.starts_with("write.big ") { return "oracle-only".into(); }
        if line.starts_with("z64.rawcopy ") { return super::z64::Z64.run(line); }
        let (_, a) = parse_line(line);
        let calls: Vec<String> = a.get("calls").map(|c| c.split(';').map(|s| s.to_string()).collect()).unwrap_or_default();
        if calls.is_empty() { return "bad-op".into(); }
        let srcs = parse_srcs(&a);
        let ro = run_calls(&calls, &srcs);
        let mut s = ro.tokens.join(" ");
        if let Some(f) = &ro.fin { s += " "; s += &show_final(f); }
        s
    }

    fn nontrivial(&self, line: &str, resp: &str) -> bool {
        line.starts_with("write.big ") || line.starts_with("z64.rawcopy ") || resp.contains("final=") && resp.matches(" ok").count() >= 2
    }

    fn oracle(&self, line: &str, resp: &str) -> Vec<OracleFailure> { self.oracle_with(line, resp, true) }

    fn stats(&self) -> Vec<(String, u64)> {
        C02_STATS.lock().map(|m| m.iter().map(|(k, v)| (k.clone(), *v)).collect()).unwrap_or_default()
    }
}

impl WriteStream {
    /// `misuse`: also judge the C12 clauses "documented misuse returns an error" (`callseq::misuse_oracle`: a write
    /// with no file open, end_extra_data never begun, an unsupported method or a compression level outside the
    /// documented range of a compressing method, any call but set_comment after a successful finish - `flush`
    /// included) on the calls and their outcomes; the callseq stream judges them itself, on the whole sequence.
    pub fn oracle_with(&self, line: &str, resp: &str, misuse: bool) -> Vec<OracleFailure> {
        let mut f = vec![];
        if line.starts_with("write.big ") { return oracle_append_big(line); }
        if line.starts_with("z64.rawcopy ") { return super::z64::Z64.oracle(line, resp); }
        if resp.contains("panic") {
            f.push(OracleFailure { what: format!("a writer call panicked: {}", &resp[..resp.len().min(160)]) });
            return f;
        }
        // implementation-only round trip: whatever finish() produced must read back as what was written
        let (_, a) = parse_line(line);
        let calls: Vec<String> = a.get("calls").map(|c| c.split(';').map(|s| s.to_string()).collect()).unwrap_or_default();
        if calls.is_empty() { return f; }
        if misuse {
            let toks = run_calls(&calls, &parse_srcs(&a)).tokens;
            for w in super::callseq::misuse_oracle(&calls, &toks) { f.push(OracleFailure { what: format!("misuse absorbed: {w}") }); }
        }
        // K-F: the writer's own fixed-size fields can spell a record signature where readers probe for one AND the
        // crate's reader then fails on the whole output in the way the finding describes.  The label stands in for
        // the one message it explains ("the archive does not open"); every check that does not need the crate's
        // reader (C02: strict parser, its view against the calls, the length rule, CPython; C12 misuse) still runs
        let kf = known_false_signature(&calls, &parse_srcs(&a));
        if calls[0].starts_with("ap,") { f.extend(oracle_append(&calls, &parse_srcs(&a), kf.as_deref())); return f; }
        if calls.iter().any(|c| c.starts_with("rc,")) { f.extend(oracle_rawcopy(&calls, &parse_srcs(&a), kf.as_deref())); }
        if calls[0] != "new" { return f; }
        let srcs = parse_srcs(&a);
        let ro = run_calls(&calls, &srcs);
        if !ro.finished_ok { return f; }
        // calls after a successful finish are misuse on a closed writer; the archive is what finish returned
        let bytes = match &ro.fin { Some(b) => b.clone(), None => return f };
        // C02: the independent strict parser (and CPython on a sample) judge the same bytes
        let c02 = c02_checks(line, &calls, &srcs, &ro, &bytes, 0, &ro.comment, kf.as_deref());
        let kf2 = kf.clone();
        let r = catch(move || {
            let mut fails = vec![];
            let mut ar = match zip::ZipArchive::new(Cursor::new(bytes)) {
                Ok(a) => a,
                Err(e) => return vec![match kf2 { Some(k) => k, None => format!("finish() succeeded but the archive does not open: {}", cls_z(&e)) }],
            };
            if ar.comment() != &ro.comment[..] { fails.push("archive comment differs from the one set".to_string()); }
            if ar.len() != ro.expect.len() {
                fails.push(format!("archive has {} entries, {} creations succeeded", ar.len(), ro.expect.len()));
                return fails;
            }
            for (i, (name, m, plain, mode)) in ro.expect.iter().enumerate() {
                let pw = calls.iter().filter(|c| c.starts_with("sf,") || c.starts_with("sym,")).count();
                let _ = pw;
                let raw = ar.by_index_raw(i);
                let mut fr = match raw { Ok(f) => f, Err(e) => { fails.push(format!("entry {i}: {}", cls_z(&e))); continue; } };
                if fr.name().as_bytes() != &name[..] { fails.push(format!("entry {i}: name {:?} != {:?}", fr.name(), String::from_utf8_lossy(name))); }
                #[allow(deprecated)]
                if fr.compression().to_u16() != *m { fails.push(format!("entry {i}: method differs")); }
                if let Some(md) = mode { if fr.unix_mode() != Some(*md) { fails.push(format!("entry {i}: mode {:?} != {:o}", fr.unix_mode(), md)); } }
                if let Some(p) = plain {
                    if fr.size() != p.len() as u64 || fr.crc32() != crc32fast::hash(p) { fails.push(format!("entry {i}: declared size/crc differ from the bytes written")); }
                    // decode the raw bytes independently when the entry is not encrypted
                    let mut rawb = vec![];
                    use std::io::Read;
                    if fr.read_to_end(&mut rawb).is_ok() {
                        let enc = line_entry_encrypted(&calls, i);
                        if !enc {
                            let dec = if *m == 0 { Ok(rawb.clone()) } else { direct_decode(*m, &rawb) };
                            match dec { Ok(d) => if &d != p { fails.push(format!("entry {i}: stored data does not decode to the bytes written")); }, Err(_) => fails.push(format!("entry {i}: stored data does not decode")) }
                        }
                    }
                }
            }
            fails
        });
        match r {
            Ok(v) => for w in v { f.push(OracleFailure { what: w }); },
            Err(_) => f.push(OracleFailure { what: "panic while reading back the produced archive".into() }),
        }
        f.extend(c02);
        f
    }
}

/// K-F (known finding, format-inherent): after a successful `finish()` of an archive that needs no ZIP64 records,
/// (i) an end-of-central-directory signature inside the end record's own fixed fields / comment (the backward
/// search meets it before the real record when a comment follows), or (ii) the locator signature `PK\x06\x07` in
/// the 4 bytes that lie 20 bytes in front of the end record (the tail of the last central record: external
/// attributes + header offset), make readers - this crate, and any reader that probes the same places - take the
/// archive for something else.  Neither names nor comments are involved: the values themselves spell the
/// signature (e.g. 19280 entries = 0x4B50, Unix mode 0o45520 = 0x4B50 followed by a header offset of 0x0706).
fn known_false_signature(calls: &[String], srcs: &[Vec<u8>]) -> Option<String> {
    let ro = run_calls(calls, srcs);
    if !ro.finished_ok { return None; }
    let b = ro.fin.as_ref()?;
    let end = ro.end_pos.map(|p| p as usize).unwrap_or(b.len()).min(b.len());
    let clen = ro.comment.len();
    if end < 22 + clen { return None; }
    let eocd = end - 22 - clen;
    if b[eocd..eocd + 4] != [0x50, 0x4b, 0x05, 0x06] { return None; }
    let n = u16::from_le_bytes([b[eocd + 10], b[eocd + 11]]);
    let (sz, off) = (u32::from_le_bytes([b[eocd + 12], b[eocd + 13], b[eocd + 14], b[eocd + 15]]), u32::from_le_bytes([b[eocd + 16], b[eocd + 17], b[eocd + 18], b[eocd + 19]]));
    if n == 0xFFFF || sz == 0xFFFF_FFFF || off == 0xFFFF_FFFF { return None; }   // ZIP64 records are really there
    // the comment itself must be innocent (names/comments embedding signatures are outside the properties)
    if ro.comment.windows(4).any(|w| w == [0x50, 0x4b, 0x05, 0x06]) { return None; }
    // ... and the crate's reader must really fail on the output, in the way the finding describes: (i) the search
    // stops at the false end record, whose "comment" then runs past the end of the file (UnexpectedEof) or whose
    // fields name no directory (InvalidArchive); (ii) the false locator names a ZIP64 end record on another disk /
    // at an offset that holds none (UnsupportedArchive / InvalidArchive).  An output that opens is no K-F case,
    // whatever its bytes spell
    let reopen = |b: &[u8]| -> Option<String> {
        let v = b.to_vec();
        match catch(move || zip::ZipArchive::new(Cursor::new(v)).map(|_| ()).map_err(|e| cls_z(&e))) { Ok(Ok(())) => None, Ok(Err(c)) => Some(c), Err(_) => Some("panic".into()) }
    };
    if clen > 0 {
        for p in eocd + 1..=end - 22 {
            if p + 4 <= end && b[p..p + 4] == [0x50, 0x4b, 0x05, 0x06] && p < eocd + 22 {
                return match reopen(&b[..end]) {
                    Some(c) if c == "err:io:eof" || c == "err:invalid" => Some(format!("K-F false-signature-in-fixed-fields: the end record's own fields spell an end-of-central-directory signature at offset +{} of the record and a comment follows, so the backward search stops there ({c})", p - eocd)),
                    _ => None,
                };
            }
        }
    }
    if eocd >= 20 && b[eocd - 20..eocd - 16] == [0x50, 0x4b, 0x06, 0x07] {
        return match reopen(&b[..end]) {
            Some(c) if c == "err:unsupported" || c == "err:invalid" => Some(format!("K-F false-signature-in-fixed-fields: the tail of the last central record (external attributes + header offset) spells the ZIP64 locator signature exactly where readers probe for a locator ({c})")),
            _ => None,
        };
    }
    None
}

/// Was the i-th successfully created entry started with a password? (approximation used only to skip
/// the plaintext comparison of encrypted payloads in the oracle: any password in the line disables it)
fn line_entry_encrypted(calls: &[String], _i: usize) -> bool {
    calls.iter().any(|c| (c.starts_with("sf,") || c.starts_with("sym,") || c.starts_with("dir,")) && !c.ends_with(",n") && c.split(',').last().map(|p| p != "n").unwrap_or(false))
}

// ---------------------------------------------------------------------------------------------
// C02: validity of whatever a successful finish() produced

static C02_STATS: Mutex<BTreeMap<String, u64>> = Mutex::new(BTreeMap::new());
/// 0 = replay (`zvh run`): every eligible archive goes to CPython; 1 = quick: a 1/16 sample; 2 = thorough:
/// every small archive
static C02_MODE: AtomicU8 = AtomicU8::new(0);

fn c02_count(k: &str, n: u64) {
    if let Ok(mut m) = C02_STATS.lock() { *m.entry(format!("c02.{k}")).or_insert(0) += n; }
}

fn fnv(s: &str) -> u64 {
    let mut h: u64 = 0xcbf29ce484222325;
    for b in s.bytes() { h ^= b as u64; h = h.wrapping_mul(0x100000001b3); }
    h
}

const PY_SERVER: &str = r#"
import sys, io, zipfile, binascii
try:
    import bz2
    print("ready bz2", flush=True)
except Exception:
    print("ready nobz2", flush=True)
for line in sys.stdin:
    line = line.strip()
    if not line:
        continue
    try:
        data = b"" if line == "-" else binascii.unhexlify(line)
        z = zipfile.ZipFile(io.BytesIO(data))
    except Exception as e:
        print("open-failed " + type(e).__name__ + " " + str(e).replace("\n", " "), flush=True)
        continue
    out = ["n=%d" % len(z.infolist()), "comment=" + (binascii.hexlify(z.comment).decode() or "-")]
    try:
        for zi in z.infolist():
            nm = zi.orig_filename.encode("utf-8" if zi.flag_bits & 0x800 else "cp437")
            out.append("%d:%d:%d:%d:%d:%s" % (zi.header_offset, zi.CRC, zi.compress_size, zi.file_size, zi.compress_type, binascii.hexlify(nm).decode() or "-"))
        out.append("test=" + str(z.testzip()))
    except Exception as e:
        out.append("test=EXC " + type(e).__name__ + " " + str(e).replace("\n", " "))
    print(" ".join(out), flush=True)
"#;

struct PyServer {
    _child: std::process::Child,
    stdin: std::process::ChildStdin,
    stdout: BufReader<std::process::ChildStdout>,
    bz2: bool,
}

/// `None` = not tried yet, `Some(None)` = python3 is not available (or died)
static PY: Mutex<Option<Option<PyServer>>> = Mutex::new(None);

fn py_spawn() -> Option<PyServer> {
    use std::process::{Command, Stdio};
    let mut ch = Command::new("python3").arg("-u").arg("-c").arg(PY_SERVER).stdin(Stdio::piped()).stdout(Stdio::piped()).stderr(Stdio::null()).spawn().ok()?;
    let stdin = ch.stdin.take()?;
    let mut stdout = BufReader::new(ch.stdout.take()?);
    let mut hello = String::new();
    stdout.read_line(&mut hello).ok()?;
    if !hello.starts_with("ready") { return None; }
    Some(PyServer { _child: ch, stdin, stdout, bz2: hello.trim() == "ready bz2" })
}

/// CPython's view of `bytes` (one long-lived interpreter serves the whole run); `None` when python3 is missing.
fn cpython_view(bytes: &[u8], needs_bz2: bool) -> Option<String> {
    let mut g = PY.lock().ok()?;
    if g.is_none() { *g = Some(py_spawn()); }
    let srv = g.as_mut()?.as_mut()?;
    if needs_bz2 && !srv.bz2 { return None; }
    let mut ok = srv.stdin.write_all(hex(bytes).as_bytes()).is_ok() && srv.stdin.write_all(b"\n").is_ok() && srv.stdin.flush().is_ok();
    let mut resp = String::new();
    if ok { ok = srv.stdout.read_line(&mut resp).map(|n| n > 0).unwrap_or(false); }
    if !ok { *g = Some(None); return None; }
    Some(resp.trim().to_string())
}

/// Over-long inputs (name / comment / extra data of 65536 bytes or more) that were ACCEPTED on the way to the
/// first successful finish().  The format has 16-bit length fields: such a call, or finish(), must fail.
fn c02_length_audit(calls: &[String], tokens: &[String]) -> Vec<String> {
    let mut found = vec![];
    let blen = |h: &str| String::from_utf8_lossy(&unhex(h).unwrap_or_default()).len();
    let (mut in_extra, mut central_only, mut large, mut extra_len, mut comment_len) = (false, false, false, 0usize, 0usize);
    for (call, tok) in calls.iter().zip(tokens.iter()).skip(1) {
        let x: Vec<&str> = call.split(',').collect();
        let ok = tok == "ok" || tok.starts_with("ok=");
        let check_extra = |found: &mut Vec<String>, central_only: bool, extra_len: usize, large: bool, by: &str| {
            let total = extra_len + if large && !central_only { 20 } else { 0 };
            if total >= 65536 { found.push(format!("{by} accepted {} extra data of {total} bytes (ZIP64 record included)", if central_only { "central" } else { "local" })); }
        };
        match x[0] {
            "sf" | "sx" | "sa" | "dir" | "sym" if x.len() >= 9 => {
                let mut n = blen(x[1]);
                if x[0] == "dir" { let nm = unhex(x[1]).unwrap_or_default(); if !matches!(nm.last(), Some(b'/') | Some(b'\\')) { n += 1; } }
                if ok && n >= 65536 { found.push(format!("{} accepted a name of {n} bytes", x[0])); }
                if ok {
                    if in_extra { check_extra(&mut found, central_only, extra_len, large, "the implicit end_extra_data"); }
                    in_extra = x[0] == "sx"; central_only = false; extra_len = 0;
                    large = x[if x[0] == "sym" { 8 } else { 7 }] == "1";
                }
            }
            "rc" if x.len() >= 4 => {
                if ok && x[3] != "same" && blen(x[3]) >= 65536 { found.push(format!("raw_copy_file_rename accepted a name of {} bytes", blen(x[3]))); }
                if ok { if in_extra { check_extra(&mut found, central_only, extra_len, large, "the implicit end_extra_data"); } in_extra = false; central_only = false; extra_len = 0; large = false; }
            }
            "w" if x.len() >= 2 => { if ok && in_extra { extra_len += unhex(x[1]).map(|b| b.len()).unwrap_or(0); } }
            "el" => { if ok { check_extra(&mut found, central_only, extra_len, large, "end_local_start_central_extra_data"); extra_len = 0; central_only = true; in_extra = true; } }
            "ex" => { if ok { check_extra(&mut found, central_only, extra_len, large, "end_extra_data"); in_extra = false; central_only = false; } }
            "c" if x.len() >= 2 => comment_len = unhex(x[1]).map(|b| b.len()).unwrap_or(0),
            "fin" => {
                if ok {
                    if in_extra { check_extra(&mut found, central_only, extra_len, large, "the implicit end_extra_data"); }
                    if comment_len >= 65536 { found.push(format!("finish() accepted an archive comment of {comment_len} bytes")); }
                    return found;
                }
            }
            _ => {}
        }
    }
    vec![]
}

/// The checks of property C02 on the bytes `live` that a successful finish() left: strict parser (hard errors ->
/// `C02 strict:`), its view against what the calls wrote, the 16-bit length rule (`C02 length:`), CPython on a
/// deterministic sample (`C02 cpython:`).  `nbase` entries were inherited from the base archive (append).
fn c02_checks(key: &str, calls: &[String], srcs: &[Vec<u8>], ro: &RunOut, live: &[u8], nbase: usize, want_comment: &[u8], kf: Option<&str>) -> Vec<OracleFailure> {
    let mut out: Vec<String> = vec![];
    for m in c02_length_audit(calls, &ro.tokens) { out.push(format!("C02 length: {m}, and finish() reported success")); }
    // raw copies: (index among the created entries, source archive, source entry)
    let mut rcs: Vec<(usize, usize, usize)> = vec![];
    {
        let mut k = 0usize;
        for (call, tok) in calls.iter().zip(ro.tokens.iter()).skip(1) {
            let x: Vec<&str> = call.split(',').collect();
            let ok = tok == "ok" || tok.starts_with("ok=");
            if x[0] == "rc" && ok && x.len() >= 3 { rcs.push((k, x[1].parse().unwrap_or(0), x[2].parse().unwrap_or(0))); }
            if matches!(x[0], "sf" | "sx" | "sa" | "dir" | "sym" | "rc") && ok { k += 1; }
            if x[0] == "fin" && ok { break; }
        }
    }
    let mut opts = StrictOpts { utf8_from: nbase, ..Default::default() };
    let mut rep = strict_parse(live, &opts);
    if !rep.errors.is_empty() && !rcs.is_empty() {
        // "metadata is copied and not checked": a raw copy of a source entry that does not read back through its
        // own archive (wrong CRC, encrypted) is as inconsistent as its source; only its structure is judged
        use std::io::Read;
        for (k, si, ei) in &rcs {
            let good = catch({ let b = srcs.get(*si).cloned().unwrap_or_default(); let ei = *ei; move || {
                let mut a = match zip::ZipArchive::new(Cursor::new(b)) { Ok(a) => a, Err(_) => return false };
                let r = match a.by_index(ei) { Ok(mut f) => { let mut v = vec![]; f.read_to_end(&mut v).is_ok() } Err(_) => false };
                r
            } }).unwrap_or(false);
            if !good { opts.skip_data.push(nbase + k); c02_count("rawcopy.source-inconsistent", 1); }
        }
        if !opts.skip_data.is_empty() { rep = strict_parse(live, &opts); }
    }
    c02_count("strict.archives", 1);
    // K-A2 (DESIGN section 9, K-A name part): new_append re-emits the central records of the base from decoded
    // metadata; a CP437 name with a byte >= 0x80 comes back as UTF-8 bytes with bit 11 set while the untouched local
    // header keeps the CP437 bytes and a clear bit 11.  Own signature (like D14 / K-D); every other disagreement
    // of an inherited entry is an ordinary C02 failure (the data-descriptor flag was D17, fixed in b01619d)
    let ka2: Vec<usize> = rep.view.as_ref().map(|v| v.entries.iter().enumerate().filter(|(i, e)| {
        *i < nbase && e.local_name != e.name && e.local_name.iter().any(|c| *c >= 0x80) && e.local_flags & 0x0800 == 0 && e.flags & 0x0800 != 0
            && String::from_utf8_lossy(&e.name).chars().count() == e.local_name.len()
    }).map(|(i, _)| i).collect()).unwrap_or_default();
    let mut other_errors = 0;
    for e in &rep.errors {
        let idx = e.strip_prefix("entry ").and_then(|t| t.split(':').next()).and_then(|n| n.parse::<usize>().ok());
        let v = rep.view.as_ref();
        let is_ka2 = idx.map(|i| ka2.contains(&i) && (e.contains(": local name ") || (e.contains(": local flags ") && v.map(|v| v.entries[i].local_flags ^ v.entries[i].flags == 0x0800).unwrap_or(false)))).unwrap_or(false);
        if is_ka2 {
            out.push(format!("K-A2 append-reencodes-name: the central record rewritten for an inherited entry carries the CP437 name re-encoded as UTF-8 (bit 11 set), its untouched local header the original bytes (C02 strict: {e})"));
            c02_count("strict.K-A2", 1);
        } else {
            out.push(format!("C02 strict: {e}"));
            other_errors += 1;
        }
    }
    for w in &rep.warnings {
        let kind = if w.contains("redundant ZIP64") { "redundant-zip64" } else if w.contains("duplicate") { "duplicate-zip64" } else if w.contains("version needed") { "zip64-version-needed-below-45" } else if w.contains("forced ZIP64") { "forced-marker" } else if w.contains("decoder consumed") { "decoder-slack" } else { "other" };
        c02_count(&format!("strict.warning.{kind}"), 1);
    }
    if let Some(v) = &rep.view {
        c02_count("strict.entries", v.entries.len() as u64);
        if v.dead_bytes > 0 { c02_count("strict.archives-with-dead-bytes", 1); }
        if v.zip64 { c02_count("strict.zip64-end-records", 1); }
        if other_errors == 0 {
            out.extend(c02_compare(v, ro, nbase, want_comment).into_iter().map(|m| format!("C02 strict: {m}")));
            out.extend(c02_cpython(key, v, live, kf.is_some()));
        }
    }
    if out.is_empty() { c02_count("strict.clean", 1); }
    out.into_iter().map(|what| OracleFailure { what }).collect()
}

/// The entries an append inherits, as the independent strict parser reads them in the base and in the live part
/// of the result: same position, method, CRC, sizes, time stamp, stored bytes' range and decoded content; same
/// name unless the central record was re-encoded from CP437 (K-A2, reported under its own label by `c02_checks`).
fn c02_inherited(base: &StrictView, live: &[u8], nbase: usize) -> Vec<String> {
    let rep = strict_parse(live, &StrictOpts { utf8_contract: false, ..Default::default() });
    let v = match &rep.view { Some(v) => v, None => return vec![] };   // no view: `c02_checks` has reported why
    let mut out = vec![];
    if base.entries.len() != nbase || v.entries.len() < nbase { return out; }   // count mismatches are reported by the comparisons of the listing
    for (i, (b, a)) in base.entries.iter().zip(v.entries.iter()).enumerate() {
        let ka2 = a.local_name != a.name && a.local_name.iter().any(|c| *c >= 0x80) && a.local_flags & 0x0800 == 0 && a.flags & 0x0800 != 0;
        if (b.header_offset, b.data_start, b.data_end, b.method, b.crc, b.compressed_size, b.uncompressed_size, b.dos_time, b.dos_date, b.decoded)
            != (a.header_offset, a.data_start, a.data_end, a.method, a.crc, a.compressed_size, a.uncompressed_size, a.dos_time, a.dos_date, a.decoded) {
            out.push(format!("C02 strict: inherited entry {i} changed: header at {} / data [{}, {}) / method {} / crc {:08x} / sizes {} {} / time {:04x} {:04x} / decoded {:?} before, header at {} / data [{}, {}) / method {} / crc {:08x} / sizes {} {} / time {:04x} {:04x} / decoded {:?} after",
                b.header_offset, b.data_start, b.data_end, b.method, b.crc, b.compressed_size, b.uncompressed_size, b.dos_time, b.dos_date, b.decoded,
                a.header_offset, a.data_start, a.data_end, a.method, a.crc, a.compressed_size, a.uncompressed_size, a.dos_time, a.dos_date, a.decoded));
        }
        if b.name != a.name && !ka2 { out.push(format!("C02 strict: inherited entry {i}: name of {} bytes before, {} bytes after (or the bytes differ)", b.name.len(), a.name.len())); }
    }
    if out.is_empty() { c02_count("strict.inherited-unchanged", nbase as u64); }
    out
}

/// What the strict parser saw against what the calls wrote: count, order, names, methods, plaintext CRC and
/// length of entries written through `write`, Unix mode, archive comment.
fn c02_compare(v: &StrictView, ro: &RunOut, nbase: usize, want_comment: &[u8]) -> Vec<String> {
    let mut out = vec![];
    if v.comment != want_comment { out.push(format!("archive comment has {} bytes, the calls ask for {}", v.comment.len(), want_comment.len())); }
    if v.entries.len() != nbase + ro.expect.len() {
        out.push(format!("{} entries in the central directory, {} inherited + {} creations succeeded", v.entries.len(), nbase, ro.expect.len()));
        return out;
    }
    for (k, (name, m, plain, mode)) in ro.expect.iter().enumerate() {
        let e = &v.entries[nbase + k];
        if &e.name != name { out.push(format!("entry {}: name has {} bytes, {} were given (or the bytes differ)", nbase + k, e.name.len(), name.len())); }
        if e.method != *m { out.push(format!("entry {}: method {} recorded, {} requested", nbase + k, e.method, m)); }
        if let Some(p) = plain {
            if e.crc != crc32fast::hash(p) || e.uncompressed_size != p.len() as u64 {
                out.push(format!("entry {}: crc/size {:08x}/{} recorded, the bytes written have {:08x}/{}", nbase + k, e.crc, e.uncompressed_size, crc32fast::hash(p), p.len()));
            }
        }
        if let Some(md) = mode {
            if e.version_made_by >> 8 != 3 || e.external_attrs >> 16 != *md { out.push(format!("entry {}: made-by {} / attributes {:o}, expected Unix / {:o}", nbase + k, e.version_made_by >> 8, e.external_attrs >> 16, md)); }
        }
    }
    out
}

/// `kf`: the crate's reader provably fails on these bytes because of K-F (reported by the caller); CPython's zipfile
/// probes the same place for a ZIP64 locator, so its refusal to OPEN them is the same finding - counted, not repeated.
fn c02_cpython(key: &str, v: &StrictView, live: &[u8], kf: bool) -> Vec<String> {
    // the subset CPython's zipfile supports fully: stored / deflate / bzip2, no encryption
    if v.entries.iter().any(|e| e.encrypted || !matches!(e.method, 0 | 8 | 12)) { c02_count("cpython.ineligible", 1); return vec![]; }
    let sampled = match C02_MODE.load(Ordering::Relaxed) { 0 => true, 1 => fnv(key) % 16 == 0, _ => live.len() <= 65536 || fnv(key) % 16 == 0 };
    if !sampled { return vec![]; }
    let p = match cpython_view(live, v.entries.iter().any(|e| e.method == 12)) {
        Some(p) => p,
        None => { c02_count("cpython.skipped-no-python", 1); return vec![]; }
    };
    c02_count("cpython.checked", 1);
    if kf && p.starts_with("open-failed ") { c02_count("cpython.K-F-open-failed", 1); return vec![]; }
    let mut want = format!("n={} comment={}", v.entries.len(), hex(&v.comment));
    for e in &v.entries {
        want += &format!(" {}:{}:{}:{}:{}:{}", e.header_offset, e.crc, e.compressed_size, e.uncompressed_size, e.method, hex(&e.name));
    }
    want += " test=None";
    if p == want { return vec![]; }
    // point at the first difference
    let (pw, ww): (Vec<&str>, Vec<&str>) = (p.split(' ').collect(), want.split(' ').collect());
    let i = pw.iter().zip(ww.iter()).position(|(a, b)| a != b).unwrap_or(pw.len().min(ww.len()));
    let cut = |s: &str| if s.len() > 160 { format!("{}..", &s[..160]) } else { s.to_string() };
    vec![format!("C02 cpython: zipfile reads the archive differently from the strict parser at field {i}: CPython `{}`, strict `{}`", cut(&pw[i.min(pw.len() - 1)..].join(" ")), cut(ww.get(i).copied().unwrap_or("")))]
}

// ---------------------------------------------------------------------------------------------
// C13: append

/// (name, method, crc of decoded content or of raw bytes when undecodable, size, mode, time) per entry
fn listing(bytes: &[u8]) -> Result<(Vec<(String, u16, String, u64, Option<u32>, (u16, u8, u8, u8, u8, u8))>, Vec<u8>), String> {
    use std::io::Read;
    let mut a = zip::ZipArchive::new(Cursor::new(bytes.to_vec())).map_err(|e| cls_z(&e))?;
    let mut v = vec![];
    for i in 0..a.len() {
        let (name, m, size, mode, t, csize, crc) = {
            let f = a.by_index_raw(i).map_err(|e| cls_z(&e))?;
            #[allow(deprecated)]
            let m = f.compression().to_u16();
            let t = f.last_modified();
            (f.name().to_string(), m, f.size(), f.unix_mode(), (t.year(), t.month(), t.day(), t.hour(), t.minute(), t.second()), f.compressed_size(), f.crc32())
        };
        let content = match a.by_index(i) {
            Ok(mut f) => { let mut b = vec![]; match f.read_to_end(&mut b) { Ok(_) => format!("ok:{}:{}", crc32fast::hash(&b), b.len()), Err(e) => cls_io(&e) } }
            Err(e) => cls_z(&e),
        };
        // the declared compressed size and CRC-32 are part of what an append must keep (the content string alone
        // cannot tell them apart when an entry is unreadable before and after)
        let content = format!("{content} csize={csize} crc={crc}");
        v.push((name, m, content, size, mode, t));
    }
    Ok((v, a.comment().to_vec()))
}

/// `kf`: the K-F label when the crate's reader provably cannot open the LIVE part of this output for that reason.
fn oracle_append(calls: &[String], srcs: &[Vec<u8>], kf: Option<&str>) -> Vec<OracleFailure> {
    let mut f = vec![];
    let base = unhex(&calls[0][3..]).unwrap_or_default();
    let before = match catch({ let b = base.clone(); move || listing(&b) }) { Ok(Ok(l)) => l, _ => return f };
    let ro = run_calls(calls, srcs);
    // an archive new_append REFUSES (e.g. A6: a name that decodes to more than 65535 UTF-8 bytes and could not be
    // written back) must come out of the attempt byte for byte as it went in
    if ro.tokens.first().map(|t| t.starts_with("err")).unwrap_or(false) {
        if ro.fin.as_ref().map(|b| b != &base).unwrap_or(false) {
            f.push(OracleFailure { what: format!("append: new_append refused the archive ({}) but the sink was modified", ro.tokens[0]) });
        }
        return f;
    }
    if !ro.finished_ok { return f; }
    // the archive is what the first successful finish left in the sink
    let bytes = match &ro.fin { Some(b) => b.clone(), None => return f };
    // The writer cannot truncate its sink: when the rewritten directory + end records end before the old
    // end of file, stale bytes of the old archive (possibly its whole end record) follow the new one.
    let stale = ro.end_pos.map(|p| (bytes.len() as u64).saturating_sub(p)).unwrap_or(0);
    // C02: the LIVE part (up to the sink position finish() left) must be a valid archive on its own; stale
    // bytes behind it are D14's subject and are reported below under their own message
    {
        let live = &bytes[..(ro.end_pos.unwrap_or(bytes.len() as u64) as usize).min(bytes.len())];
        let set_comment = calls.iter().any(|c| c.starts_with("c,"));
        let want_comment = if set_comment { ro.comment.clone() } else { before.1.clone() };
        let line_key = calls.join(";");
        // garbage in: a base that is not a valid archive itself (a lying size, a CRC that does not match, ...)
        // hands its defects down to every appended archive; C02 speaks about what the WRITER adds to a valid base
        let base_rep = strict_parse(&base, &StrictOpts { utf8_contract: false, allow_trailing: true, ..Default::default() });
        // ... a name flagged as UTF-8 that is not well-formed UTF-8 is such a defect (APPNOTE 4.4.4 bit 11 / appendix D)
        let base_ok = base_rep.errors.is_empty()
            && base_rep.view.as_ref().map(|v| v.entries.iter().all(|e| e.flags & 0x0800 == 0 || std::str::from_utf8(&e.name).is_ok())).unwrap_or(true);
        if base_ok {
            f.extend(c02_checks(&line_key, calls, srcs, &ro, live, before.0.len(), &want_comment, kf));
            // ... and the INHERITED entries as the strict parser sees them, before and after
            if let Some(bv) = &base_rep.view { f.extend(c02_inherited(bv, live, before.0.len()).into_iter().map(|what| OracleFailure { what })); }
        }
        else { c02_count("append.base-not-strict", 1); }
    }
    let mut after = match catch({ let bytes = bytes.clone(); move || listing(&bytes) }) {
        Ok(Ok(l)) => l,
        Ok(Err(e)) => {
            // D14, first symptom: the whole sink does not open.  That is the stale tail's doing - and nothing else -
            // exactly when the LIVE part (what the writer wrote) does open; everything below is then judged on the
            // live part, so that any other defect (an old entry changed, a new one missing) is still reported
            let live: Vec<u8> = bytes[..(ro.end_pos.unwrap_or(bytes.len() as u64) as usize).min(bytes.len())].to_vec();
            let live_listing = if stale > 0 { catch(move || listing(&live)) } else { Ok(Err(e.clone())) };
            match live_listing {
                Ok(Ok(l)) => {
                    f.push(OracleFailure { what: format!("D14 append-leaves-stale-tail: the rewritten archive ends {stale} bytes before the old end of file and the stale tail makes it unreadable ({e})") });
                    l
                }
                Ok(Err(e2)) => {
                    match kf {
                        Some(k) => f.push(OracleFailure { what: k.to_string() }),
                        None => f.push(OracleFailure { what: if stale > 0 { format!("append: finish() succeeded but neither the sink ({e}) nor the part of it the writer wrote ({e2}; {stale} stale bytes follow) opens") } else { format!("append: finish() succeeded but the result does not open: {e}") } }),
                    }
                    return f;
                }
                Err(_) => { f.push(OracleFailure { what: "append: panic while reading the result".into() }); return f; }
            }
        }
        Err(_) => { f.push(OracleFailure { what: "append: panic while reading the result".into() }); return f; }
    };
    // D14, second symptom: the stale tail holds the COMPLETE old end record, the reader finds it first and the
    // result opens - as the OLD directory (old comment, old entry list).  The defect is the stale tail and nothing
    // else exactly when the LIVE part (what the writer wrote) reads differently from the whole sink; everything below
    // is then judged on the live part, so that any OTHER defect is still reported under its own message.
    if stale > 0 {
        let live: Vec<u8> = bytes[..(ro.end_pos.unwrap_or(bytes.len() as u64) as usize).min(bytes.len())].to_vec();
        if let Ok(Ok(l)) = catch(move || listing(&live)) {
            if l != after {
                f.push(OracleFailure { what: format!("D14 append-leaves-stale-tail: the rewritten archive ends {stale} bytes before the old end of file and the stale tail holds a complete old end record, which the reader finds first: the result reads as the OLD directory ({} entries, comment of {} bytes) instead of the rewritten one ({} entries, comment of {} bytes)", after.0.len(), after.1.len(), l.0.len(), l.1.len()) });
                after = l;
            }
        }
    }
    // encrypted base entries cannot be listed without a password: their content field is an error class on both sides
    if after.0.len() != before.0.len() + ro.expect.len() {
        f.push(OracleFailure { what: format!("append: {} entries before, {} creations succeeded, {} entries after", before.0.len(), ro.expect.len(), after.0.len()) });
        return f;
    }
    for (i, (b, a)) in before.0.iter().zip(after.0.iter()).enumerate() {
        if b != a { f.push(OracleFailure { what: format!("append: existing entry {i} changed: {:?} -> {:?}", b, a) }); }
    }
    let set_comment = calls.iter().any(|c| c.starts_with("c,"));
    let want_comment = if set_comment { ro.comment.clone() } else { before.1.clone() };
    if after.1 != want_comment { f.push(OracleFailure { what: "append: archive comment neither kept nor replaced as requested".into() }); }
    for (k, (name, m, plain, _mode)) in ro.expect.iter().enumerate() {
        let a = &after.0[before.0.len() + k];
        if a.0.as_bytes() != &name[..] || a.1 != *m { f.push(OracleFailure { what: format!("append: new entry {k} name/method differ") }); }
        if let Some(p) = plain {
            let enc = line_entry_encrypted(calls, k);
            if !enc && !a.2.starts_with(&format!("ok:{}:{} ", crc32fast::hash(p), p.len())) { f.push(OracleFailure { what: format!("append: new entry {k} content differs: {}", a.2) }); }
        }
    }
    f
}

/// `write.big n=<entries> prefix=<bytes> rounds=<calls>|<calls>|...` (oracle-only): a foreign base with `n` empty
/// stored entries behind a prepended stub of `prefix` bytes (ZIP64 end record + locator from 65536 entries on, offsets
/// relative to the archive proper), then one append round per `rounds` item, each on the previous round's output,
/// each judged by the append oracle (old entries unchanged, new ones appended, comment, strict parser on the result).
fn oracle_append_big(line: &str) -> Vec<OracleFailure> {
    let (_, a) = parse_line(line);
    let n = get_u64(&a, "n").unwrap_or(0) as usize;
    let prefix = get_u64(&a, "prefix").unwrap_or(0) as usize;
    let rounds: Vec<String> = a.get("rounds").map(|c| c.split('|').map(|s| s.to_string()).collect()).unwrap_or_default();
    let entries: Vec<crate::mkzip::Entry> = (0..n).map(|i| crate::mkzip::Entry::stored(format!("{:05x}", i).as_bytes(), b"")).collect();
    let mut l = crate::mkzip::Layout::new(entries);
    l.prefix = (0..prefix).map(|i| b"#!/bin/sh stub\n"[i % 15]).collect();
    let mut base = crate::mkzip::build(&l).bytes;
    let mut f = vec![];
    for (k, round) in rounds.iter().enumerate() {
        let mut calls = vec![format!("ap,{}", hex(&base))];
        calls.extend(round.split(';').map(|s| s.to_string()));
        let ro = run_calls(&calls, &[]);
        if ro.tokens.iter().any(|t| t.contains("panic")) { f.push(OracleFailure { what: format!("append round {k} onto a base of {n} entries: a writer call panicked: {}", ro.tokens.join(" ")) }); return f; }
        if !ro.finished_ok { f.push(OracleFailure { what: format!("append round {k} onto a base of {n} entries did not finish: {}", ro.tokens.join(" ")) }); return f; }
        for of in oracle_append(&calls, &[], None) { f.push(OracleFailure { what: format!("{} (round {k}, base of {n}+ entries behind a {prefix}-byte stub)", of.what) }); }
        match ro.fin { Some(b) => base = b, None => return f }
    }
    f
}

fn foreign_base(r: &mut Rng) -> Vec<u8> {
    let (mut l, _) = super::read::rand_layout(r);
    // appendable bases: this crate's reader must open them; keep names ASCII so that re-emitted central
    // records carry the same name bytes (foreign CP437 names are observation K-A in DESIGN.md)
    for e in l.entries.iter_mut() { e.flags &= !1; if e.method == 99 { e.method = 0; } e.name.retain(|b| *b < 0x80); }
    l.trailing.clear();
    crate::mkzip::build(&l).bytes
}

/// Foreign base whose names are NOT kept ASCII: unflagged names with bytes >= 0x80 are CP437 for this crate's reader
/// and come back as UTF-8 in the rewritten central record (K-A2).  At least one entry has such a name.
fn foreign_base_cp437(r: &mut Rng) -> Vec<u8> {
    let (mut l, _) = super::read::rand_layout(r);
    if l.entries.is_empty() { l.entries.push(crate::mkzip::Entry::stored(b"x", b"content")); }
    for e in l.entries.iter_mut() { e.flags &= !1; e.flags &= !0x0800; if e.method == 99 { e.method = 0; } e.local_name = None; }
    let k = r.below(l.entries.len() as u64) as usize;
    if !l.entries[k].name.iter().any(|b| *b >= 0x80) {
        let pool: [&[u8]; 4] = [b"Cura\x87ao.txt", b"\x81ber/\x84.dat", b"\xb0\xb1\xb2", b"na\x8bve"];
        l.entries[k].name = pool[r.below(4) as usize].to_vec();
    }
    l.trailing.clear();
    crate::mkzip::build(&l).bytes
}

/// A6: foreign bases with a name that is short enough for its 16-bit length field but DECODES (CP437 -> UTF-8,
/// ill-formed flagged UTF-8 -> U+FFFD) to about 65535 bytes: on either side of the limit, as only / first / last entry.
fn gen_append_long_names(g: &mut GenOut, seed: u64, tier: &str) {
    // (byte, count, flags): 0xB0 -> 3 bytes, 0x80 -> 2 bytes, ill-formed 0xFF under the UTF-8 flag -> 3 bytes (U+FFFD)
    let variants: [(u8, usize, u16); 6] = [(0xb0, 21845, 0), (0xb0, 21846, 0), (0x80, 32767, 0), (0x80, 32768, 0), (0xff, 21845, 0x0800), (0xff, 21846, 0x0800)];
    let n = if tier == "thorough" { 60 } else { 8 };
    for i in 0..n {
        let mut r = super::rng_for(seed, "append.long-name", i);
        let (b, cnt, flags) = if i < 6 { variants[i as usize] } else {
            let (b, per) = *r.pick(&[(0xb0u8, 3usize), (0x80, 2), (0x9b, 2), (0xfe, 3)]);
            (b, (65535 / per) - 2 + r.below(5) as usize, 0) };
        let mut long = crate::mkzip::Entry::stored(&vec![b; cnt], b"payload of the long-named entry");
        long.flags = flags;
        let mut entries = vec![];
        let pos = if i < 6 { i % 3 } else { r.below(3) };
        if pos == 2 { entries.push(crate::mkzip::Entry::stored(b"first.txt", b"one")); entries.push(crate::mkzip::Entry::stored(b"dir/second", b"two")); }
        entries.push(long);
        if pos == 1 { entries.push(crate::mkzip::Entry::stored(b"after.txt", b"three")); entries.push(crate::mkzip::Entry::stored(b"dir/last", b"four")); }
        let mut l = crate::mkzip::Layout::new(entries);
        if r.chance(1, 3) { l.comment = b"old comment".to_vec(); }
        let base = crate::mkzip::build(&l).bytes;
        let mut calls = vec![format!("ap,{}", hex(&base))];
        match i % 3 {
            0 => {}
            1 => { calls.push(format!("sf,{},{}", hex(b"x"), rand_opts(&mut r, false).tok())); calls.push(format!("w,{}", hex(b"appended"))); }
            _ => { calls.push(format!("c,{}", hex(b"new comment"))); calls.push(format!("dir,{},{}", hex(b"d"), rand_opts(&mut r, false).tok())); }
        }
        calls.push("fin".into());
        g.push("foreign-long-name", make_line(&calls, &[]));
    }
}

fn gen_append(seed: u64, tier: &str) -> GenOut {
    let mut g = GenOut::default();
    g.rule = "histories write -> (append k_i entries)* : base archives from this crate's writer, from the independent builder (prefix, descriptors, ZIP64 records, made-by variants) and from earlier rounds; every 12th history from a foreign base with unflagged CP437 names (K-A2); foreign bases with a name that decodes to 65534..65538 UTF-8 bytes (A6: accepted up to 65535, refused above, sink untouched); oracle-only `write.big`: bases of 65535 / 65536 (thorough: 65534..70000) entries with ZIP64 end records behind a prepended stub, three rounds each; 0..R rounds (R = 4 quick, 12 thorough), every method, comment changes between rounds, append-nothing rounds; each round is one op line whose base is the previous round's output. non-trivial = the round finished and the base had at least one entry".into();
    let (n, rounds) = if tier == "thorough" { (4000, 12) } else { (220, 4) };
    for i in 0..n {
        let mut r = super::rng_for(seed, "append", i);
        // every 12th history starts from a foreign base with CP437 names (K-A2; own class, so that the known finding
        // does not thin out the other histories)
        let cp437 = i % 12 == 11;
        let mut base = if cp437 { foreign_base_cp437(&mut r) } else { match r.below(3) { 0 => foreign_base(&mut r), _ => small_source(&mut r) } };
        let nr = r.range(1, rounds);
        for round in 0..nr {
            let srcs: Vec<Vec<u8>> = if r.chance(1, 4) { vec![small_source(&mut r)] } else { vec![] };
            let mut calls = rand_calls(&mut r, &srcs, Some(&base), false);
            if r.chance(1, 5) { calls.truncate(1); calls.push("fin".into()); }           // append nothing
            if settle_flushes(&mut calls, &srcs) { *g.dist.entry("flush.removed-codec-row-collision".into()).or_insert(0) += 1; }
            // make sure the round finishes explicitly so the next round has a base
            if calls.last().map(|c| c == "drop").unwrap_or(false) { let k = calls.len() - 1; calls[k] = "fin".into(); }
            let line = make_line(&calls, &srcs);
            g.push(if cp437 { if round == 0 { "foreign-cp437.round0" } else { "foreign-cp437.later-round" } } else if round == 0 { "round0" } else { "later-round" }, line);
            let ro = run_calls(&calls, &srcs);
            match (ro.finished_ok, ro.fin) { (true, Some(b)) => base = b, _ => break }
        }
    }
    gen_append_long_names(&mut g, seed, tier);
    // bases with more than 65535 entries (ZIP64 end records) behind a prepended stub, three rounds: new entries /
    // nothing but a new comment / new entries again.  Oracle-only (the model is list based); deterministic, so not
    // repeated for the further seeds of the quick tier
    if tier != "quickx" {
        let o = Opts { method: 0, level: None, dp: 0x5821, tp: 0, perm: None, large: false, pw: None };
        let o8 = Opts { method: 8, ..o.clone() };
        let rounds = format!("sf,{},{};w,{};fin|c,{};fin|dir,{},{};sf,{},{};w,{};fin", hex(b"new-1"), o.tok(), hex(b"first round"), hex(b"comment of round two"),
            hex(b"d"), o.tok(), hex(b"d/new-2"), o8.tok(), hex(b"third round third round third round"));
        let scen: &[(usize, usize)] = if tier == "thorough" { &[(65534, 0), (65535, 0), (65535, 70), (65536, 0), (65536, 70), (65537, 4096), (70000, 70)] } else { &[(65536, 70), (65535, 0)] };
        for (n, p) in scen { g.push("big-base", format!("write.big n={n} prefix={p} rounds={rounds}")); }
    }
    g
}

// ---------------------------------------------------------------------------------------------
// C14: raw copy

/// `kf`: the K-F label when the crate's reader provably cannot open this output for that reason (the label is
/// reported once by the caller; "does not open" is then the same fact and is not repeated here).
fn oracle_rawcopy(calls: &[String], srcs: &[Vec<u8>], kf: Option<&str>) -> Vec<OracleFailure> {
    use std::io::Read;
    let mut f = vec![];
    let ro = run_calls(calls, srcs);
    if !ro.finished_ok { return f; }
    let bytes = match &ro.fin { Some(b) => b.clone(), None => return f };
    let nbase = if calls[0].starts_with("ap,") { match listing(&unhex(&calls[0][3..]).unwrap_or_default()) { Ok(l) => l.0.len(), Err(_) => return f } } else { 0 };
    // map successful rc calls to destination indices: replay the bookkeeping of run_calls
    let mut dest = nbase;
    let mut checks: Vec<(usize, usize, usize)> = vec![];   // (dest index, src archive, src entry)
    for (call, tok) in calls[1..].iter().zip(ro.tokens[1..].iter()) {
        let x: Vec<&str> = call.split(',').collect();
        let created = matches!(x[0], "sf" | "sx" | "sa" | "dir" | "sym" | "rc") && (tok == "ok" || tok.starts_with("ok="));
        // start_file_aligned pushes its entry even when it later fails; count what the archive holds instead
        if x[0] == "rc" && tok == "ok" { checks.push((dest, x[1].parse().unwrap_or(0), x[2].parse().unwrap_or(0))); }
        if created { dest += 1; }
        if x[0] == "fin" && tok == "ok" { break; }
    }
    let known_open_failure = kf.is_some();
    let r = catch({
        let srcs = srcs.to_vec();
        move || -> Vec<String> {
            let mut out = vec![];
            let mut a = match zip::ZipArchive::new(Cursor::new(bytes)) { Ok(a) => a, Err(e) => return if known_open_failure { vec![] } else { vec![format!("rawcopy: result does not open: {}", cls_z(&e))] } };
            if a.len() != dest { return vec![]; }   // bookkeeping mismatch (an aligned start that failed half-way): covered by the general oracle
            for (di, si, ei) in checks {
                let mut s = match zip::ZipArchive::new(Cursor::new(srcs[si].clone())) { Ok(s) => s, Err(_) => continue };
                let (sraw, smeta) = {
                    let mut sf = match s.by_index_raw(ei) { Ok(f) => f, Err(_) => continue };
                    let mut b = vec![]; let _ = sf.read_to_end(&mut b);
                    let t = sf.last_modified();
                    #[allow(deprecated)]
                    (b, (sf.compression().to_u16(), sf.crc32(), sf.size(), sf.compressed_size(), (t.year(), t.month(), t.day(), t.hour(), t.minute(), t.second()), sf.unix_mode()))
                };
                let mut df = match a.by_index_raw(di) { Ok(f) => f, Err(e) => { out.push(format!("rawcopy: destination entry {di}: {}", cls_z(&e))); continue } };
                let mut draw = vec![]; let _ = df.read_to_end(&mut draw);
                let t = df.last_modified();
                #[allow(deprecated)]
                let dmeta = (df.compression().to_u16(), df.crc32(), df.size(), df.compressed_size(), (t.year(), t.month(), t.day(), t.hour(), t.minute(), t.second()), df.unix_mode());
                if draw != sraw { out.push(format!("rawcopy: destination entry {di} raw bytes differ from the source's ({} vs {} bytes)", draw.len(), sraw.len())); }
                // mode: kept whole; a source without a Unix mode gets the writer's default regular-file mode
                let want_perm = smeta.5.or(Some(0o100644));
                if (dmeta.0, dmeta.1, dmeta.2, dmeta.3, dmeta.4) != (smeta.0, smeta.1, smeta.2, smeta.3, smeta.4) { out.push(format!("rawcopy: destination entry {di} metadata {:?} != source {:?}", dmeta, smeta)); }
                if dmeta.5 != want_perm {
                    if smeta.5 == Some(0) && dmeta.5.is_none() {
                        out.push(format!("K-D rawcopy-mode-zero: source entry reports Unix mode 0 (attributes set, but no type and no permission bits); the copy's external attributes are 0, so it reports no mode (destination entry {di})"));
                    } else {
                        out.push(format!("rawcopy: destination entry {di} mode {:?} != {:?}", dmeta.5, want_perm));
                    }
                }
            }
            out
        }
    });
    match r { Ok(v) => for w in v { f.push(OracleFailure { what: w }); }, Err(_) => f.push(OracleFailure { what: "rawcopy: panic while comparing".into() }) }
    f
}

fn gen_rawcopy(seed: u64, tier: &str) -> GenOut {
    let mut g = GenOut::default();
    g.rule = "raw copies of unencrypted source entries (every method incl. ones the crate cannot decode, empty, descriptor sources from the independent builder, renamed or same name) interleaved with ordinary entries; copy as first / last / only entry; z64.rawcopy: sources whose compressed / uncompressed size is 2^32-2 .. 2^32+1 (a hole of a sparse source archive) copied into a sparse sink. non-trivial = at least one raw copy succeeded and finish succeeded".into();
    let n = if tier == "thorough" { 25_000 } else { 1_000 };
    for i in 0..n {
        let mut r = super::rng_for(seed, "rawcopy", i);
        let nsrc = r.range(1, 2) as usize;
        let srcs: Vec<Vec<u8>> = (0..nsrc).map(|_| if r.chance(1, 2) { small_source(&mut r) } else {
            let (mut l, _) = super::read::rand_layout(&mut r);
            for e in l.entries.iter_mut() { e.flags &= !1; if r.chance(1, 6) { e.method = *r.pick(&[1u16, 9, 14, 95]); } }
            crate::mkzip::build(&l).bytes }).collect();
        let mut calls = vec!["new".to_string()];
        let k = r.range(1, 5);
        for _ in 0..k {
            if r.chance(3, 5) {
                let si = r.below(srcs.len() as u64);
                let nm = if r.chance(1, 2) { "same".to_string() } else { hex(&rand_utf8_name(&mut r)) };
                calls.push(format!("rc,{},{},{}", si, r.below(4), nm));
            } else if r.chance(1, 2) {
                calls.push(format!("sf,{},{}", hex(&rand_utf8_name(&mut r)), rand_opts(&mut r, false).tok()));
                calls.push(format!("w,{}", hex(&rand_content(&mut r))));
            } else {
                calls.push(format!("dir,{},{}", hex(&rand_utf8_name(&mut r)), rand_opts(&mut r, false).tok()));
            }
        }
        calls.push("fin".into());
        g.push("rawcopy", make_line(&calls, &srcs));
    }
    // ZIP64-sized sources ("via sparse source"): compressed / uncompressed sizes of 2^32-2 .. 2^32+1 copied from a sparse
    // source archive into a sparse sink (the z64 stream's op; deterministic, so not repeated for further seeds)
    if tier != "quickx" { for (class, line) in super::z64::rc_big_lines(tier) { g.push(&class, line); } }
    g
}
