//! `write.run`: sequences of `ZipWriter` calls — C01/C02 (round trip, validity), C12 (any call order),
//! C13 (append), C14 (raw copy), C17 (aligned / extra data at the archive level).
use super::read::{cls_io, cls_z, direct_decode, rand_content, rand_name};
use super::{GenOut, OracleFailure, Stream};
use crate::prng::Rng;
use crate::util::*;
use std::io::{Cursor, Write};
use zip::unstable::write::FileOptionsExt;
use zip::write::FileOptions;

pub struct WriteStream;

#[derive(Clone, Debug)]
pub struct Opts {
    pub method: u16,
    pub level: Option<i32>,
    pub dp: u16,
    pub tp: u16,
    pub perm: Option<u32>,
    pub large: bool,
    pub pw: Option<Vec<u8>>,
}

impl Opts {
    pub fn tok(&self) -> String {
        format!(
            "{},{},{},{},{},{},{}",
            self.method,
            self.level.map(|l| l.to_string()).unwrap_or("n".into()),
            self.dp,
            self.tp,
            self.perm.map(|p| p.to_string()).unwrap_or("n".into()),
            self.large as u8,
            self.pw.as_ref().map(|p| hex(p)).unwrap_or("n".into())
        )
    }
    pub fn parse(x: &[&str]) -> Option<Opts> {
        if x.len() != 7 { return None; }
        Some(Opts {
            method: x[0].parse().ok()?,
            level: if x[1] == "n" { None } else { Some(x[1].parse().ok()?) },
            dp: x[2].parse().ok()?,
            tp: x[3].parse().ok()?,
            perm: if x[4] == "n" { None } else { Some(x[4].parse().ok()?) },
            large: x[5] == "1",
            pw: if x[6] == "n" { None } else { Some(unhex(x[6])?) },
        })
    }
    pub fn to_zip(&self) -> FileOptions {
        #[allow(deprecated)]
        let m = zip::CompressionMethod::from_u16(self.method);
        let mut o = FileOptions::default()
            .compression_method(m)
            .compression_level(self.level)
            .last_modified_time(zip::DateTime::from_msdos(self.dp, self.tp))
            .large_file(self.large);
        if let Some(p) = self.perm { o = o.unix_permissions(p); }
        if let Some(pw) = &self.pw { o = o.with_deprecated_encryption(pw); }
        o
    }
}

fn default_level(m: u16) -> i32 { match m { 8 => 6, 12 => 6, 93 => 3, _ => 0 } }

/// Compress `chunks` with the codec library directly, feeding the same chunk sequence.
pub fn direct_compress(method: u16, level: i32, chunks: &[Vec<u8>]) -> Option<Vec<u8>> {
    let ok = match method { 8 => (0..=9).contains(&level), 12 => (1..=9).contains(&level), 93 => (-131072..=22).contains(&level), _ => false };
    if !ok { return None; }
    match method {
        8 => {
            let mut e = flate2::write::DeflateEncoder::new(vec![], flate2::Compression::new(level as u32));
            for c in chunks { e.write_all(c).ok()?; }
            e.finish().ok()
        }
        12 => {
            let mut e = bzip2::write::BzEncoder::new(vec![], bzip2::Compression::new(level as u32));
            for c in chunks { e.write_all(c).ok()?; }
            e.finish().ok()
        }
        93 => {
            let mut e = zstd::stream::write::Encoder::new(vec![], level).ok()?;
            for c in chunks { e.write_all(c).ok()?; }
            e.finish().ok()
        }
        _ => None,
    }
}

struct Cur {
    method: u16,
    level: i32,
    pw: Option<Vec<u8>>,
    chunks: Vec<Vec<u8>>,
    in_extra: bool,
    raw: bool,
}

pub struct RunOut {
    pub tokens: Vec<String>,
    pub fin: Option<Vec<u8>>,
    pub comp: Vec<String>,
    pub zc: Vec<String>,
    /// entries the caller believes were created: (name, method, plaintext or None for raw copies / dirs)
    pub expect: Vec<(Vec<u8>, u16, Option<Vec<u8>>, Option<u32>)>,
    pub finished_ok: bool,
    pub comment: Vec<u8>,
}

fn close_cur(cur: &mut Option<Cur>, comp: &mut Vec<String>, zc: &mut Vec<String>) {
    if let Some(c) = cur.take() {
        if c.raw { return; }
        let plain: Vec<u8> = c.chunks.concat();
        let stored: Vec<u8> = if c.method == 0 { plain.clone() } else {
            match direct_compress(c.method, c.level, &c.chunks) {
                Some(o) => {
                    comp.push(format!("{}:{}:{}:{}:{}", c.method, c.level, crc32fast::hash(&plain), plain.len(), hex(&o)));
                    o
                }
                None => return,
            }
        };
        if let Some(pw) = c.pw {
            let crc = crc32fast::hash(&plain);
            let mut buf = vec![0u8; 11];
            buf.push((crc >> 24) as u8);
            buf.extend_from_slice(&stored);
            let ct = crate::pkware::Keys::new(&pw).encrypt(&buf);
            zc.push(format!("{}:{}:{}:{}", hex(&pw), crc32fast::hash(&buf), buf.len(), hex(&ct)));
        }
    }
}

/// Execute a call list on the real writer.
pub fn run_calls(calls: &[String], srcs: &[Vec<u8>]) -> RunOut {
    let mut out = RunOut { tokens: vec![], fin: None, comp: vec![], zc: vec![], expect: vec![], finished_ok: false, comment: vec![] };
    let mut sink = Cursor::new(Vec::new());
    let first: Vec<&str> = calls[0].split(',').collect();
    if first[0] == "ap" {
        sink = Cursor::new(unhex(first[1]).unwrap_or_default());
    }
    let mut src_archives: Vec<Option<zip::ZipArchive<Cursor<Vec<u8>>>>> =
        srcs.iter().map(|b| zip::ZipArchive::new(Cursor::new(b.clone())).ok()).collect();
    let mut panicked = false;
    let mut early: Option<bool> = None;
    'blk: {
        let sink_ref = &mut sink;
        let wr = std::panic::catch_unwind(std::panic::AssertUnwindSafe(|| {
            if first[0] == "ap" { zip::ZipWriter::new_append(sink_ref).map_err(|e| cls_z(&e)) } else { Ok(zip::ZipWriter::new(sink_ref)) }
        }));
        let mut w = match wr {
            Ok(Ok(w)) => { out.tokens.push("ok".into()); w }
            Ok(Err(e)) => { out.tokens.push(e); early = Some(false); break 'blk; }
            Err(_) => { out.tokens.push("panic".into()); early = Some(true); break 'blk; }
        };
        let mut cur: Option<Cur> = None;
        let mut pending_expect: Option<usize> = None;
        for call in &calls[1..] {
            let x: Vec<&str> = call.split(',').collect();
            let r = std::panic::catch_unwind(std::panic::AssertUnwindSafe(|| -> String {
                match x[0] {
                    "sf" | "sx" | "sa" => {
                        let name = unhex(x[1]).unwrap_or_default();
                        let o = match Opts::parse(&x[2..9]) { Some(o) => o, None => return "bad-call".into() };
                        let nm = String::from_utf8_lossy(&name).into_owned();
                        let res = match x[0] {
                            "sf" => w.start_file(nm, o.to_zip()).map(|_| "ok".to_string()),
                            "sx" => w.start_file_with_extra_data(nm, o.to_zip()).map(|v| format!("ok={v}")),
                            _ => w.start_file_aligned(nm, o.to_zip(), x[9].parse().unwrap_or(0)).map(|v| format!("ok={v}")),
                        };
                        close_cur(&mut cur, &mut out.comp, &mut out.zc);
                        match res {
                            Ok(t) => {
                                cur = Some(Cur { method: o.method, level: o.level.unwrap_or(default_level(o.method)), pw: o.pw.clone(), chunks: vec![], in_extra: x[0] == "sx", raw: false });
                                out.expect.push((name, o.method, Some(vec![]), Some(0o100000 | o.perm.map(|p| p & 0o777).unwrap_or(0o644))));
                                pending_expect = Some(out.expect.len() - 1);
                                t
                            }
                            Err(e) => { pending_expect = None; cls_z(&e) }
                        }
                    }
                    "w" => {
                        let b = unhex(x[1]).unwrap_or_default();
                        match w.write_all(&b) {
                            Ok(()) => {
                                if let Some(c) = cur.as_mut() {
                                    if !c.in_extra && !b.is_empty() {
                                        c.chunks.push(b.clone());
                                        if let Some(i) = pending_expect { if let Some(p) = out.expect[i].2.as_mut() { p.extend_from_slice(&b); } }
                                    }
                                }
                                "ok".into()
                            }
                            Err(e) => cls_io(&e),
                        }
                    }
                    "el" => match w.end_local_start_central_extra_data() {
                        Ok(v) => { if let Some(c) = cur.as_mut() { c.in_extra = true; } format!("ok={v}") }
                        Err(e) => cls_z(&e),
                    },
                    "ex" => match w.end_extra_data() {
                        Ok(v) => { if let Some(c) = cur.as_mut() { c.in_extra = false; } format!("ok={v}") }
                        Err(e) => cls_z(&e),
                    },
                    "dir" => {
                        let name = unhex(x[1]).unwrap_or_default();
                        let o = match Opts::parse(&x[2..9]) { Some(o) => o, None => return "bad-call".into() };
                        let nm = String::from_utf8_lossy(&name).into_owned();
                        let res = w.add_directory(nm.clone(), o.to_zip());
                        close_cur(&mut cur, &mut out.comp, &mut out.zc);
                        pending_expect = None;
                        match res {
                            Ok(()) => {
                                let n2 = if nm.ends_with('/') || nm.ends_with('\\') { nm } else { format!("{nm}/") };
                                out.expect.push((n2.into_bytes(), 0, Some(vec![]), Some(0o40000 | o.perm.map(|p| p & 0o777).unwrap_or(0o755))));
                                "ok".into()
                            }
                            Err(e) => cls_z(&e),
                        }
                    }
                    "sym" => {
                        let name = unhex(x[1]).unwrap_or_default();
                        let target = unhex(x[2]).unwrap_or_default();
                        let o = match Opts::parse(&x[3..10]) { Some(o) => o, None => return "bad-call".into() };
                        let res = w.add_symlink(String::from_utf8_lossy(&name).into_owned(), String::from_utf8_lossy(&target).into_owned(), o.to_zip());
                        close_cur(&mut cur, &mut out.comp, &mut out.zc);
                        pending_expect = None;
                        match res {
                            Ok(()) => {
                                // the symlink target is the (stored) content; an encrypting option would also encrypt it
                                if let Some(pw) = &o.pw {
                                    let mut c = Some(Cur { method: 0, level: 0, pw: Some(pw.clone()), chunks: vec![target.clone()], in_extra: false, raw: false });
                                    close_cur(&mut c, &mut out.comp, &mut out.zc);
                                }
                                out.expect.push((name, 0, Some(target), Some(0o120000 | o.perm.map(|p| p & 0o777).unwrap_or(0o777))));
                                "ok".into()
                            }
                            Err(e) => cls_z(&e),
                        }
                    }
                    "c" => { let b = unhex(x[1]).unwrap_or_default(); out.comment = b.clone(); w.set_raw_comment(b); "ok".into() }
                    "rc" => {
                        let si: usize = x[1].parse().unwrap_or(99);
                        let ei: usize = x[2].parse().unwrap_or(0);
                        match src_archives.get_mut(si).and_then(|a| a.as_mut()) {
                            None => "bad-call".into(),
                            Some(a) => match a.by_index_raw(ei) {
                                Err(e) => format!("src:{}", cls_z(&e)),
                                Ok(f) => {
                                    let (m, sname) = ({ #[allow(deprecated)] f.compression().to_u16() }, f.name().as_bytes().to_vec());
                                    let res = if x[3] == "same" { w.raw_copy_file(f) } else { w.raw_copy_file_rename(f, String::from_utf8_lossy(&unhex(x[3]).unwrap_or_default()).into_owned()) };
                                    close_cur(&mut cur, &mut out.comp, &mut out.zc);
                                    pending_expect = None;
                                    match res {
                                        Ok(()) => {
                                            cur = Some(Cur { method: m, level: 0, pw: None, chunks: vec![], in_extra: false, raw: true });
                                            let nm = if x[3] == "same" { sname } else { unhex(x[3]).unwrap_or_default() };
                                            out.expect.push((nm, m, None, None));
                                            "ok".into()
                                        }
                                        Err(e) => cls_z(&e),
                                    }
                                }
                            },
                        }
                    }
                    "fin" => {
                        let res = w.finish();
                        close_cur(&mut cur, &mut out.comp, &mut out.zc);
                        pending_expect = None;
                        match res { Ok(_) => { out.finished_ok = true; "ok".into() } Err(e) => cls_z(&e) }
                    }
                    "drop" => "ok".into(),   // the writer is dropped when this scope ends; nothing may follow
                    _ => "bad-call".into(),
                }
            }));
            match r {
                Ok(t) => out.tokens.push(t),
                Err(_) => { out.tokens.push("panic".into()); panicked = true; break; }
            }
            if x[0] == "drop" { break; }
        }
        close_cur(&mut cur, &mut out.comp, &mut out.zc);
        if panicked {
            std::mem::forget(w);
        } else {
            let _ = std::panic::catch_unwind(std::panic::AssertUnwindSafe(|| drop(w)));
        }
    }
    if let Some(p) = early { return finish_out(out, sink.into_inner(), p); }
    finish_out(out, sink.into_inner(), panicked)
}

fn finish_out(mut out: RunOut, bytes: Vec<u8>, panicked: bool) -> RunOut {
    if !panicked { out.fin = Some(bytes); }
    out
}

pub fn show_final(b: &[u8]) -> String {
    if b.len() <= 6000 { format!("final={}", hex(b)) } else { format!("final=crc:{}:{}", crc32fast::hash(b), b.len()) }
}

fn parse_srcs(a: &std::collections::BTreeMap<String, String>) -> Vec<Vec<u8>> {
    (0..8).filter_map(|i| get_hex(a, &format!("src{i}"))).collect()
}

// ---------------------------------------------------------------------------------------------
// generators

pub fn rand_opts(r: &mut Rng, allow_pw: bool) -> Opts {
    let method = *r.pick(&[0u16, 0, 8, 8, 12, 93, 0, 8]);
    let level = match r.below(6) {
        0 | 1 | 2 => None,
        3 => Some(match method { 8 => r.below(10) as i32, 12 => r.range(1, 9) as i32, 93 => r.range(0, 22) as i32 - 3, _ => 1 }),
        4 => Some(*r.pick(&[0i32, 1, 9, 10, -1, 22, 23, 100, -7, -8])),
        _ => None,
    };
    // stored entries with a level are accepted silently by the crate; keep a few
    let level = if method == 0 && !r.chance(1, 10) { None } else { level };
    Opts {
        method,
        level,
        dp: 0x21 + (r.below(128) as u16) * 512 + (r.below(12) as u16) * 32 + r.below(28) as u16,
        tp: r.below(0xc000) as u16,
        perm: if r.chance(1, 2) { Some(r.below(0o10000) as u32) } else { None },
        large: r.chance(1, 10),
        pw: if allow_pw && r.chance(1, 10) { Some(r.bytes(5)) } else { None },
    }
}

fn rand_utf8_name(r: &mut Rng) -> Vec<u8> {
    let n = rand_name(r);
    String::from_utf8_lossy(&n).into_owned().into_bytes()
}

/// A mostly-valid call sequence ending in fin or drop.
pub fn rand_calls(r: &mut Rng, srcs: &[Vec<u8>], base: Option<&Vec<u8>>, misuse: bool) -> Vec<String> {
    let mut calls = vec![match base { Some(b) => format!("ap,{}", hex(b)), None => "new".into() }];
    let n = r.below(7) as usize;
    for _ in 0..n {
        match r.below(if misuse { 14 } else { 10 }) {
            0..=3 => {
                let o = rand_opts(r, true);
                calls.push(format!("sf,{},{}", hex(&rand_utf8_name(r)), o.tok()));
                for _ in 0..r.below(3) { calls.push(format!("w,{}", hex(&rand_content(r)))); }
            }
            4 => calls.push(format!("dir,{},{}", hex(&rand_utf8_name(r)), rand_opts(r, false).tok())),
            5 => calls.push(format!("sym,{},{},{}", hex(&rand_utf8_name(r)), hex(b"target/path"), rand_opts(r, false).tok())),
            6 => calls.push(format!("c,{}", hex(&{ let n = r.below(40) as usize; r.bytes(n) }))),
            7 => {
                let mut o = rand_opts(r, false);
                o.pw = None;
                calls.push(format!("sx,{},{}", hex(&rand_utf8_name(r)), o.tok()));
                let rec = |r: &mut Rng| { let id = *r.pick(&[0xcafeu16, 0xbeef, 0x4242, 0x0100]); let pl = { let n = r.below(20) as usize; r.bytes(n) }; let mut x = id.to_le_bytes().to_vec(); x.extend_from_slice(&(pl.len() as u16).to_le_bytes()); x.extend_from_slice(&pl); x };
                if r.chance(3, 4) { calls.push(format!("w,{}", hex(&rec(r)))); }
                if r.chance(1, 3) { calls.push("el".into()); if r.chance(1, 2) { calls.push(format!("w,{}", hex(&rec(r)))); } }
                calls.push("ex".into());
                calls.push(format!("w,{}", hex(&rand_content(r))));
            }
            8 => {
                let mut o = rand_opts(r, false);
                o.pw = None;
                let al = *r.pick(&[0u32, 1, 2, 4, 16, 64, 512, 4096, 3, 7, 65535, 32768]);
                calls.push(format!("sa,{},{},{}", hex(&rand_utf8_name(r)), o.tok(), al));
                calls.push(format!("w,{}", hex(&rand_content(r))));
            }
            9 => {
                if !srcs.is_empty() {
                    let si = r.below(srcs.len() as u64);
                    let nm = if r.chance(1, 2) { "same".to_string() } else { hex(&rand_utf8_name(r)) };
                    calls.push(format!("rc,{},{},{}", si, r.below(4), nm));
                }
            }
            // misuse
            10 => calls.push(format!("w,{}", hex(b"stray write"))),
            11 => calls.push("ex".into()),
            12 => calls.push("el".into()),
            _ => {
                // reserved / malformed extra data
                let mut o = rand_opts(r, false);
                o.pw = None;
                calls.push(format!("sx,{},{}", hex(b"x"), o.tok()));
                let bad: Vec<u8> = match r.below(4) { 0 => vec![1, 0, 0, 0], 1 => vec![0x55, 0x54, 1, 0, 9], 2 => vec![0xfe, 0xca, 9, 0, 1], _ => vec![0xfe] };
                calls.push(format!("w,{}", hex(&bad)));
                calls.push("ex".into());
            }
        }
    }
    calls.push(if r.chance(4, 5) { "fin".into() } else { "drop".into() });
    if misuse && r.chance(1, 4) && calls.last().map(|c| c == "fin").unwrap_or(false) {
        calls.push(format!("w,{}", hex(b"after finish")));
        calls.push(format!("sf,{},{}", hex(b"late"), rand_opts(r, false).tok()));
        calls.push("fin".into());
    }
    calls
}

pub fn make_line(calls: &[String], srcs: &[Vec<u8>]) -> String {
    let ro = run_calls(calls, srcs);
    let mut line = format!("write.run calls={}", calls.join(";"));
    line += &format!(" comp={}", if ro.comp.is_empty() { "-".into() } else { ro.comp.join(";") });
    line += &format!(" zc={}", if ro.zc.is_empty() { "-".into() } else { ro.zc.join(";") });
    for (i, s) in srcs.iter().enumerate() { line += &format!(" src{i}={}", hex(s)); }
    line
}

fn small_source(r: &mut Rng) -> Vec<u8> {
    let (b, _) = super::read::writer_archive(r);
    b
}

impl Stream for WriteStream {
    fn name(&self) -> &'static str { "write" }

    fn gen(&self, seed: u64, tier: &str) -> GenOut {
        let mut g = GenOut::default();
        g.rule = "random sequences of ZipWriter calls (start_file/with_extra_data/aligned, write, end_local/end_extra, add_directory, add_symlink, set_comment, raw copy from source archives, new_append on base archives, finish/drop, plus misuse: stray writes, end_extra without begin, reserved/truncated extra data, bad levels, calls after finish); model bytes must equal implementation bytes (compressed payloads supplied by calling the codec libraries directly). distinct = distinct op lines; non-trivial = finish/drop reached with at least one entry".into();
        let n = if tier == "thorough" { 40_000 } else { 1_500 };
        for i in 0..n {
            let mut r = super::rng_for(seed, "write", i);
            let nsrc = r.below(3) as usize;
            let srcs: Vec<Vec<u8>> = (0..nsrc).map(|_| if r.chance(3, 4) { small_source(&mut r) } else { let (l, _) = super::read::rand_layout(&mut r); crate::mkzip::build(&l).bytes }).collect();
            let base = if r.chance(1, 5) { Some(small_source(&mut r)) } else { None };
            let misuse = r.chance(1, 3);
            let calls = rand_calls(&mut r, &srcs, base.as_ref(), misuse);
            let kind = if base.is_some() { "append" } else if misuse { "misuse" } else { "valid" };
            g.push(kind, make_line(&calls, &srcs));
        }
        g
    }

    fn run(&self, line: &str) -> String {
        let (_, a) = parse_line(line);
        let calls: Vec<String> = a.get("calls").map(|c| c.split(';').map(|s| s.to_string()).collect()).unwrap_or_default();
        if calls.is_empty() { return "bad-op".into(); }
        let srcs = parse_srcs(&a);
        let ro = run_calls(&calls, &srcs);
        let mut s = ro.tokens.join(" ");
        if let Some(f) = &ro.fin { s += " "; s += &show_final(f); }
        s
    }

    fn nontrivial(&self, _line: &str, resp: &str) -> bool {
        resp.contains("final=") && resp.matches(" ok").count() >= 2
    }

    fn oracle(&self, line: &str, resp: &str) -> Vec<OracleFailure> {
        let mut f = vec![];
        if resp.contains("panic") {
            f.push(OracleFailure { what: format!("a writer call panicked: {}", &resp[..resp.len().min(160)]) });
            return f;
        }
        // implementation-only round trip: whatever finish() produced must read back as what was written
        let (_, a) = parse_line(line);
        let calls: Vec<String> = a.get("calls").map(|c| c.split(';').map(|s| s.to_string()).collect()).unwrap_or_default();
        if calls.is_empty() || calls[0] != "new" { return f; }
        let srcs = parse_srcs(&a);
        let ro = run_calls(&calls, &srcs);
        if !ro.finished_ok { return f; }
        // calls after a successful finish are misuse on a closed writer; the archive is what finish returned
        let bytes = match &ro.fin { Some(b) => b.clone(), None => return f };
        let r = catch(move || {
            let mut fails = vec![];
            let mut ar = match zip::ZipArchive::new(Cursor::new(bytes)) {
                Ok(a) => a,
                Err(e) => return vec![format!("finish() succeeded but the archive does not open: {}", cls_z(&e))],
            };
            if ar.comment() != &ro.comment[..] { fails.push("archive comment differs from the one set".to_string()); }
            if ar.len() != ro.expect.len() {
                fails.push(format!("archive has {} entries, {} creations succeeded", ar.len(), ro.expect.len()));
                return fails;
            }
            for (i, (name, m, plain, mode)) in ro.expect.iter().enumerate() {
                let pw = calls.iter().filter(|c| c.starts_with("sf,") || c.starts_with("sym,")).count();
                let _ = pw;
                let raw = ar.by_index_raw(i);
                let mut fr = match raw { Ok(f) => f, Err(e) => { fails.push(format!("entry {i}: {}", cls_z(&e))); continue; } };
                if fr.name().as_bytes() != &name[..] { fails.push(format!("entry {i}: name {:?} != {:?}", fr.name(), String::from_utf8_lossy(name))); }
                #[allow(deprecated)]
                if fr.compression().to_u16() != *m { fails.push(format!("entry {i}: method differs")); }
                if let Some(md) = mode { if fr.unix_mode() != Some(*md) { fails.push(format!("entry {i}: mode {:?} != {:o}", fr.unix_mode(), md)); } }
                if let Some(p) = plain {
                    if fr.size() != p.len() as u64 || fr.crc32() != crc32fast::hash(p) { fails.push(format!("entry {i}: declared size/crc differ from the bytes written")); }
                    // decode the raw bytes independently when the entry is not encrypted
                    let mut rawb = vec![];
                    use std::io::Read;
                    if fr.read_to_end(&mut rawb).is_ok() {
                        let enc = line_entry_encrypted(&calls, i);
                        if !enc {
                            let dec = if *m == 0 { Ok(rawb.clone()) } else { direct_decode(*m, &rawb) };
                            match dec { Ok(d) => if &d != p { fails.push(format!("entry {i}: stored data does not decode to the bytes written")); }, Err(_) => fails.push(format!("entry {i}: stored data does not decode")) }
                        }
                    }
                }
            }
            fails
        });
        match r {
            Ok(v) => for w in v { f.push(OracleFailure { what: w }); },
            Err(_) => f.push(OracleFailure { what: "panic while reading back the produced archive".into() }),
        }
        f
    }
}

/// Was the i-th successfully created entry started with a password? (approximation used only to skip
/// the plaintext comparison of encrypted payloads in the oracle: any password in the line disables it)
fn line_entry_encrypted(calls: &[String], _i: usize) -> bool {
    calls.iter().any(|c| (c.starts_with("sf,") || c.starts_with("sym,")) && !c.ends_with(",n") && c.split(',').last().map(|p| p != "n").unwrap_or(false))
}
