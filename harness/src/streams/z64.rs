//! `z64.*`: ZIP64 records with arbitrary 64-bit values through the serialiser/parser hooks, and
//! (thorough) real > 4 GiB archives over a sparse in-memory sink (C08).
use super::{GenOut, OracleFailure, Stream};
use crate::util::*;
use std::collections::BTreeMap;
use std::io::{Cursor, Read, Seek, SeekFrom, Write};
use zip::verif_hooks as vh;

pub struct Z64;

fn mk_file(us: u64, cs: u64, hs: u64, extra: Vec<u8>, name: Vec<u8>, m: u16, large: bool) -> vh::ZipFileData {
    #[allow(deprecated)]
    vh::ZipFileData {
        system: vh::System::Unix,
        version_made_by: 46,
        encrypted: false,
        using_data_descriptor: false,
        compression_method: zip::CompressionMethod::from_u16(m),
        compression_level: None,
        last_modified_time: zip::DateTime::default(),
        crc32: 0x12345678,
        compressed_size: cs,
        uncompressed_size: us,
        file_name: String::from_utf8_lossy(&name).into_owned(),
        file_name_raw: vec![],
        extra_field: extra,
        file_comment: String::new(),
        header_start: hs,
        central_header_start: 0,
        data_start: vh::AtomicU64::new(0),
        external_attributes: 0o100644 << 16,
        large_file: large,
        aes_mode: None,
    }
}

/// A sink that keeps small writes and treats large ones as zero-filled holes.
pub struct Sparse {
    pos: u64,
    len: u64,
    small: BTreeMap<u64, Vec<u8>>,
    /// also writes of 512..65535 bytes that are all zero and overwrite nothing become holes (`io::copy` moves a
    /// raw copy through an 8 KiB buffer)
    zero_holes: bool,
}
impl Sparse {
    pub fn new() -> Sparse { Sparse { pos: 0, len: 0, small: BTreeMap::new(), zero_holes: false } }
    pub fn zero_holes() -> Sparse { Sparse { pos: 0, len: 0, small: BTreeMap::new(), zero_holes: true } }
    fn overlaps(&self, s: u64, e: u64) -> bool {
        self.small.range(s..e).next().is_some()
            || self.small.range(..s).next_back().map(|(k, v)| *k + v.len() as u64 > s).unwrap_or(false)
    }
    /// The whole content in one zero-initialised allocation (the holes stay untouched zero pages of it).
    pub fn materialize(&self) -> Vec<u8> {
        let mut v = vec![0u8; self.len as usize];
        for (k, c) in &self.small { v[*k as usize..*k as usize + c.len()].copy_from_slice(c); }
        v
    }
}
impl Write for Sparse {
    fn write(&mut self, buf: &[u8]) -> std::io::Result<usize> {
        if self.zero_holes && buf.len() >= 512 && buf.len() < 65536 && buf.iter().all(|b| *b == 0) && !self.overlaps(self.pos, self.pos + buf.len() as u64) {
            // a hole
        } else if buf.len() < 65536 {
            // drop overlapped older chunks that start inside the new one (headers are rewritten field by field)
            let end = self.pos + buf.len() as u64;
            let keys: Vec<u64> = self.small.range(self.pos..end).map(|(k, _)| *k).collect();
            for k in keys {
                let old = self.small.remove(&k).unwrap();
                let oend = k + old.len() as u64;
                if oend > end { self.small.insert(end, old[(end - k) as usize..].to_vec()); }
            }
            // an older chunk that starts before and overlaps: split it
            if let Some((&k, old)) = self.small.range(..self.pos).next_back().map(|(k, v)| (k, v.clone())) {
                let oend = k + old.len() as u64;
                if oend > self.pos {
                    self.small.insert(k, old[..(self.pos - k) as usize].to_vec());
                    if oend > end { self.small.insert(end, old[(end - k) as usize..].to_vec()); }
                }
            }
            self.small.insert(self.pos, buf.to_vec());
        } else {
            debug_assert!(buf.iter().all(|b| *b == 0));
        }
        self.pos += buf.len() as u64;
        self.len = self.len.max(self.pos);
        Ok(buf.len())
    }
    fn flush(&mut self) -> std::io::Result<()> { Ok(()) }
}
impl Seek for Sparse {
    fn seek(&mut self, s: SeekFrom) -> std::io::Result<u64> {
        let t: i128 = match s { SeekFrom::Start(n) => n as i128, SeekFrom::End(o) => self.len as i128 + o as i128, SeekFrom::Current(o) => self.pos as i128 + o as i128 };
        if t < 0 { return Err(std::io::Error::new(std::io::ErrorKind::InvalidInput, "negative seek")); }
        self.pos = t as u64;
        Ok(self.pos)
    }
}
impl Read for Sparse {
    fn read(&mut self, buf: &mut [u8]) -> std::io::Result<usize> {
        if self.pos >= self.len { return Ok(0); }
        let n = ((self.len - self.pos) as usize).min(buf.len());
        for b in buf[..n].iter_mut() { *b = 0; }
        let (s, e) = (self.pos, self.pos + n as u64);
        let start_key = self.small.range(..=s).next_back().map(|(k, _)| *k).unwrap_or(s);
        for (k, v) in self.small.range(start_key..e) {
            let (cs, ce) = (*k, *k + v.len() as u64);
            let (os, oe) = (cs.max(s), ce.min(e));
            if os < oe { buf[(os - s) as usize..(oe - s) as usize].copy_from_slice(&v[(os - cs) as usize..(oe - cs) as usize]); }
        }
        self.pos += n as u64;
        Ok(n)
    }
}

fn write_zeros<W: Write>(w: &mut W, mut n: u64) -> std::io::Result<()> {
    let buf = vec![0u8; 1 << 20];
    while n > 0 {
        let k = n.min(buf.len() as u64) as usize;
        w.write_all(&buf[..k])?;
        n -= k as u64;
    }
    Ok(())
}

fn crc_zeros(mut n: u64) -> u32 {
    let buf = vec![0u8; 1 << 20];
    let mut h = crc32fast::Hasher::new();
    while n > 0 {
        let k = n.min(buf.len() as u64) as usize;
        h.update(&buf[..k]);
        n -= k as u64;
    }
    h.finalize()
}

/// `sizes`: entry sizes (all-zero stored content), `large`: per entry, `count`: extra empty directories.
fn big_scenario(sizes: &[u64], large: &[bool], dirs: u64, comment: &[u8], method: u16) -> String {
    let r = catch({
        let (sizes, large, comment) = (sizes.to_vec(), large.to_vec(), comment.to_vec());
        move || -> Result<String, String> {
            let mut w = zip::ZipWriter::new(Sparse::new());
            #[allow(deprecated)]
            let o = zip::write::FileOptions::default().compression_method(zip::CompressionMethod::from_u16(method)).last_modified_time(zip::DateTime::default());
            let mut expect_ok = true;
            for (i, (&sz, &lg)) in sizes.iter().zip(large.iter()).enumerate() {
                w.start_file(format!("f{i}"), o.large_file(lg)).map_err(|e| format!("start:{}", zerr_class(&e)))?;
                if let Err(e) = write_zeros(&mut w, sz) {
                    if sz > 0xFFFFFFFF && !lg { expect_ok = false; let _ = e; break; }
                    return Err(format!("write:{}", ioerr_class(&e)));
                }
                if sz > 0xFFFFFFFF && !lg { return Err("write past 4 GiB into a non-large entry succeeded".into()); }
            }
            if !expect_ok {
                return match w.finish() { Ok(_) => Err("finish() succeeded after a rejected >4GiB write".into()), Err(_) => Ok("rejected".into()) };
            }
            for d in 0..dirs { w.add_directory(format!("d{d}"), o).map_err(|e| format!("dir:{}", zerr_class(&e)))?; }
            w.set_raw_comment(comment.clone());
            let sink = w.finish().map_err(|e| format!("finish:{}", zerr_class(&e)))?;
            let mut a = zip::ZipArchive::new(sink).map_err(|e| format!("reopen:{}", zerr_class(&e)))?;
            if a.len() as u64 != sizes.len() as u64 + dirs { return Err(format!("count {} != {}", a.len(), sizes.len() as u64 + dirs)); }
            if a.comment() != &comment[..] { return Err("comment differs".into()); }
            for (i, &sz) in sizes.iter().enumerate() {
                let mut f = a.by_index(i).map_err(|e| format!("entry {i}: {}", zerr_class(&e)))?;
                if f.size() != sz || (method == 0 && f.compressed_size() != sz) { return Err(format!("entry {i}: size {} != {}", f.size(), sz)); }
                if f.crc32() != crc_zeros(sz) { return Err(format!("entry {i}: crc differs")); }
                let n = std::io::copy(&mut f, &mut std::io::sink()).map_err(|e| format!("entry {i} read: {}", ioerr_class(&e)))?;
                if n != sz { return Err(format!("entry {i}: read {n} bytes")); }
            }
            if dirs > 0 {
                let last = a.by_index(a.len() - 1).map_err(|e| format!("last dir: {}", zerr_class(&e)))?;
                if last.name() != format!("d{}/", dirs - 1) { return Err("last directory name differs".into()); }
            }
            Ok("roundtrip".into())
        }
    });
    match r { Ok(Ok(s)) => s, Ok(Err(e)) => format!("FAIL {e}"), Err(m) => format!("FAIL panic {m}") }
}


/// What the three readers must report for one entry of a `z64.pos` archive.
struct PosEntry { name: String, data: Vec<u8>, large: bool }

fn pos_entries(n: usize, large: u64, seed: u64) -> Vec<PosEntry> {
    let mut r = super::rng_for(seed, "z64.pos", 0);
    (0..n).map(|i| {
        let len = 1 + r.below(300) as usize;
        // non-zero, mildly compressible content (a wrapped offset that lands on zero fill or on another
        // entry's header cannot reproduce it)
        let alpha = r.bytes(7);
        let data: Vec<u8> = (0..len).map(|_| alpha[r.below(7) as usize] | 1).collect();
        PosEntry { name: format!("p{i}-{}", "x".repeat(r.below(9) as usize)), data, large: (large >> i) & 1 == 1 }
    }).collect()
}

/// Write `es` through the crate's writer over a sparse sink that was positioned on `start` BEFORE
/// `ZipWriter::new` (all recorded offsets are absolute positions of the sink, so `start` puts the first header
/// on any 32-bit boundary at no cost).  Returns the sink.
fn pos_write(es: &[PosEntry], start: u64, method: u16, comment: &[u8]) -> Result<Sparse, String> {
    let mut sink = Sparse::new();
    sink.seek(SeekFrom::Start(start)).map_err(|e| format!("seek:{}", ioerr_class(&e)))?;
    let mut w = zip::ZipWriter::new(sink);
    #[allow(deprecated)]
    let o = zip::write::FileOptions::default().compression_method(zip::CompressionMethod::from_u16(method)).last_modified_time(zip::DateTime::default());
    for e in es {
        w.start_file(e.name.clone(), o.large_file(e.large)).map_err(|x| format!("start {}:{}", e.name, zerr_class(&x)))?;
        w.write_all(&e.data).map_err(|x| format!("write {}:{}", e.name, ioerr_class(&x)))?;
    }
    w.set_raw_comment(comment.to_vec());
    w.finish().map_err(|x| format!("finish:{}", zerr_class(&x)))
}

/// The window `[start, len)` of the sink and the strict parser's view of it (offsets in the view are positions
/// in the window; + `start` = recorded value).
fn pos_strict(sink: &mut Sparse, start: u64) -> Result<crate::strict::StrictView, String> {
    let mut win = vec![];
    sink.seek(SeekFrom::Start(start)).map_err(|e| format!("seek:{}", ioerr_class(&e)))?;
    sink.read_to_end(&mut win).map_err(|e| format!("window:{}", ioerr_class(&e)))?;
    // a directory offset / entry count of EXACTLY the marker value without ZIP64 records is the literal value
    // (APPNOTE 4.4.24 reads it as a marker only "if an archive is in ZIP64 format"): a warning, not an error
    let o = crate::strict::StrictOpts { window_base: start, sentinel_requires_zip64: false, ..Default::default() };
    crate::strict::strict_check(&win, &o).map_err(|e| format!("strict parser: {}", e.join("; ")))
}

/// B2: a header offset / directory offset on every 32-bit boundary.  `which` = index of the entry whose local
/// header must sit exactly on `target` (`which` = number of entries: the central directory starts there).
/// Checked through ZipArchive, the stream reader (from `start`) and the independent strict parser: names,
/// contents, CRC, sizes and EVERY offset (a wrapped offset landing on another header does not pass).
fn pos_scenario(target: u64, which: usize, n: usize, large: u64, method: u16, seed: u64, comment: &[u8]) -> String {
    let comment = comment.to_vec();
    let r = catch(move || -> Result<String, String> {
        let es = pos_entries(n, large, seed);
        // dry run at 0: relative offsets from the strict parser (the compressed sizes are the encoder's business)
        let mut dry = pos_write(&es, 0, method, &comment)?;
        let dv = pos_strict(&mut dry, 0).map_err(|e| format!("dry run: {e}"))?;
        if dv.entries.len() != n { return Err(format!("dry run: {} entries", dv.entries.len())); }
        let rel: Vec<u64> = dv.entries.iter().map(|e| e.header_offset).chain(std::iter::once(dv.cd_offset)).collect();
        let start = target.checked_sub(rel[which]).ok_or("target below the relative offset")?;
        let mut sink = pos_write(&es, start, method, &comment)?;
        let total = sink.seek(SeekFrom::End(0)).unwrap();
        // (1) strict parser on the live window
        let sv = pos_strict(&mut sink, start)?;
        if sv.entries.len() != n { return Err(format!("strict parser: {} entries, {n} written", sv.entries.len())); }
        if sv.comment != comment { return Err("strict parser: comment differs".into()); }
        let cd_abs = sv.cd_offset + start;
        if cd_abs != start + rel[n] { return Err(format!("central directory at {cd_abs}, expected {}", start + rel[n])); }
        if sv.zip64 != (cd_abs > 0xFFFF_FFFF) { return Err(format!("ZIP64 end records present = {}, directory offset {cd_abs}", sv.zip64)); }
        for (i, (e, v)) in es.iter().zip(sv.entries.iter()).enumerate() {
            let abs = v.header_offset + start;
            if abs != start + rel[i] { return Err(format!("strict parser: entry {i} header at {abs}, expected {}", start + rel[i])); }
            if v.name != e.name.as_bytes() || v.local_name != e.name.as_bytes() { return Err(format!("strict parser: entry {i} name differs")); }
            if v.uncompressed_size != e.data.len() as u64 || v.crc != crc32fast::hash(&e.data) { return Err(format!("strict parser: entry {i} size/crc differs")); }
            if v.decoded != Some((crc32fast::hash(&e.data), e.data.len() as u64)) { return Err(format!("strict parser: entry {i} does not decode to the written bytes")); }
            // the ZIP64 record carries the offset exactly when it does not fit (D8: >= the marker value)
            let z: Vec<&(u16, Vec<u8>)> = v.central_extra.iter().filter(|r| r.0 == 1).collect();
            if (abs >= 0xFFFF_FFFF) != (z.len() == 1) { return Err(format!("entry {i} at {abs}: {} central ZIP64 records", z.len())); }
            if abs >= 0xFFFF_FFFF && z[0].1 != abs.to_le_bytes() { return Err(format!("entry {i}: central ZIP64 record {} does not hold the offset {abs}", hex(&z[0].1))); }
        }
        if which < n && sv.entries[which].header_offset + start != target { return Err("target missed".into()); }
        if which == n && cd_abs != target { return Err("target missed".into()); }
        // (2) the stream reader, from `start`
        sink.seek(SeekFrom::Start(start)).unwrap();
        for (i, e) in es.iter().enumerate() {
            let mut f = match zip::read::read_zipfile_from_stream(&mut sink) {
                Ok(Some(f)) => f,
                Ok(None) => return Err(format!("stream reader: ends before entry {i}")),
                Err(x) => return Err(format!("stream reader: entry {i}: {}", zerr_class(&x))),
            };
            if f.name() != e.name || f.size() != e.data.len() as u64 { return Err(format!("stream reader: entry {i} name/size differs")); }
            let mut got = vec![];
            f.read_to_end(&mut got).map_err(|x| format!("stream reader: entry {i} read: {}", ioerr_class(&x)))?;
            if got != e.data { return Err(format!("stream reader: entry {i} content differs")); }
        }
        match zip::read::read_zipfile_from_stream(&mut sink) {
            Ok(None) => {}
            Ok(Some(_)) => return Err("stream reader: an entry after the last".into()),
            Err(x) => return Err(format!("stream reader: after the last entry: {}", zerr_class(&x))),
        }
        // (3) the seekable reader
        let mut a = zip::ZipArchive::new(sink).map_err(|x| format!("reopen:{}", zerr_class(&x)))?;
        if a.len() != n { return Err(format!("count {} != {n}", a.len())); }
        if a.comment() != &comment[..] { return Err("comment differs".into()); }
        if a.offset() != 0 { return Err(format!("archive offset {} (all offsets are absolute)", a.offset())); }
        let mut prev_central = start + rel[n];
        for (i, e) in es.iter().enumerate() {
            let mut f = a.by_index(i).map_err(|x| format!("entry {i}: {}", zerr_class(&x)))?;
            if f.name() != e.name { return Err(format!("entry {i}: name `{}` != `{}`", f.name(), e.name)); }
            if f.header_start() != start + rel[i] { return Err(format!("entry {i}: header_start {} != {}", f.header_start(), start + rel[i])); }
            let ds = start + rel[i] + 30 + e.name.len() as u64 + if e.large { 20 } else { 0 };
            if f.data_start() != ds { return Err(format!("entry {i}: data_start {} != {ds}", f.data_start())); }
            if ds + f.compressed_size() != start + rel[i + 1] { return Err(format!("entry {i}: data end {} != next record {}", ds + f.compressed_size(), start + rel[i + 1])); }
            if f.central_header_start() != prev_central { return Err(format!("entry {i}: central_header_start {} != {prev_central}", f.central_header_start())); }
            prev_central += 46 + e.name.len() as u64 + sv.entries[i].central_extra.iter().map(|r| 4 + r.1.len() as u64).sum::<u64>();
            if f.size() != e.data.len() as u64 || f.crc32() != crc32fast::hash(&e.data) { return Err(format!("entry {i}: size/crc differs")); }
            let mut got = vec![];
            f.read_to_end(&mut got).map_err(|x| format!("entry {i} read: {}", ioerr_class(&x)))?;
            if got != e.data { return Err(format!("entry {i}: content differs")); }
        }
        let _ = total;
        Ok("roundtrip".into())
    });
    match r { Ok(Ok(s)) => s, Ok(Err(e)) => format!("FAIL {e}"), Err(m) => format!("FAIL panic {m}") }
}

/// The COMPRESSED-size guard of an entry not declared large: Deflate level 0 emits stored blocks (5 bytes of
/// overhead per 65535 bytes), so `usize` zero bytes just below 4 GiB compress to MORE than 0xFFFFFFFF bytes
/// while the uncompressed counter never trips.  Closing the entry must fail; whatever the caller does next
/// (`extra` more bytes through `write`, then `finish`), no call may report success for a corrupt archive.
fn cguard_scenario(usize_: u64, extra: u64) -> String {
    let r = catch(move || -> Result<String, String> {
        let mut w = zip::ZipWriter::new(Sparse::new());
        let o = zip::write::FileOptions::default().compression_method(zip::CompressionMethod::Deflated).compression_level(Some(0)).last_modified_time(zip::DateTime::default());
        w.start_file("f0", o).map_err(|e| format!("start:{}", zerr_class(&e)))?;
        write_zeros(&mut w, usize_).map_err(|e| format!("write:{}", ioerr_class(&e)))?;
        // closing the entry: must be refused (compressed size does not fit 32 bits, no ZIP64 record was reserved)
        let first = w.start_file("f1", o.compression_method(zip::CompressionMethod::Stored).compression_level(None));
        if first.is_ok() { return Err("closing an entry whose compressed size exceeds 0xFFFFFFFF succeeded without large_file".into()); }
        let mut trace = String::from("close=err");
        if extra > 0 {
            match write_zeros(&mut w, extra) { Ok(()) => trace += " write=ok", Err(_) => trace += " write=err" }
        }
        match w.finish() {
            Err(_) => { trace += " finish=err"; Ok(trace) }
            Ok(sink) => {
                trace += " finish=ok";
                // a success must be a readable archive whose entry is the data that was written
                let mut a = zip::ZipArchive::new(sink).map_err(|e| format!("{trace}: finish() reported success but the archive does not open: {}", zerr_class(&e)))?;
                let mut f = a.by_index(0).map_err(|e| format!("{trace}: entry 0: {}", zerr_class(&e)))?;
                let n = std::io::copy(&mut f, &mut std::io::sink()).map_err(|e| format!("{trace}: finish() reported success but entry 0 does not read back: {}", ioerr_class(&e)))?;
                if n != usize_ + extra { return Err(format!("{trace}: entry 0 reads {n} bytes, {} were written", usize_ + extra)); }
                Ok(trace)
            }
        }
    });
    match r { Ok(Ok(s)) => s, Ok(Err(e)) => format!("FAIL {e}"), Err(m) => format!("FAIL panic {m}") }
}

// ---------------------------------------------------------------------------------------------
// raw copies of ZIP64-sized entries (C14 / C08): sparse source archive -> sparse sink

const M32: u64 = 0xFFFF_FFFF;
pub const RC_SRC_NAME: &[u8] = b"src.bin";

fn p16(v: &mut Vec<u8>, x: u64) { v.extend_from_slice(&(x as u16).to_le_bytes()); }
fn p32(v: &mut Vec<u8>, x: u64) { v.extend_from_slice(&(x as u32).to_le_bytes()); }
fn p64(v: &mut Vec<u8>, x: u64) { v.extend_from_slice(&x.to_le_bytes()); }

/// A one-entry archive of an independent producer, laid out from APPNOTE 4.3.7 / 4.3.12 / 4.3.14-16 / 4.5.3 (not
/// with the crate's writer): entry `src.bin`, method `m`, DOS time 1980-01-01 00:00, made by Unix with mode
/// 0o100644, declared CRC `crc`, `cs` stored bytes that are a HOLE of the sparse reader (all zero) and declared
/// uncompressed size `us`.  A size that does not fit 32 bits or equals the marker 0xFFFFFFFF is carried by the
/// ZIP64 extended information record (local: both sizes; central: the marked fields, order uncompressed,
/// compressed); ZIP64 end record + locator when the directory offset needs them.
fn rc_sparse_source(cs: u64, us: u64, m: u16, crc: u32) -> std::io::Result<Sparse> {
    let z = cs >= M32 || us >= M32;
    let mut s = Sparse::new();
    let mut h = vec![];
    p32(&mut h, 0x04034b50); p16(&mut h, if z { 45 } else { 20 }); p16(&mut h, 0); p16(&mut h, m as u64); p16(&mut h, 0); p16(&mut h, 0x21);
    p32(&mut h, crc as u64);
    if z { p32(&mut h, M32); p32(&mut h, M32); } else { p32(&mut h, cs); p32(&mut h, us); }
    p16(&mut h, RC_SRC_NAME.len() as u64); p16(&mut h, if z { 20 } else { 0 });
    h.extend_from_slice(RC_SRC_NAME);
    if z { p16(&mut h, 1); p16(&mut h, 16); p64(&mut h, us); p64(&mut h, cs); }
    s.write_all(&h)?;
    let cd_off = h.len() as u64 + cs;
    s.seek(SeekFrom::Start(cd_off))?;
    let mut x = vec![];
    if us >= M32 { p64(&mut x, us); }
    if cs >= M32 { p64(&mut x, cs); }
    let mut c = vec![];
    p32(&mut c, 0x02014b50); p16(&mut c, 0x0300 | 45); p16(&mut c, if z { 45 } else { 20 }); p16(&mut c, 0); p16(&mut c, m as u64); p16(&mut c, 0); p16(&mut c, 0x21);
    p32(&mut c, crc as u64); p32(&mut c, cs.min(M32)); p32(&mut c, us.min(M32));
    p16(&mut c, RC_SRC_NAME.len() as u64); p16(&mut c, if x.is_empty() { 0 } else { 4 + x.len() as u64 }); p16(&mut c, 0); p16(&mut c, 0); p16(&mut c, 0);
    p32(&mut c, 0o100644 << 16); p32(&mut c, 0);
    c.extend_from_slice(RC_SRC_NAME);
    if !x.is_empty() { p16(&mut c, 1); p16(&mut c, x.len() as u64); c.extend_from_slice(&x); }
    let cd_size = c.len() as u64;
    if cd_off >= M32 {
        p32(&mut c, 0x06064b50); p64(&mut c, 44); p16(&mut c, 45); p16(&mut c, 45); p32(&mut c, 0); p32(&mut c, 0);
        p64(&mut c, 1); p64(&mut c, 1); p64(&mut c, cd_size); p64(&mut c, cd_off);
        p32(&mut c, 0x07064b50); p32(&mut c, 0); p64(&mut c, cd_off + cd_size); p32(&mut c, 1);
    }
    p32(&mut c, 0x06054b50); p16(&mut c, 0); p16(&mut c, 0); p16(&mut c, 1); p16(&mut c, 1); p32(&mut c, cd_size); p32(&mut c, cd_off.min(M32)); p16(&mut c, 0);
    s.write_all(&c)?;
    s.seek(SeekFrom::Start(0))?;
    Ok(s)
}

/// What one raw copy of a ZIP64-sized entry showed.
#[derive(Clone, Default)]
pub struct RcBig {
    /// the destination's local header (fixed part + name + extra field) as it stands after the copy
    pub hdr: Vec<u8>,
    /// oracle findings (empty = the clauses hold)
    pub fails: Vec<String>,
}

static RC_MEMO: std::sync::Mutex<Option<std::collections::HashMap<String, RcBig>>> = std::sync::Mutex::new(None);

/// `z64.rawcopy cs= us= m= crc= name=same|<hex>`: the source entry is copied with `raw_copy_file` /
/// `raw_copy_file_rename` into a sparse sink and the archive is finished.  Clauses (implementation alone):
/// the copy and finish() succeed; the destination's local header holds, per the FORMAT (APPNOTE 4.4.8/4.4.9,
/// 4.5.3), the ZIP64 extended information record with both sizes exactly when a size does not fit 32 bits or
/// equals the marker value 0xFFFFFFFF (then both 32-bit fields hold the marker), else the literal sizes; CRC,
/// method, sizes, time and mode equal the source's; the data are exactly `cs` bytes and the central directory
/// follows them; `ZipArchive` and the independent strict parser read the result back (CRC of the content
/// verified for stored entries).
pub fn rc_big_scenario(cs: u64, us: u64, m: u16, crc: u32, name: &str) -> RcBig {
    let key = format!("{cs}/{us}/{m}/{crc}/{name}");
    if let Ok(g) = RC_MEMO.lock() { if let Some(r) = g.as_ref().and_then(|h| h.get(&key)) { return r.clone(); } }
    let name_owned = name.to_string();
    let r = catch(move || -> RcBig {
        let mut out = RcBig::default();
        let want_name: Vec<u8> = if name_owned == "same" { RC_SRC_NAME.to_vec() } else { unhex(&name_owned).unwrap_or_default() };
        let src = match rc_sparse_source(cs, us, m, crc) { Ok(s) => s, Err(e) => { out.fails.push(format!("building the source: {}", ioerr_class(&e))); return out; } };
        let mut a = match zip::ZipArchive::new(src) { Ok(a) => a, Err(e) => { out.fails.push(format!("the source archive does not open: {}", zerr_class(&e))); return out; } };
        let mut w = zip::ZipWriter::new(Sparse::zero_holes());
        let rc = {
            let f = match a.by_index_raw(0) { Ok(f) => f, Err(e) => { out.fails.push(format!("source entry: {}", zerr_class(&e))); return out; } };
            if f.compressed_size() != cs || f.size() != us || f.crc32() != crc { out.fails.push(format!("the source entry reads as {} / {} bytes, crc {:08x}; built with {cs} / {us}, {crc:08x}", f.compressed_size(), f.size(), f.crc32())); return out; }
            if name_owned == "same" { w.raw_copy_file(f) } else { w.raw_copy_file_rename(f, String::from_utf8_lossy(&want_name).into_owned()) }
        };
        let fin = w.finish();
        if let Err(e) = &rc { out.fails.push(format!("raw copy of an entry of {cs} stored / {us} uncompressed bytes failed: {}", zerr_class(e))); }
        let mut sink = match fin {
            Ok(s) => s,
            Err(e) => { out.fails.push(format!("finish() after the raw copy failed: {}", zerr_class(&e))); return out; }
        };
        // ---- the destination's local header, read from the sink
        let total = sink.seek(SeekFrom::End(0)).unwrap_or(0);
        let mut fixed = [0u8; 30];
        if sink.seek(SeekFrom::Start(0)).is_err() || sink.read_exact(&mut fixed).is_err() { out.fails.push("the sink holds no local header".into()); return out; }
        let (nl, xl) = (u16::from_le_bytes([fixed[26], fixed[27]]) as usize, u16::from_le_bytes([fixed[28], fixed[29]]) as usize);
        let mut rest = vec![0u8; nl + xl];
        if sink.read_exact(&mut rest).is_err() { out.fails.push("the local header runs past the end of the sink".into()); return out; }
        out.hdr = fixed.to_vec(); out.hdr.extend_from_slice(&rest);
        if rc.is_err() { return out; }
        let g32 = |o: usize| u32::from_le_bytes([fixed[o], fixed[o + 1], fixed[o + 2], fixed[o + 3]]) as u64;
        let (lcs, lus) = (g32(18), g32(22));
        let z: Vec<(u16, Vec<u8>)> = match crate::strict::parse_extra(&rest[nl..]) { Ok(r) => r.into_iter().filter(|r| r.0 == 1).collect(), Err(e) => { out.fails.push(format!("local extra field: {e}")); vec![] } };
        if cs >= M32 || us >= M32 {
            // a size does not fit, or equals the marker: its field holds the marker (the other one the marker or its
            // value) and the record holds both sizes
            let fld = |v: u64, got: u64| if v >= M32 { got == M32 } else { got == v || got == M32 };
            if !fld(cs, lcs) || !fld(us, lus) { out.fails.push(format!("sizes {cs} / {us}: the local 32-bit size fields hold {lcs} / {lus}")); }
            let mut want = vec![]; p64(&mut want, us); p64(&mut want, cs);
            if z.len() != 1 { out.fails.push(format!("sizes {cs} / {us}: a size does not fit 32 bits or equals the marker 0xFFFFFFFF, so the local header needs the ZIP64 extended information record; it has {}", z.len())); }
            else if z[0].1 != want { out.fails.push(format!("local ZIP64 record {} does not hold the sizes {us} / {cs}", hex(&z[0].1))); }
        } else if lcs != cs || lus != us {
            out.fails.push(format!("local size fields {lcs} / {lus}, the source entry has {cs} / {us}"));
        }
        if &rest[..nl] != &want_name[..] { out.fails.push("the local header's name is not the requested one".into()); }
        let data_start = out.hdr.len() as u64;
        // ---- the independent strict parser on the whole sink (holes are untouched zero pages; nothing is decoded)
        {
            let img = sink.materialize();
            let rep = crate::strict::strict_parse(&img, &crate::strict::StrictOpts { decode: false, ..Default::default() });
            for e in &rep.errors { out.fails.push(format!("strict parser: {e}")); }
            match &rep.view {
                None => out.fails.push("strict parser: no view of the result".into()),
                Some(v) => {
                    if v.entries.len() != 1 { out.fails.push(format!("strict parser: {} entries", v.entries.len())); }
                    else {
                        let e = &v.entries[0];
                        if e.name != want_name || e.method != m || e.crc != crc || e.compressed_size != cs || e.uncompressed_size != us || e.dos_date != 0x21 || e.dos_time != 0 || e.external_attrs >> 16 != 0o100644 {
                            out.fails.push(format!("strict parser: the copy's central record (method {}, crc {:08x}, sizes {} / {}, date {:04x}, attributes {:o}) differs from the source's (method {m}, crc {crc:08x}, sizes {cs} / {us}, date 0021, mode 100644)", e.method, e.crc, e.compressed_size, e.uncompressed_size, e.dos_date, e.external_attrs >> 16));
                        }
                        if e.data_start != data_start || e.data_end != v.cd_offset { out.fails.push(format!("strict parser: data [{}, {}) but the header ends at {data_start} and the directory starts at {}", e.data_start, e.data_end, v.cd_offset)); }
                    }
                }
            }
        }
        // ---- the crate's reader
        if sink.seek(SeekFrom::Start(0)).is_err() { return out; }
        let mut d = match zip::ZipArchive::new(sink) { Ok(d) => d, Err(e) => { out.fails.push(format!("the result does not open: {}", zerr_class(&e))); return out; } };
        if d.len() != 1 { out.fails.push(format!("the result has {} entries", d.len())); return out; }
        {
            let mut f = match d.by_index_raw(0) { Ok(f) => f, Err(e) => { out.fails.push(format!("destination entry: {}", zerr_class(&e))); return out; } };
            #[allow(deprecated)]
            let dm = f.compression().to_u16();
            let t = f.last_modified();
            if f.name().as_bytes() != &want_name[..] || dm != m || f.crc32() != crc || f.compressed_size() != cs || f.size() != us || f.unix_mode() != Some(0o100644)
                || (t.year(), t.month(), t.day(), t.hour(), t.minute(), t.second()) != (1980, 1, 1, 0, 0, 0) {
                out.fails.push(format!("the copy reads back as method {dm}, crc {:08x}, sizes {} / {}, mode {:?}; the source has method {m}, crc {crc:08x}, sizes {cs} / {us}, mode 100644", f.crc32(), f.compressed_size(), f.size(), f.unix_mode()));
            }
            if f.data_start() != data_start { out.fails.push(format!("data_start {} != end of the local header {data_start}", f.data_start())); }
            match std::io::copy(&mut f, &mut ZeroCheck) {
                Ok(n) if n == cs => {}
                Ok(n) => out.fails.push(format!("the copy's raw data are {n} bytes, the source has {cs}")),
                Err(e) => out.fails.push(format!("reading the copy's raw data: {}", ioerr_class(&e))),
            }
        }
        if m == 0 && cs == us {
            // a stored entry: the decoding reader checks the CRC of the content
            match d.by_index(0) {
                Err(e) => out.fails.push(format!("destination entry (decoding): {}", zerr_class(&e))),
                Ok(mut f) => match std::io::copy(&mut f, &mut std::io::sink()) {
                    Ok(n) if n == us => {}
                    Ok(n) => out.fails.push(format!("the copy decodes to {n} bytes, {us} expected")),
                    Err(e) => out.fails.push(format!("reading the copy: {}", ioerr_class(&e))),
                },
            }
        }
        let _ = total;
        out
    });
    let r = match r { Ok(r) => r, Err(m) => RcBig { hdr: vec![], fails: vec![format!("panic {m}")] } };
    if let Ok(mut g) = RC_MEMO.lock() { g.get_or_insert_with(Default::default).insert(key, r.clone()); }
    r
}

/// a writer that insists on zero bytes (the source's data are a hole)
struct ZeroCheck;
impl Write for ZeroCheck {
    fn write(&mut self, buf: &[u8]) -> std::io::Result<usize> {
        if buf.iter().any(|b| *b != 0) { return Err(std::io::Error::new(std::io::ErrorKind::InvalidData, "non-zero byte in the copied data")); }
        Ok(buf.len())
    }
    fn flush(&mut self) -> std::io::Result<()> { Ok(()) }
}

/// The `z64.rawcopy` lines of one run (shared by the z64 and rawcopy streams).  T = 2^32; the marker is T-1.
pub fn rc_big_lines(tier: &str) -> Vec<(String, String)> {
    let t = 1u64 << 32;
    let mut v: Vec<(String, String)> = vec![];
    let renamed = hex(b"copy/renamed.bin");
    let mut k = 0usize;
    let mut push = |v: &mut Vec<(String, String)>, class: &str, cs: u64, us: u64, m: u16| {
        k += 1;
        // stored entries declare the CRC-32 of their `cs` zero bytes (the decoding reader verifies it), the others any
        let crc = if m == 0 && cs == us { crc_zeros(cs) } else { 0x1234_5678 };
        v.push((class.to_string(), format!("z64.rawcopy cs={cs} us={us} m={m} crc={crc} name={}", if k % 2 == 0 { "same" } else { &renamed })));
    };
    // a huge UNCOMPRESSED size costs nothing (raw copy never decodes): every boundary value, with a small compressed size
    for us in [t - 2, t - 1, t, t + 1] { push(&mut v, "rawcopy.big-usize", 5, us, 8); }
    if tier == "thorough" {
        for cs in [t - 2, t - 1, t, t + 1] {
            push(&mut v, "rawcopy.big-csize", cs, 5, 95);
            for us in [t - 2, t - 1, t, t + 1] { push(&mut v, "rawcopy.big-both", cs, us, if cs == us { 0 } else { 95 }); }
        }
    } else {
        // 4 GiB holes through io::copy's 8 KiB buffer: three per run
        push(&mut v, "rawcopy.big-csize", t, 5, 95);          // only the COMPRESSED size needs ZIP64
        push(&mut v, "rawcopy.big-csize", t - 1, 7, 95);      // ... equals the marker
        push(&mut v, "rawcopy.big-both", t - 2, t - 2, 0);    // the largest stored entry that needs none; CRC verified
    }
    v
}

const EDGE: [u64; 14] = [0, 1, 0xFFFE, 0xFFFF, 0x10000, 0xFFFFFFFE, 0xFFFFFFFF, 0x100000000, 0x100000001, 0x140000000, 0x7FFFFFFFFFFFFFFF, 0xFFFFFFFFFFFFFFFE, 0xFFFFFFFFFFFFFFFF, 12345];

impl Stream for Z64 {
    fn name(&self) -> &'static str { "z64" }

    fn gen(&self, seed: u64, tier: &str) -> GenOut {
        let mut g = GenOut::default();
        g.rule = "z64.central: all triples of boundary values (0, 2^16, 2^32 neighbours, 5 GiB, 2^63, 2^64 neighbours) for (usize, csize, header offset) + random 64-bit triples, with and without further extra data; z64.end: boundary/random (count, size, offset); z64.local: local header with/without large_file; z64.pos (oracle only): the sparse sink is positioned before ZipWriter::new so that a local header or the central directory sits exactly on 2^32-2..2^32+1 / 5 GiB (large_file on/off, stored/deflated non-zero contents; ZipArchive + stream reader + independent strict parser; names, contents and every offset checked); z64.rawcopy: raw copies of entries whose compressed / uncompressed size is 2^32-2 .. 2^32+1 (every value with a small other size, stored entries with both; thorough: all 16 pairs) from a sparse source archive laid out by hand into a sparse sink - model: the local header Model.rawCopy emits; oracle: copy and finish succeed, the local ZIP64 record is present exactly when the FORMAT needs it (a size >= 0xFFFFFFFF), metadata equal the source's, ZipArchive and the strict parser read the result; z64.big (oracle only): real archives over a sparse sink with entries of 2^32-2..2^32+1 and 5 GiB bytes, >65535 entries, with/without large_file and comment. non-trivial = some field needs ZIP64".into();
        for &us in EDGE.iter() { for &cs in EDGE.iter() { for &hs in EDGE.iter() {
            g.push("central.edge", format!("z64.central us={us} cs={cs} hs={hs} extra=- name=61 m=0"));
        }}}
        let mut r = super::rng_for(seed, "z64", 0);
        let n = if tier == "thorough" { 400_000 } else { 40_000 };
        for _ in 0..n {
            let pickv = |r: &mut crate::prng::Rng| -> u64 { match r.below(4) { 0 => *r.pick(&EDGE), 1 => r.below(1 << 33), 2 => 0xFFFFFFFF - 2 + r.below(5), _ => r.next() } };
            let (us, cs, hs) = (pickv(&mut r), pickv(&mut r), pickv(&mut r));
            let extra = if r.chance(1, 3) { "fecaad0300aabbcc" } else { "-" };
            let m = *r.pick(&[0u16, 8, 12, 93]);
            g.push("central.random", format!("z64.central us={us} cs={cs} hs={hs} extra={extra} name=6e616d65 m={m}"));
        }
        for &a in EDGE.iter() { for &b in EDGE.iter() {
            g.push("end.edge", format!("z64.end n={a} size={b} off={}", a / 2));
            g.push("local.edge", format!("z64.local us={a} cs={b} name=61 m=0 large=1"));
            g.push("local.edge", format!("z64.local us={a} cs={b} name=61 m=8 large=0"));
        }}
        // tier "quickx" = a further seed of the quick tier (bin/check): the deterministic sparse-sink scenarios below
        // would only be repeated, so they run with the base seed alone
        let base = tier != "quickx";
        // entry-count thresholds on every run (empty directories are cheap)
        for dirs in [65534u64, 65535, 65536, 65537] {
            if base && (tier == "thorough" || dirs == 65536 || dirs == 65535) { g.push("big.count", format!("z64.big sizes=- large=- dirs={dirs} comment=636f6d")); }
        }
        // the 4 GiB guard of an entry not declared large, with a compressing method (the compressed stream stays
        // tiny, so only the uncompressed byte counter can refuse): the last write crosses the limit, then finish
        if base { g.push("big.guard", format!("z64.big sizes={} large=0 dirs=0 comment=- method=93", 1u64 << 32)); }
        if base && tier != "thorough" {
            let t = 1u64 << 32;
            // a central directory pushed past 4 GiB by entries that are each small and not declared large: only the
            // directory OFFSET needs ZIP64 (end record + locator), no entry does
            g.push("big.cdoffset", format!("z64.big sizes={},{} large=0,0 dirs=0 comment=78", 3 * (1u64 << 30), (1u64 << 30) + (1 << 20)));
            // an entry of exactly the marker value next to an entry whose header offset needs ZIP64 (D8), declared large
            g.push("big.offset", format!("z64.big sizes={},{} large=1,0 dirs=1 comment=-", t, t - 1));
        }
        if tier == "thorough" {
            g.push("big.guard", format!("z64.big sizes={} large=0 dirs=0 comment=- method=8", (1u64 << 32) + 5));
            g.push("big.guard", format!("z64.big sizes={} large=1 dirs=0 comment=- method=93", (1u64 << 32) + 5));
            let t = 1u64 << 32;
            for &sz in &[t - 2, t - 1, t, t + 1, 5 * (1u64 << 30)] {
                for lg in [0, 1] {
                    g.push("big.size", format!("z64.big sizes={sz} large={lg} dirs=0 comment=-"));
                    // second entry behind it: its header offset needs ZIP64; exact-marker size next to it (D8)
                    g.push("big.offset", format!("z64.big sizes={sz},{} large={lg},0 dirs=1 comment=78", t - 1));
                }
            }
        }
        // B2: the sink is positioned before ZipWriter::new, so that the local header of entry `which` (or the
        // central directory, which = n) sits exactly on 2^32-2 .. 2^32+1 / 5 GiB; small NON-ZERO stored and
        // deflated entries, large_file on/off per entry; all three readers, names, contents and offsets checked
        {
            let t = 1u64 << 32;
            let mut r = super::rng_for(seed, "z64.pos", 1);
            for &target in &[t - 2, t - 1, t, t + 1, 5 * (1u64 << 30)] {
                for which in 0..=3usize { for method in [0u16, 8] { for lg in [0u64, 7, 8] {
                    let large = if lg == 8 { r.below(8) } else { lg };
                    let comment = if r.chance(1, 2) { "-" } else { "706f73" };
                    g.push("pos.boundary", format!("z64.pos target={target} which={which} n=3 large={large} method={method} seed={} comment={comment}", r.below(1 << 20)));
                }}}
            }
            for _ in 0..(if tier == "thorough" { 2000 } else { 100 }) {
                let n = 1 + r.below(5) as usize;
                let target = match r.below(3) { 0 => t - 40 + r.below(80), 1 => r.below(1 << 40), _ => 0xFFFF_FFFF - 2 + r.below(5) };
                g.push("pos.random", format!("z64.pos target={} which={} n={n} large={} method={} seed={} comment=-", target.max(1 << 20), r.below(n as u64 + 1), r.below(1 << n), *r.pick(&[0u16, 8]), r.below(1 << 20)));
            }
        }
        // raw copies of ZIP64-sized entries from a sparse source archive into a sparse sink (deterministic)
        if base { for (class, line) in rc_big_lines(tier) { g.push(&class, line); } }
        // the COMPRESSED-size guard (Deflate level 0 = stored blocks: 4 GiB - 100000 zero bytes compress to more
        // than 0xFFFFFFFF bytes); afterwards the caller keeps writing and finishes
        if tier == "thorough" || tier == "search" {
            for extra in [0u64, 1, 40, 100000] { g.push("big.cguard", format!("z64.cguard usize={} extra={extra}", (1u64 << 32) - 100000)); }
        }
        g
    }

    fn run(&self, line: &str) -> String {
        let (op, a) = parse_line(line);
        let n = |k: &str| get_u64(&a, k).unwrap_or(0);
        match op.as_str() {
            "z64.central" => {
                let f = mk_file(n("us"), n("cs"), n("hs"), get_hex(&a, "extra").unwrap_or_default(), get_hex(&a, "name").unwrap_or_default(), n("m") as u16, false);
                let r = catch(move || {
                    let mut v = vec![];
                    match zip::write::verif_hooks::write_central_directory_header(&mut v, &f) {
                        Err(e) => zerr_class(&e).replace(' ', ":"),
                        Ok(()) => {
                            let parsed = match vh::central_header_to_zip_file(&mut Cursor::new(v.clone()), 0) {
                                Ok(g) => format!("ok us={} cs={} hs={} extra={} vn={}", g.uncompressed_size, g.compressed_size, g.header_start, hex(&g.extra_field), f.version_needed()),
                                Err(e) => zerr_class(&e).replace(' ', ":"),
                            };
                            format!("bytes={} parsed={}", hex(&v), parsed)
                        }
                    }
                });
                r.unwrap_or_else(|_| "panic".into())
            }
            "z64.local" => {
                let f = mk_file(n("us"), n("cs"), 0, vec![], get_hex(&a, "name").unwrap_or_default(), n("m") as u16, a.get("large").map(|s| s == "1").unwrap_or(false));
                let r = catch(move || {
                    let mut v = vec![];
                    match zip::write::verif_hooks::write_local_file_header(&mut v, &f) {
                        Err(e) => zerr_class(&e).replace(' ', ":"),
                        Ok(()) => format!("bytes={}", hex(&v)),
                    }
                });
                r.unwrap_or_else(|_| "panic".into())
            }
            "z64.end" => {
                let (cnt, size, off) = (n("n"), n("size"), n("off"));
                let r = catch(move || {
                    let mut v = vec![];
                    let e = vh::Zip64CentralDirectoryEnd { version_made_by: 46, version_needed_to_extract: 46, disk_number: 0, disk_with_central_directory: 0, number_of_files_on_this_disk: cnt, number_of_files: cnt, central_directory_size: size, central_directory_offset: off };
                    e.write(&mut v).unwrap();
                    let l = vh::Zip64CentralDirectoryEndLocator { disk_with_central_directory: 0, end_of_central_directory_offset: off.wrapping_add(size), number_of_disks: 1 };
                    l.write(&mut v).unwrap();
                    let p1 = match vh::Zip64CentralDirectoryEnd::find_and_parse(&mut Cursor::new(v.clone()), 0, 0) {
                        Ok((g, ao)) => format!("ok n={} size={} off={} ao={}", g.number_of_files, g.central_directory_size, g.central_directory_offset, ao),
                        Err(e) => zerr_class(&e).replace(' ', ":"),
                    };
                    let mut c = Cursor::new(v.clone());
                    c.set_position(56);
                    let p2 = match vh::Zip64CentralDirectoryEndLocator::parse(&mut c) {
                        Ok(l) => format!("ok off={} disks={}", l.end_of_central_directory_offset, l.number_of_disks),
                        Err(e) => zerr_class(&e).replace(' ', ":"),
                    };
                    format!("bytes={} end={} loc={}", hex(&v), p1, p2)
                });
                r.unwrap_or_else(|_| "panic".into())
            }
            "z64.big" | "z64.cguard" | "z64.pos" => "oracle-only".into(),
            "z64.rawcopy" => {
                let r = rc_big_scenario(n("cs"), n("us"), n("m") as u16, n("crc") as u32, a.get("name").map(|s| s.as_str()).unwrap_or("same"));
                format!("hdr={}", hex(&r.hdr))
            }
            _ => "bad-op".into(),
        }
    }

    fn nontrivial(&self, line: &str, _resp: &str) -> bool {
        let (_, a) = parse_line(line);
        ["us", "cs", "hs", "size", "off"].iter().any(|k| get_u64(&a, k).map(|v| v >= 0xFFFFFFFF).unwrap_or(false)) || line.starts_with("z64.big") || line.starts_with("z64.cguard") || line.starts_with("z64.pos") || line.starts_with("z64.rawcopy")
    }

    fn oracle(&self, line: &str, resp: &str) -> Vec<OracleFailure> {
        let mut f = vec![];
        let (op, a) = parse_line(line);
        let n = |k: &str| get_u64(&a, k).unwrap_or(0);
        if resp.contains("panic") { f.push(OracleFailure { what: format!("panic in {op}") }); return f; }
        match op.as_str() {
            "z64.central" => {
                // extra = 8 bytes of unknown record; central extra limit is not reached here → must round-trip
                let want = format!("parsed=ok us={} cs={} hs={} ", n("us"), n("cs"), n("hs"));
                if !resp.contains(&want) { f.push(OracleFailure { what: format!("central record does not round-trip its 64-bit values: want `{want}`, got `{}`", &resp[resp.find("parsed=").unwrap_or(0)..]) }); }
            }
            "z64.end" => {
                let want = format!("end=ok n={} size={} off={} ao=0", n("n"), n("size"), n("off"));
                if !resp.contains(&want) { f.push(OracleFailure { what: format!("ZIP64 end record does not round-trip: want `{want}`") }); }
            }
            "z64.big" => {
                let parse_list = |s: &str| -> Vec<u64> { if s == "-" { vec![] } else { s.split(',').filter_map(|x| x.parse().ok()).collect() } };
                let sizes = parse_list(a.get("sizes").map(|s| s.as_str()).unwrap_or("-"));
                let large: Vec<bool> = parse_list(a.get("large").map(|s| s.as_str()).unwrap_or("-")).iter().map(|v| *v == 1).collect();
                let res = big_scenario(&sizes, &large, n("dirs"), &get_hex(&a, "comment").unwrap_or_default(), n("method") as u16);
                if res.starts_with("FAIL") { f.push(OracleFailure { what: format!("sparse-sink scenario: {res}") }); }
            }
            "z64.pos" => {
                let res = pos_scenario(n("target"), n("which") as usize, n("n") as usize, n("large"), n("method") as u16, n("seed"), &get_hex(&a, "comment").unwrap_or_default());
                if res.starts_with("FAIL") { f.push(OracleFailure { what: format!("positioned sparse sink: {res}") }); }
            }
            "z64.rawcopy" => {
                let r = rc_big_scenario(n("cs"), n("us"), n("m") as u16, n("crc") as u32, a.get("name").map(|s| s.as_str()).unwrap_or("same"));
                for w in r.fails { f.push(OracleFailure { what: format!("raw copy of a ZIP64-sized entry: {w}") }); }
            }
            "z64.cguard" => {
                let res = cguard_scenario(n("usize"), n("extra"));
                if res.starts_with("FAIL") { f.push(OracleFailure { what: format!("compressed-size guard: {res}") }); }
            }
            _ => {}
        }
        f
    }
}
