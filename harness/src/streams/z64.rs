//! `z64.*`: ZIP64 records with arbitrary 64-bit values through the serialiser/parser hooks, and
//! (thorough) real > 4 GiB archives over a sparse in-memory sink (C08).
use super::{GenOut, OracleFailure, Stream};
use crate::util::*;
use std::collections::BTreeMap;
use std::io::{Cursor, Read, Seek, SeekFrom, Write};
use zip::verif_hooks as vh;

pub struct Z64;

fn mk_file(us: u64, cs: u64, hs: u64, extra: Vec<u8>, name: Vec<u8>, m: u16, large: bool) -> vh::ZipFileData {
    #[allow(deprecated)]
    vh::ZipFileData {
        system: vh::System::Unix,
        version_made_by: 46,
        encrypted: false,
        using_data_descriptor: false,
        compression_method: zip::CompressionMethod::from_u16(m),
        compression_level: None,
        last_modified_time: zip::DateTime::default(),
        crc32: 0x12345678,
        compressed_size: cs,
        uncompressed_size: us,
        file_name: String::from_utf8_lossy(&name).into_owned(),
        file_name_raw: vec![],
        extra_field: extra,
        file_comment: String::new(),
        header_start: hs,
        central_header_start: 0,
        data_start: vh::AtomicU64::new(0),
        external_attributes: 0o100644 << 16,
        large_file: large,
        aes_mode: None,
    }
}

/// A sink that keeps small writes and treats large ones as zero-filled holes.
pub struct Sparse {
    pos: u64,
    len: u64,
    small: BTreeMap<u64, Vec<u8>>,
}
impl Sparse {
    pub fn new() -> Sparse { Sparse { pos: 0, len: 0, small: BTreeMap::new() } }
}
impl Write for Sparse {
    fn write(&mut self, buf: &[u8]) -> std::io::Result<usize> {
        if buf.len() < 65536 {
            // drop overlapped older chunks that start inside the new one (headers are rewritten field by field)
            let end = self.pos + buf.len() as u64;
            let keys: Vec<u64> = self.small.range(self.pos..end).map(|(k, _)| *k).collect();
            for k in keys {
                let old = self.small.remove(&k).unwrap();
                let oend = k + old.len() as u64;
                if oend > end { self.small.insert(end, old[(end - k) as usize..].to_vec()); }
            }
            // an older chunk that starts before and overlaps: split it
            if let Some((&k, old)) = self.small.range(..self.pos).next_back().map(|(k, v)| (k, v.clone())) {
                let oend = k + old.len() as u64;
                if oend > self.pos {
                    self.small.insert(k, old[..(self.pos - k) as usize].to_vec());
                    if oend > end { self.small.insert(end, old[(end - k) as usize..].to_vec()); }
                }
            }
            self.small.insert(self.pos, buf.to_vec());
        } else {
            debug_assert!(buf.iter().all(|b| *b == 0));
        }
        self.pos += buf.len() as u64;
        self.len = self.len.max(self.pos);
        Ok(buf.len())
    }
    fn flush(&mut self) -> std::io::Result<()> { Ok(()) }
}
impl Seek for Sparse {
    fn seek(&mut self, s: SeekFrom) -> std::io::Result<u64> {
        let t: i128 = match s { SeekFrom::Start(n) => n as i128, SeekFrom::End(o) => self.len as i128 + o as i128, SeekFrom::Current(o) => self.pos as i128 + o as i128 };
        if t < 0 { return Err(std::io::Error::new(std::io::ErrorKind::InvalidInput, "negative seek")); }
        self.pos = t as u64;
        Ok(self.pos)
    }
}
impl Read for Sparse {
    fn read(&mut self, buf: &mut [u8]) -> std::io::Result<usize> {
        if self.pos >= self.len { return Ok(0); }
        let n = ((self.len - self.pos) as usize).min(buf.len());
        for b in buf[..n].iter_mut() { *b = 0; }
        let (s, e) = (self.pos, self.pos + n as u64);
        let start_key = self.small.range(..=s).next_back().map(|(k, _)| *k).unwrap_or(s);
        for (k, v) in self.small.range(start_key..e) {
            let (cs, ce) = (*k, *k + v.len() as u64);
            let (os, oe) = (cs.max(s), ce.min(e));
            if os < oe { buf[(os - s) as usize..(oe - s) as usize].copy_from_slice(&v[(os - cs) as usize..(oe - cs) as usize]); }
        }
        self.pos += n as u64;
        Ok(n)
    }
}

fn write_zeros<W: Write>(w: &mut W, mut n: u64) -> std::io::Result<()> {
    let buf = vec![0u8; 1 << 20];
    while n > 0 {
        let k = n.min(buf.len() as u64) as usize;
        w.write_all(&buf[..k])?;
        n -= k as u64;
    }
    Ok(())
}

fn crc_zeros(mut n: u64) -> u32 {
    let buf = vec![0u8; 1 << 20];
    let mut h = crc32fast::Hasher::new();
    while n > 0 {
        let k = n.min(buf.len() as u64) as usize;
        h.update(&buf[..k]);
        n -= k as u64;
    }
    h.finalize()
}

/// `sizes`: entry sizes (all-zero stored content), `large`: per entry, `count`: extra empty directories.
fn big_scenario(sizes: &[u64], large: &[bool], dirs: u64, comment: &[u8], method: u16) -> String {
    let r = catch({
        let (sizes, large, comment) = (sizes.to_vec(), large.to_vec(), comment.to_vec());
        move || -> Result<String, String> {
            let mut w = zip::ZipWriter::new(Sparse::new());
            #[allow(deprecated)]
            let o = zip::write::FileOptions::default().compression_method(zip::CompressionMethod::from_u16(method)).last_modified_time(zip::DateTime::default());
            let mut expect_ok = true;
            for (i, (&sz, &lg)) in sizes.iter().zip(large.iter()).enumerate() {
                w.start_file(format!("f{i}"), o.large_file(lg)).map_err(|e| format!("start:{}", zerr_class(&e)))?;
                if let Err(e) = write_zeros(&mut w, sz) {
                    if sz > 0xFFFFFFFF && !lg { expect_ok = false; let _ = e; break; }
                    return Err(format!("write:{}", ioerr_class(&e)));
                }
                if sz > 0xFFFFFFFF && !lg { return Err("write past 4 GiB into a non-large entry succeeded".into()); }
            }
            if !expect_ok {
                return match w.finish() { Ok(_) => Err("finish() succeeded after a rejected >4GiB write".into()), Err(_) => Ok("rejected".into()) };
            }
            for d in 0..dirs { w.add_directory(format!("d{d}"), o).map_err(|e| format!("dir:{}", zerr_class(&e)))?; }
            w.set_raw_comment(comment.clone());
            let sink = w.finish().map_err(|e| format!("finish:{}", zerr_class(&e)))?;
            let mut a = zip::ZipArchive::new(sink).map_err(|e| format!("reopen:{}", zerr_class(&e)))?;
            if a.len() as u64 != sizes.len() as u64 + dirs { return Err(format!("count {} != {}", a.len(), sizes.len() as u64 + dirs)); }
            if a.comment() != &comment[..] { return Err("comment differs".into()); }
            for (i, &sz) in sizes.iter().enumerate() {
                let mut f = a.by_index(i).map_err(|e| format!("entry {i}: {}", zerr_class(&e)))?;
                if f.size() != sz || (method == 0 && f.compressed_size() != sz) { return Err(format!("entry {i}: size {} != {}", f.size(), sz)); }
                if f.crc32() != crc_zeros(sz) { return Err(format!("entry {i}: crc differs")); }
                let n = std::io::copy(&mut f, &mut std::io::sink()).map_err(|e| format!("entry {i} read: {}", ioerr_class(&e)))?;
                if n != sz { return Err(format!("entry {i}: read {n} bytes")); }
            }
            if dirs > 0 {
                let last = a.by_index(a.len() - 1).map_err(|e| format!("last dir: {}", zerr_class(&e)))?;
                if last.name() != format!("d{}/", dirs - 1) { return Err("last directory name differs".into()); }
            }
            Ok("roundtrip".into())
        }
    });
    match r { Ok(Ok(s)) => s, Ok(Err(e)) => format!("FAIL {e}"), Err(m) => format!("FAIL panic {m}") }
}


/// The COMPRESSED-size guard of an entry not declared large: Deflate level 0 emits stored blocks (5 bytes of
/// overhead per 65535 bytes), so `usize` zero bytes just below 4 GiB compress to MORE than 0xFFFFFFFF bytes
/// while the uncompressed counter never trips.  Closing the entry must fail; whatever the caller does next
/// (`extra` more bytes through `write`, then `finish`), no call may report success for a corrupt archive.
fn cguard_scenario(usize_: u64, extra: u64) -> String {
    let r = catch(move || -> Result<String, String> {
        let mut w = zip::ZipWriter::new(Sparse::new());
        let o = zip::write::FileOptions::default().compression_method(zip::CompressionMethod::Deflated).compression_level(Some(0)).last_modified_time(zip::DateTime::default());
        w.start_file("f0", o).map_err(|e| format!("start:{}", zerr_class(&e)))?;
        write_zeros(&mut w, usize_).map_err(|e| format!("write:{}", ioerr_class(&e)))?;
        // closing the entry: must be refused (compressed size does not fit 32 bits, no ZIP64 record was reserved)
        let first = w.start_file("f1", o.compression_method(zip::CompressionMethod::Stored).compression_level(None));
        if first.is_ok() { return Err("closing an entry whose compressed size exceeds 0xFFFFFFFF succeeded without large_file".into()); }
        let mut trace = String::from("close=err");
        if extra > 0 {
            match write_zeros(&mut w, extra) { Ok(()) => trace += " write=ok", Err(_) => trace += " write=err" }
        }
        match w.finish() {
            Err(_) => { trace += " finish=err"; Ok(trace) }
            Ok(sink) => {
                trace += " finish=ok";
                // a success must be a readable archive whose entry is the data that was written
                let mut a = zip::ZipArchive::new(sink).map_err(|e| format!("{trace}: finish() reported success but the archive does not open: {}", zerr_class(&e)))?;
                let mut f = a.by_index(0).map_err(|e| format!("{trace}: entry 0: {}", zerr_class(&e)))?;
                let n = std::io::copy(&mut f, &mut std::io::sink()).map_err(|e| format!("{trace}: finish() reported success but entry 0 does not read back: {}", ioerr_class(&e)))?;
                if n != usize_ + extra { return Err(format!("{trace}: entry 0 reads {n} bytes, {} were written", usize_ + extra)); }
                Ok(trace)
            }
        }
    });
    match r { Ok(Ok(s)) => s, Ok(Err(e)) => format!("FAIL {e}"), Err(m) => format!("FAIL panic {m}") }
}

const EDGE: [u64; 14] = [0, 1, 0xFFFE, 0xFFFF, 0x10000, 0xFFFFFFFE, 0xFFFFFFFF, 0x100000000, 0x100000001, 0x140000000, 0x7FFFFFFFFFFFFFFF, 0xFFFFFFFFFFFFFFFE, 0xFFFFFFFFFFFFFFFF, 12345];

impl Stream for Z64 {
    fn name(&self) -> &'static str { "z64" }

    fn gen(&self, seed: u64, tier: &str) -> GenOut {
        let mut g = GenOut::default();
        g.rule = "z64.central: all triples of boundary values (0, 2^16, 2^32 neighbours, 5 GiB, 2^63, 2^64 neighbours) for (usize, csize, header offset) + random 64-bit triples, with and without further extra data; z64.end: boundary/random (count, size, offset); z64.local: local header with/without large_file; z64.big (oracle only): real archives over a sparse sink with entries of 2^32-2..2^32+1 and 5 GiB bytes, >65535 entries, with/without large_file and comment. non-trivial = some field needs ZIP64".into();
        for &us in EDGE.iter() { for &cs in EDGE.iter() { for &hs in EDGE.iter() {
            g.push("central.edge", format!("z64.central us={us} cs={cs} hs={hs} extra=- name=61 m=0"));
        }}}
        let mut r = super::rng_for(seed, "z64", 0);
        let n = if tier == "thorough" { 400_000 } else { 40_000 };
        for _ in 0..n {
            let pickv = |r: &mut crate::prng::Rng| -> u64 { match r.below(4) { 0 => *r.pick(&EDGE), 1 => r.below(1 << 33), 2 => 0xFFFFFFFF - 2 + r.below(5), _ => r.next() } };
            let (us, cs, hs) = (pickv(&mut r), pickv(&mut r), pickv(&mut r));
            let extra = if r.chance(1, 3) { "fecaad0300aabbcc" } else { "-" };
            let m = *r.pick(&[0u16, 8, 12, 93]);
            g.push("central.random", format!("z64.central us={us} cs={cs} hs={hs} extra={extra} name=6e616d65 m={m}"));
        }
        for &a in EDGE.iter() { for &b in EDGE.iter() {
            g.push("end.edge", format!("z64.end n={a} size={b} off={}", a / 2));
            g.push("local.edge", format!("z64.local us={a} cs={b} name=61 m=0 large=1"));
            g.push("local.edge", format!("z64.local us={a} cs={b} name=61 m=8 large=0"));
        }}
        // tier "quickx" = a further seed of the quick tier (bin/check): the deterministic sparse-sink scenarios below
        // would only be repeated, so they run with the base seed alone
        let base = tier != "quickx";
        // entry-count thresholds on every run (empty directories are cheap)
        for dirs in [65534u64, 65535, 65536, 65537] {
            if base && (tier == "thorough" || dirs == 65536 || dirs == 65535) { g.push("big.count", format!("z64.big sizes=- large=- dirs={dirs} comment=636f6d")); }
        }
        // the 4 GiB guard of an entry not declared large, with a compressing method (the compressed stream stays
        // tiny, so only the uncompressed byte counter can refuse): the last write crosses the limit, then finish
        if base { g.push("big.guard", format!("z64.big sizes={} large=0 dirs=0 comment=- method=93", 1u64 << 32)); }
        if base && tier != "thorough" {
            let t = 1u64 << 32;
            // a central directory pushed past 4 GiB by entries that are each small and not declared large: only the
            // directory OFFSET needs ZIP64 (end record + locator), no entry does
            g.push("big.cdoffset", format!("z64.big sizes={},{} large=0,0 dirs=0 comment=78", 3 * (1u64 << 30), (1u64 << 30) + (1 << 20)));
            // an entry of exactly the marker value next to an entry whose header offset needs ZIP64 (D8), declared large
            g.push("big.offset", format!("z64.big sizes={},{} large=1,0 dirs=1 comment=-", t, t - 1));
        }
        if tier == "thorough" {
            g.push("big.guard", format!("z64.big sizes={} large=0 dirs=0 comment=- method=8", (1u64 << 32) + 5));
            g.push("big.guard", format!("z64.big sizes={} large=1 dirs=0 comment=- method=93", (1u64 << 32) + 5));
            let t = 1u64 << 32;
            for &sz in &[t - 2, t - 1, t, t + 1, 5 * (1u64 << 30)] {
                for lg in [0, 1] {
                    g.push("big.size", format!("z64.big sizes={sz} large={lg} dirs=0 comment=-"));
                    // second entry behind it: its header offset needs ZIP64; exact-marker size next to it (D8)
                    g.push("big.offset", format!("z64.big sizes={sz},{} large={lg},0 dirs=1 comment=78", t - 1));
                }
            }
        }
        // the COMPRESSED-size guard (Deflate level 0 = stored blocks: 4 GiB - 100000 zero bytes compress to more
        // than 0xFFFFFFFF bytes); afterwards the caller keeps writing and finishes
        if tier == "thorough" || tier == "search" {
            for extra in [0u64, 1, 40, 100000] { g.push("big.cguard", format!("z64.cguard usize={} extra={extra}", (1u64 << 32) - 100000)); }
        }
        g
    }

    fn run(&self, line: &str) -> String {
        let (op, a) = parse_line(line);
        let n = |k: &str| get_u64(&a, k).unwrap_or(0);
        match op.as_str() {
            "z64.central" => {
                let f = mk_file(n("us"), n("cs"), n("hs"), get_hex(&a, "extra").unwrap_or_default(), get_hex(&a, "name").unwrap_or_default(), n("m") as u16, false);
                let r = catch(move || {
                    let mut v = vec![];
                    match zip::write::verif_hooks::write_central_directory_header(&mut v, &f) {
                        Err(e) => zerr_class(&e).replace(' ', ":"),
                        Ok(()) => {
                            let parsed = match vh::central_header_to_zip_file(&mut Cursor::new(v.clone()), 0) {
                                Ok(g) => format!("ok us={} cs={} hs={} extra={} vn={}", g.uncompressed_size, g.compressed_size, g.header_start, hex(&g.extra_field), f.version_needed()),
                                Err(e) => zerr_class(&e).replace(' ', ":"),
                            };
                            format!("bytes={} parsed={}", hex(&v), parsed)
                        }
                    }
                });
                r.unwrap_or_else(|_| "panic".into())
            }
            "z64.local" => {
                let f = mk_file(n("us"), n("cs"), 0, vec![], get_hex(&a, "name").unwrap_or_default(), n("m") as u16, a.get("large").map(|s| s == "1").unwrap_or(false));
                let r = catch(move || {
                    let mut v = vec![];
                    match zip::write::verif_hooks::write_local_file_header(&mut v, &f) {
                        Err(e) => zerr_class(&e).replace(' ', ":"),
                        Ok(()) => format!("bytes={}", hex(&v)),
                    }
                });
                r.unwrap_or_else(|_| "panic".into())
            }
            "z64.end" => {
                let (cnt, size, off) = (n("n"), n("size"), n("off"));
                let r = catch(move || {
                    let mut v = vec![];
                    let e = vh::Zip64CentralDirectoryEnd { version_made_by: 46, version_needed_to_extract: 46, disk_number: 0, disk_with_central_directory: 0, number_of_files_on_this_disk: cnt, number_of_files: cnt, central_directory_size: size, central_directory_offset: off };
                    e.write(&mut v).unwrap();
                    let l = vh::Zip64CentralDirectoryEndLocator { disk_with_central_directory: 0, end_of_central_directory_offset: off.wrapping_add(size), number_of_disks: 1 };
                    l.write(&mut v).unwrap();
                    let p1 = match vh::Zip64CentralDirectoryEnd::find_and_parse(&mut Cursor::new(v.clone()), 0, 0) {
                        Ok((g, ao)) => format!("ok n={} size={} off={} ao={}", g.number_of_files, g.central_directory_size, g.central_directory_offset, ao),
                        Err(e) => zerr_class(&e).replace(' ', ":"),
                    };
                    let mut c = Cursor::new(v.clone());
                    c.set_position(56);
                    let p2 = match vh::Zip64CentralDirectoryEndLocator::parse(&mut c) {
                        Ok(l) => format!("ok off={} disks={}", l.end_of_central_directory_offset, l.number_of_disks),
                        Err(e) => zerr_class(&e).replace(' ', ":"),
                    };
                    format!("bytes={} end={} loc={}", hex(&v), p1, p2)
                });
                r.unwrap_or_else(|_| "panic".into())
            }
            "z64.big" | "z64.cguard" => "oracle-only".into(),
            _ => "bad-op".into(),
        }
    }

    fn nontrivial(&self, line: &str, _resp: &str) -> bool {
        let (_, a) = parse_line(line);
        ["us", "cs", "hs", "size", "off"].iter().any(|k| get_u64(&a, k).map(|v| v >= 0xFFFFFFFF).unwrap_or(false)) || line.starts_with("z64.big") || line.starts_with("z64.cguard")
    }

    fn oracle(&self, line: &str, resp: &str) -> Vec<OracleFailure> {
        let mut f = vec![];
        let (op, a) = parse_line(line);
        let n = |k: &str| get_u64(&a, k).unwrap_or(0);
        if resp.contains("panic") { f.push(OracleFailure { what: format!("panic in {op}") }); return f; }
        match op.as_str() {
            "z64.central" => {
                // extra = 8 bytes of unknown record; central extra limit is not reached here → must round-trip
                let want = format!("parsed=ok us={} cs={} hs={} ", n("us"), n("cs"), n("hs"));
                if !resp.contains(&want) { f.push(OracleFailure { what: format!("central record does not round-trip its 64-bit values: want `{want}`, got `{}`", &resp[resp.find("parsed=").unwrap_or(0)..]) }); }
            }
            "z64.end" => {
                let want = format!("end=ok n={} size={} off={} ao=0", n("n"), n("size"), n("off"));
                if !resp.contains(&want) { f.push(OracleFailure { what: format!("ZIP64 end record does not round-trip: want `{want}`") }); }
            }
            "z64.big" => {
                let parse_list = |s: &str| -> Vec<u64> { if s == "-" { vec![] } else { s.split(',').filter_map(|x| x.parse().ok()).collect() } };
                let sizes = parse_list(a.get("sizes").map(|s| s.as_str()).unwrap_or("-"));
                let large: Vec<bool> = parse_list(a.get("large").map(|s| s.as_str()).unwrap_or("-")).iter().map(|v| *v == 1).collect();
                let res = big_scenario(&sizes, &large, n("dirs"), &get_hex(&a, "comment").unwrap_or_default(), n("method") as u16);
                if res.starts_with("FAIL") { f.push(OracleFailure { what: format!("sparse-sink scenario: {res}") }); }
            }
            "z64.cguard" => {
                let res = cguard_scenario(n("usize"), n("extra"));
                if res.starts_with("FAIL") { f.push(OracleFailure { what: format!("compressed-size guard: {res}") }); }
            }
            _ => {}
        }
        f
    }
}
