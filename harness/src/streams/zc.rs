//! C15: ZipCrypto — cipher, buffering writer, validating reader, open-time decisions.
//!
//! Function-level ops go through `zip::verif_hooks::{zipcrypto_finish, ZipCryptoReader,
//! ZipCryptoValidator}`; archive-level ops through the public API
//! (`FileOptionsExt::with_deprecated_encryption`, `by_index_decrypt`, `by_index`, `by_name`).
//! The oracle uses its own PKWARE implementation (`pk`, written from APPNOTE 6.1 with a CRC table
//! computed from the polynomial) and, for a few cases per run, CPython `zipfile` / Info-ZIP `unzip`;
//! `zc.fentry` carries an archive produced by Info-ZIP `zip` (and libarchive `bsdtar` when present).
use super::{GenOut, OracleFailure, Stream};
use crate::prng::Rng;
use crate::util::*;
use std::io::{Cursor, Read, Write};
use zip::unstable::write::FileOptionsExt;
use zip::verif_hooks::{zipcrypto_finish, ZipCryptoReader, ZipCryptoValidator};

pub struct Zc;

/// Independent implementation of APPNOTE 6.1 (traditional PKWARE encryption).
mod pk {
    pub fn crc_table() -> [u32; 256] {
        let mut t = [0u32; 256];
        for i in 0..256u32 {
            let mut c = i;
            for _ in 0..8 {
                c = if c & 1 == 1 { (c >> 1) ^ 0xEDB8_8320 } else { c >> 1 };
            }
            t[i as usize] = c;
        }
        t
    }
    pub fn crc32(data: &[u8]) -> u32 {
        let t = crc_table();
        let mut c = 0xFFFF_FFFFu32;
        for &b in data {
            c = t[((c ^ b as u32) & 0xff) as usize] ^ (c >> 8);
        }
        c ^ 0xFFFF_FFFF
    }
    pub struct Keys {
        k: [u32; 3],
        t: [u32; 256],
    }
    impl Keys {
        pub fn new(password: &[u8]) -> Keys {
            let mut k = Keys { k: [305419896, 591751049, 878082192], t: crc_table() };
            for &b in password {
                k.update_keys(b);
            }
            k
        }
        fn crc32(&self, old: u32, c: u8) -> u32 {
            self.t[((old ^ c as u32) & 0xff) as usize] ^ (old >> 8)
        }
        fn update_keys(&mut self, c: u8) {
            self.k[0] = self.crc32(self.k[0], c);
            self.k[1] = self.k[1].wrapping_add(self.k[0] & 0xff);
            self.k[1] = self.k[1].wrapping_mul(134775813).wrapping_add(1);
            self.k[2] = self.crc32(self.k[2], (self.k[1] >> 24) as u8);
        }
        fn decrypt_byte(&self) -> u8 {
            let temp: u32 = (self.k[2] | 2) & 0xffff;
            (temp.wrapping_mul(temp ^ 1) >> 8) as u8
        }
        pub fn decrypt(&mut self, data: &[u8]) -> Vec<u8> {
            data.iter()
                .map(|&b| {
                    let c = b ^ self.decrypt_byte();
                    self.update_keys(c);
                    c
                })
                .collect()
        }
        pub fn encrypt(&mut self, data: &[u8]) -> Vec<u8> {
            data.iter()
                .map(|&p| {
                    let c = p ^ self.decrypt_byte();
                    self.update_keys(p);
                    c
                })
                .collect()
        }
    }
}

/// Reader that hands out at most `n` bytes per `read` call.
struct Short<R> {
    inner: R,
    n: usize,
}
impl<R: Read> Read for Short<R> {
    fn read(&mut self, buf: &mut [u8]) -> std::io::Result<usize> {
        let m = buf.len().min(self.n);
        self.inner.read(&mut buf[..m])
    }
}

impl<R: std::io::Seek> std::io::Seek for Short<R> {
    fn seek(&mut self, pos: std::io::SeekFrom) -> std::io::Result<u64> {
        self.inner.seek(pos)
    }
}

fn le16(v: &mut Vec<u8>, x: u16) {
    v.extend_from_slice(&x.to_le_bytes());
}
fn le32(v: &mut Vec<u8>, x: u32) {
    v.extend_from_slice(&x.to_le_bytes());
}

/// Single Stored entry "e", built from APPNOTE 4.3 (independent of the crate's writer).
fn build_entry_archive(enc: bool, dd: bool, crc: u32, time: u16, raw: &[u8]) -> Vec<u8> {
    let flags: u16 = (enc as u16) | ((dd as u16) << 3);
    let csize = raw.len() as u32;
    let usize_ = if enc { raw.len().saturating_sub(12) as u32 } else { csize };
    let name = b"e";
    let mut a = vec![];
    le32(&mut a, 0x04034b50);
    le16(&mut a, 20);
    le16(&mut a, flags);
    le16(&mut a, 0);
    le16(&mut a, time);
    le16(&mut a, 0x21);
    if dd {
        le32(&mut a, 0);
        le32(&mut a, 0);
        le32(&mut a, 0);
    } else {
        le32(&mut a, crc);
        le32(&mut a, csize);
        le32(&mut a, usize_);
    }
    le16(&mut a, name.len() as u16);
    le16(&mut a, 0);
    a.extend_from_slice(name);
    a.extend_from_slice(raw);
    if dd {
        le32(&mut a, 0x08074b50);
        le32(&mut a, crc);
        le32(&mut a, csize);
        le32(&mut a, usize_);
    }
    let cd_start = a.len() as u32;
    le32(&mut a, 0x02014b50);
    le16(&mut a, 20);
    le16(&mut a, 20);
    le16(&mut a, flags);
    le16(&mut a, 0);
    le16(&mut a, time);
    le16(&mut a, 0x21);
    le32(&mut a, crc);
    le32(&mut a, csize);
    le32(&mut a, usize_);
    le16(&mut a, name.len() as u16);
    le16(&mut a, 0);
    le16(&mut a, 0);
    le16(&mut a, 0);
    le16(&mut a, 0);
    le32(&mut a, 0);
    le32(&mut a, 0);
    a.extend_from_slice(name);
    let cd_len = a.len() as u32 - cd_start;
    le32(&mut a, 0x06054b50);
    le16(&mut a, 0);
    le16(&mut a, 0);
    le16(&mut a, 1);
    le16(&mut a, 1);
    le32(&mut a, cd_len);
    le32(&mut a, cd_start);
    le16(&mut a, 0);
    a
}

/// Outcome of opening entry `idx` (password `None` → `by_index`) and reading it to the end.
fn open_and_read(archive: &[u8], idx: usize, pw: Option<&[u8]>) -> Result<Vec<u8>, String> {
    open_and_read_chunked(archive, idx, pw, usize::MAX)
}

/// The same with an archive reader that hands out at most `chunk` bytes per `read` call.
fn open_and_read_chunked(archive: &[u8], idx: usize, pw: Option<&[u8]>, chunk: usize) -> Result<Vec<u8>, String> {
    let mut z = zip::ZipArchive::new(Short { inner: Cursor::new(archive), n: chunk }).map_err(|e| format!("open {}", zerr_class(&e)))?;
    let first = open_once(&mut z, idx, pw);
    // "each open behaves like the first": the same open again on the SAME archive object (state kept between
    // opens - a cached data offset, a consumed reader position - must not change what an open sees)
    let second = open_once(&mut z, idx, pw);
    if first != second {
        return Err(format!("reopen-differs(first={}|second={})", outcome(first).replace(' ', ":"), outcome(second).replace(' ', ":")));
    }
    first
}

/// One open of entry `idx` on an archive object that may have been used before, read to the end.
fn open_once<R: Read + std::io::Seek>(z: &mut zip::ZipArchive<R>, idx: usize, pw: Option<&[u8]>) -> Result<Vec<u8>, String> {
    let mut f = match pw {
        None => z.by_index(idx).map_err(|e| zerr_class(&e))?,
        Some(p) => match z.by_index_decrypt(idx, p).map_err(|e| zerr_class(&e))? {
            Ok(f) => f,
            Err(_) => return Err("invalidpw".into()),
        },
    };
    let mut out = vec![];
    match f.read_to_end(&mut out) {
        Ok(_) => Ok(out),
        Err(e) => Err(ioerr_class(&e)),
    }
}

/// A sequence of opens of the encrypted entry on ONE archive object. Steps: `r` right password, `w` the
/// wrong one, `n` no password (`by_index`), `b` no password through `by_name`, `x` the raw view
/// (`by_index_raw`: the stored bytes), `p` the password on the plain neighbour. One outcome per step.
fn reopen_run(ar: &Arch, pw: &[u8], wrong: &[u8], data: &[u8], raw: &[u8], seq: &str) -> String {
    let mut z = match zip::ZipArchive::new(Cursor::new(&ar.bytes[..])) { Ok(z) => z, Err(e) => return format!("open {}", zerr_class(&e)) };
    let mut outs: Vec<String> = vec![];
    for step in seq.split(',') {
        let o = match step {
            "r" => same_or(open_once(&mut z, ar.pos, Some(pw)), data),
            "w" => same_or(open_once(&mut z, ar.pos, Some(wrong)), data),
            "n" => match open_once(&mut z, ar.pos, None) { Ok(_) => "opened".to_string(), Err(e) => e },
            "b" => match z.by_name(enc_name(ar.pos)) { Ok(_) => "opened".to_string(), Err(e) => zerr_class(&e) },
            "p" => same_or(open_once(&mut z, ar.plain_idx, Some(pw)), &ar.plain_data),
            "x" => match z.by_index_raw(ar.pos) {
                Err(e) => zerr_class(&e),
                Ok(mut f) => { let mut b = vec![]; match f.read_to_end(&mut b) { Ok(_) => if b == raw { "raw".to_string() } else { "rawdiff".to_string() }, Err(e) => ioerr_class(&e) } }
            },
            _ => return "bad-op".into(),
        };
        outs.push(o.replace(' ', ":"));
    }
    outs.join("|")
}

const SEQS: [&str; 10] = ["r,r", "w,r", "r,w", "n,r", "r,x,r", "x,r,x", "b,r,n,r", "r,p,r", "w,w,r,r", "r,r,w,n,x,p,r"];

fn outcome(r: Result<Vec<u8>, String>) -> String {
    match r {
        Ok(d) => format!("ok {}", hex(&d)),
        Err(e) => e,
    }
}

fn same_or(r: Result<Vec<u8>, String>, data: &[u8]) -> String {
    match r {
        Ok(d) => if d == data { "same".into() } else { "diff".into() },
        Err(e) => e,
    }
}

struct Arch {
    bytes: Vec<u8>,
    pos: usize,
    plain_idx: usize,
    plain_data: Vec<u8>,
}

const METHODS: [&str; 4] = ["stored", "deflated", "bzip2", "zstd"];

fn mnum(m: &str) -> Option<u16> {
    match m { "stored" => Some(0), "deflated" => Some(8), "bzip2" => Some(12), "zstd" => Some(93), _ => None }
}

fn method_of(m: &str) -> zip::CompressionMethod {
    match m {
        "stored" => zip::CompressionMethod::Stored,
        "deflated" => zip::CompressionMethod::Deflated,
        "bzip2" => zip::CompressionMethod::Bzip2,
        _ => zip::CompressionMethod::Zstd,
    }
}

/// The writer's default level per method (what `FileOptions::default()` compresses with).
fn default_level(m: u16) -> i32 { match m { 8 => 6, 12 => 6, 93 => 3, _ => 0 } }

/// What the compressor hands to the encryption layer for one `write_all(data)`: the codec library
/// called directly (not through the crate); the content itself for Stored.
fn compress_direct(m: u16, data: &[u8]) -> Option<Vec<u8>> {
    if m == 0 { Some(data.to_vec()) } else { super::write::direct_compress(m, default_level(m), &[data.to_vec()]) }
}

/// One row of the codec table the model's decoder parameter is instantiated with.
fn codec_row(m: u16, raw: &[u8]) -> String {
    let c = pk::crc32(raw);
    let r = catch({ let raw = raw.to_vec(); move || super::read::direct_decode(m, &raw) });
    match r {
        Ok(Ok(d)) => format!("{m}:{c}:{}:ok:{}", raw.len(), hex(&d)),
        Ok(Err(e)) => format!("{m}:{c}:{}:err:{}", raw.len(), super::read::cls_io(&e).trim_start_matches("err:")),
        Err(_) => format!("{m}:{c}:{}:err:io:other", raw.len()),
    }
}

/// The non-encrypted neighbour entries of `build_arch`: (method, content).
fn plain_entry(j: usize) -> (u16, Vec<u8>) {
    (if j % 2 == 0 { 0 } else { 8 }, format!("plain entry number {j} {}", "x".repeat(j * 7)).into_bytes())
}

/// The complete `zc.arch` op line: the inputs plus the parameters the model needs (compressor output,
/// codec table rows for every byte string a decoder can be handed: the real payload, what a wrong
/// password that passes the check byte decrypts it to, the plain neighbour's data).
fn arch_line(pw: &[u8], m: &str, cnt: usize, pos: usize, data: &[u8], wrong: &[u8], x: &str) -> Option<String> {
    let mn = mnum(m)?;
    let n = cnt.max(2);
    let pos_eff = pos % n;
    let plain_idx = (pos_eff + 1) % n;
    let (pm, pdata) = plain_entry(plain_idx);
    let praw = compress_direct(pm, &pdata)?;
    let comp = compress_direct(mn, data)?;
    let mut rows: Vec<String> = vec![];
    if mn != 0 { rows.push(codec_row(mn, &comp)); }
    if pm != 0 { rows.push(codec_row(pm, &praw)); }
    if mn != 0 {
        let crc = pk::crc32(data);
        let mut plain = vec![0u8; 11];
        plain.push((crc >> 24) as u8);
        plain.extend_from_slice(&comp);
        let ct = pk::Keys::new(pw).encrypt(&plain);
        let d = pk::Keys::new(wrong).decrypt(&ct);
        if d[11] == (crc >> 24) as u8 {
            let row = codec_row(mn, &d[12..]);
            if !rows.contains(&row) { rows.push(row); }
        }
    }
    Some(format!(
        "zc.arch pw={} m={m} n={cnt} pos={pos} data={} wrong={} comp={} codec={} pm={pm} praw={} pdata={}{x}",
        hex(pw), hex(data), hex(wrong), if mn == 0 { "-".to_string() } else { hex(&comp) },
        if rows.is_empty() { "-".to_string() } else { rows.join(";") }, hex(&praw), hex(&pdata)
    ))
}

/// Minimal central-directory walk of a one-entry archive of another producer (no crate code):
/// (flags, method, DOS time, CRC-32, stored bytes) of entry 0.
fn foreign_fields(z: &[u8]) -> Option<(u16, u16, u16, u32, Vec<u8>)> {
    let rd16 = |o: usize| -> Option<usize> { Some(u16::from_le_bytes([*z.get(o)?, *z.get(o + 1)?]) as usize) };
    let rd32 = |o: usize| -> Option<u32> { Some(u32::from_le_bytes([*z.get(o)?, *z.get(o + 1)?, *z.get(o + 2)?, *z.get(o + 3)?])) };
    let mut e = z.len().checked_sub(22)?;
    while rd32(e)? != 0x06054b50 { e = e.checked_sub(1)?; }
    let p = rd32(e + 16)? as usize;
    if rd32(p)? != 0x02014b50 { return None; }
    let (flag, method, time, crc, cs) = (rd16(p + 8)? as u16, rd16(p + 10)? as u16, rd16(p + 12)? as u16, rd32(p + 16)?, rd32(p + 20)? as usize);
    let lo = rd32(p + 42)? as usize;
    if rd32(lo)? != 0x04034b50 { return None; }
    let ds = lo + 30 + rd16(lo + 26)? + rd16(lo + 28)?;
    Some((flag, method, time, crc, z.get(ds..ds + cs)?.to_vec()))
}

/// Archive with `n` entries written by the crate; entry `pos` ("enc") is encrypted with `pw`.
/// Name of the encrypted entry: non-ASCII for odd positions, so that the encryption bit and the
/// language-encoding bit are also exercised together.
fn enc_name(pos: usize) -> &'static str { if pos % 2 == 1 { "enc-\u{e9}\u{4e2d}" } else { "enc" } }

fn build_arch(pw: &[u8], m: &str, n: usize, pos: usize, data: &[u8]) -> Result<Arch, String> {
    let n = n.max(2);
    let pos = pos % n;
    let mut w = zip::ZipWriter::new(Cursor::new(Vec::new()));
    let plain_idx = (pos + 1) % n;
    let mut plain_data = vec![];
    for j in 0..n {
        let base = zip::write::FileOptions::default().last_modified_time(zip::DateTime::default());
        if j == pos {
            let o = base.compression_method(method_of(m)).with_deprecated_encryption(pw);
            w.start_file(enc_name(pos), o).map_err(|e| zerr_class(&e))?;
            w.write_all(data).map_err(|e| ioerr_class(&e))?;
        } else {
            let (pm, d) = plain_entry(j);
            let o = base.compression_method(if pm == 0 { zip::CompressionMethod::Stored } else { zip::CompressionMethod::Deflated });
            w.start_file(format!("p{j}"), o).map_err(|e| zerr_class(&e))?;
            w.write_all(&d).map_err(|e| ioerr_class(&e))?;
            if j == plain_idx {
                plain_data = d;
            }
        }
    }
    let bytes = w.finish().map_err(|e| zerr_class(&e))?.into_inner();
    Ok(Arch { bytes, pos, plain_idx, plain_data })
}

/// Raw stored bytes of entry `idx`, sliced out of the archive.
fn raw_of(archive: &[u8], idx: usize) -> Result<Vec<u8>, String> {
    let mut z = zip::ZipArchive::new(Cursor::new(archive)).map_err(|e| zerr_class(&e))?;
    let f = z.by_index_raw(idx).map_err(|e| zerr_class(&e))?;
    let (s, l) = (f.data_start() as usize, f.compressed_size() as usize);
    drop(f);
    archive.get(s..s + l).map(|x| x.to_vec()).ok_or_else(|| "raw-range".to_string())
}

fn tmp_dir(tag: &str) -> std::path::PathBuf {
    use std::sync::atomic::{AtomicU64, Ordering};
    static N: AtomicU64 = AtomicU64::new(0);
    let d = std::env::temp_dir().join(format!("zvh-zc-{}-{}-{}", std::process::id(), tag, N.fetch_add(1, Ordering::SeqCst)));
    let _ = std::fs::create_dir_all(&d);
    d
}

fn have(tool: &str) -> bool {
    std::process::Command::new("sh").arg("-c").arg(format!("command -v {tool} >/dev/null 2>&1")).status().map(|s| s.success()).unwrap_or(false)
}

/// Let another producer write an encrypted archive of one file with content `data`.
fn foreign_archive(prod: &str, pw: &str, m: u64, mt: u64, data: &[u8]) -> Result<Vec<u8>, String> {
    let d = tmp_dir("f");
    let res = (|| {
        let fp = d.join("f.bin");
        std::fs::write(&fp, data).map_err(|e| e.to_string())?;
        let f = std::fs::OpenOptions::new().write(true).open(&fp).map_err(|e| e.to_string())?;
        f.set_modified(std::time::UNIX_EPOCH + std::time::Duration::from_secs(mt)).map_err(|e| e.to_string())?;
        drop(f);
        let out = d.join("o.zip");
        let st = match prod {
            "zip" => {
                let mut c = std::process::Command::new("zip");
                c.current_dir(&d).arg("-q").arg("-X").arg("-P").arg(pw);
                if m == 0 { c.arg("-0"); }
                c.arg("o.zip").arg("f.bin").output()
            }
            "zipstdin" => {
                let lvl = if m == 0 { "-0" } else { "-6" };
                std::process::Command::new("sh").current_dir(&d).arg("-c")
                    .arg(format!("zip -q {lvl} -P \"$ZPW\" o.zip - < f.bin")).env("ZPW", pw).output()
            }
            "bsdtar" => {
                let mut c = std::process::Command::new("bsdtar");
                c.current_dir(&d).arg("-a").arg("-cf").arg("o.zip").arg("--options");
                c.arg(if m == 0 { "zip:encryption=zipcrypt,zip:compression=store" } else { "zip:encryption=zipcrypt" });
                c.arg("--passphrase").arg(pw).arg("f.bin").output()
            }
            _ => return Err("unknown producer".into()),
        };
        let st = st.map_err(|e| format!("spawn: {e}"))?;
        if !st.status.success() {
            return Err(format!("tool exit {:?}: {}", st.status.code(), String::from_utf8_lossy(&st.stderr)));
        }
        std::fs::read(&out).map_err(|e| e.to_string())
    })();
    let _ = std::fs::remove_dir_all(&d);
    res
}

/// Other consumers decrypt the crate's output.
fn foreign_read(tool: &str, archive: &[u8], name: &str, pw: &[u8]) -> Result<Vec<u8>, String> {
    let d = tmp_dir("r");
    let res = (|| {
        let ap = d.join("a.zip");
        std::fs::write(&ap, archive).map_err(|e| e.to_string())?;
        let o = match tool {
            "py" => std::process::Command::new("python3").arg("-c")
                .arg("import sys,zipfile;z=zipfile.ZipFile(sys.argv[1]);sys.stdout.buffer.write(z.read(sys.argv[2],pwd=bytes.fromhex(sys.argv[3])))")
                .arg(&ap).arg(name).arg(if pw.is_empty() { String::new() } else { hex(pw) }).output(),
            "unzip" => std::process::Command::new("unzip").arg("-P").arg(String::from_utf8_lossy(pw).to_string()).arg("-p").arg(&ap).arg(name).output(),
            _ => return Err("unknown tool".into()),
        }.map_err(|e| format!("spawn: {e}"))?;
        if !o.status.success() {
            return Err(format!("{tool} exit {:?}: {}", o.status.code(), String::from_utf8_lossy(&o.stderr).chars().take(300).collect::<String>()));
        }
        Ok(o.stdout)
    })();
    let _ = std::fs::remove_dir_all(&d);
    res
}

/// A read under a password different from the entry's completed with bytes `d` that are not the
/// content.  ZipCrypto authenticates nothing beyond the 1-byte header check and the CRC-32 of the
/// plaintext, so ONE way for this to happen is inherent in the format and no reader can refuse it: the
/// wrong password passes the check byte and what comes out has the declared CRC-32 (known finding K-H,
/// probability about 2^-40 per random pair; the witness in corpus/zc.ops was constructed).  Everything
/// else (check byte not passed, or a CRC-32 other than the declared one) is a defect of the reader.
fn judge_wrong_completed(raw: &[u8], wrong: &[u8], crc: u32, d: &[u8]) -> String {
    let hdr_passes = raw.len() >= 12 && pk::Keys::new(wrong).decrypt(&raw[..12])[11] == (crc >> 24) as u8;
    if hdr_passes && pk::crc32(d) == crc {
        format!("K-H zipcrypto-crc-collision: a wrong password passed the 1-byte header check and decrypted to {} other bytes with the declared CRC-32 {crc:08x}: the read completes (format-inherent: ZipCrypto has no other integrity check)", d.len())
    } else {
        format!("a wrong password ended in a completed read of other bytes (header check passed by the independent implementation: {hdr_passes}; CRC-32 of the bytes returned {:08x}, declared {crc:08x})", pk::crc32(d))
    }
}

fn contains(hay: &[u8], needle: &[u8]) -> bool {
    !needle.is_empty() && hay.windows(needle.len()).any(|w| w == needle)
}

fn passwords(r: &mut Rng) -> Vec<(&'static str, Vec<u8>)> {
    vec![
        ("empty", vec![]),
        ("ascii1", b"a".to_vec()),
        ("ascii", b"correct horse battery staple".to_vec()),
        ("binary", vec![0x00, 0xff, 0x00, 0x80, 0x7f, 0xff, 0x00]),
        ("nul", vec![0]),
        ("utf8", "пароль-密码".as_bytes().to_vec()),
        ("random", { let n = r.range(1, 40) as usize; r.bytes(n) }),
        ("1KiB", r.bytes(1024)),
    ]
}

const SIZES: [usize; 7] = [0, 1, 11, 12, 13, 100, 4096];

/// A password different from `pw` whose decrypted 12th header byte equals `check` for the given
/// first 12 ciphertext bytes (found by search with the independent implementation).
fn wrong_pw_passing(r: &mut Rng, pw: &[u8], hdr_ct: &[u8], check: u8) -> Option<Vec<u8>> {
    for _ in 0..20000 {
        let n = r.range(1, 8) as usize;
        let w = r.bytes(n);
        if w == pw { continue; }
        let p = pk::Keys::new(&w).decrypt(&hdr_ct[..12]);
        if p[11] == check {
            return Some(w);
        }
    }
    None
}

impl Stream for Zc {
    fn name(&self) -> &'static str {
        "zc"
    }

    fn gen(&self, seed: u64, tier: &str) -> GenOut {
        let mut g = GenOut::default();
        let thorough = tier == "thorough";
        g.rule = "zc.encrypt/zc.finish: passwords {empty, ASCII, binary with 00/FF, UTF-8, random, 1 KiB} x payload sizes \
                  {0,1,11,12,13,100,4096}+random, random CRCs, raw buffers of 0..14 bytes (finish panic boundary); zc.decrypt: \
                  ciphertexts from the harness's independent PKWARE implementation with random 11-byte header prefixes, both \
                  validators, all 256 check bytes via chosen CRC / DOS time values, wrong passwords (random and searched to pass \
                  the 1-byte check), inputs of 0..12 bytes, inner readers returning 1/3/7 bytes per read; zc.entry (one in six through an archive reader returning 1/2/5 bytes per read): hand-built \
                  single-entry archives over {no password, right, wrong, wrong-but-passing} x encrypted flag x data-descriptor \
                  flag x right/wrong declared CRC; zc.arch: archives written by the crate (Stored/Deflated/Bzip2/Zstd, 2-4 entries, \
                  encrypted entry at every position) then read back with right / no / wrong password and with the password on a \
                  plain neighbour; the line carries the compressor's output and the codec table (direct library calls) from which \
                  the model WRITER builds the stored bytes and the model READER answers all four readings; a few cross-read by \
                  CPython zipfile and Info-ZIP unzip; zc.reopen: the same cases as a SEQUENCE of opens on one ZipArchive (right twice; wrong then right; right \
                  then wrong; none then right; raw views and the plain neighbour in between) - each open must behave like the \
                  first; every other archive-level op also opens its entry twice and reports a difference; zc.fentry: archives produced at generation time by Info-ZIP zip (file and \
                  streamed input) and libarchive bsdtar when installed, with flags / CRC / DOS time / method / stored bytes from an \
                  independent central-directory walk for the model reader. distinct = distinct op lines; non-trivial = response is not an error".into();
        let mut r = super::rng_for(seed, "zc", 0);
        let pws = passwords(&mut r);
        let scale = if thorough { 20 } else { 1 };
        let big = |r: &mut Rng| if thorough { r.range(0, 65536) as usize } else { r.range(0, 600) as usize };

        // --- A. writer (function level)
        for (_, pw) in &pws {
            for &n in &SIZES {
                let crc = r.next() as u32;
                g.push("encrypt.grid", format!("zc.encrypt pw={} crc={} data={}", hex(pw), crc, hex(&r.bytes(n))));
            }
        }
        for _ in 0..150 * scale {
            let pw = r.pick(&pws).1.clone();
            let n = big(&mut r);
            let crc = match r.below(4) { 0 => 0, 1 => 0xffff_ffff, _ => r.next() as u32 };
            g.push("encrypt.random", format!("zc.encrypt pw={} crc={} data={}", hex(&pw), crc, hex(&r.bytes(n))));
        }
        for c in 0..256u32 {
            g.push("encrypt.crcbyte", format!("zc.encrypt pw=70617373 crc={} data=00010203", (c << 24) | (r.next() as u32 & 0xff_ffff)));
        }
        for n in 0..15usize {
            for pw in [&b""[..], &b"pw"[..]] {
                g.push("finish.rawbuf", format!("zc.finish pw={} crc={} buf={}", hex(pw), r.next() as u32, hex(&r.bytes(n))));
            }
        }

        // --- C. reader (function level)
        let mk_ct = |r: &mut Rng, pw: &[u8], check: u8, n: usize| -> Vec<u8> {
            let mut plain = r.bytes(11);
            plain.push(check);
            plain.extend(r.bytes(n));
            pk::Keys::new(pw).encrypt(&plain)
        };
        for (_, pw) in &pws {
            for &n in &SIZES {
                for v in ["crc", "time"] {
                    let val: u64 = if v == "crc" { r.next() & 0xffff_ffff } else { r.next() & 0xffff };
                    let check = if v == "crc" { (val >> 24) as u8 } else { (val >> 8) as u8 };
                    let ct = mk_ct(&mut r, pw, check, n);
                    g.push("decrypt.right", format!("zc.decrypt pw={} v={v} val={val} ct={}", hex(pw), hex(&ct)));
                    if n == 13 || n == 100 {
                        for chunk in [1u64, 3, 7] {
                            g.push("decrypt.shortreads", format!("zc.decrypt pw={} v={v} val={val} ct={} chunk={chunk}", hex(pw), hex(&ct)));
                        }
                    }
                }
            }
        }
        // all 256 check bytes, both validators
        for (v, n) in [("crc", 5usize), ("time", 5), ("crc", 0)] {
            let pw = b"check-byte".to_vec();
            let check = r.next() as u8;
            let ct = mk_ct(&mut r, &pw, check, n);
            for c in 0..256u64 {
                let val = if v == "crc" { (c << 24) | (r.next() & 0xff_ffff) } else { (c << 8) | (r.next() & 0xff) };
                g.push("decrypt.all256", format!("zc.decrypt pw={} v={v} val={val} ct={}", hex(&pw), hex(&ct)));
            }
        }
        for _ in 0..200 * scale {
            let pw = r.pick(&pws).1.clone();
            let n = r.range(0, 64) as usize;
            let val = r.next() & 0xffff_ffff;
            let ct = mk_ct(&mut r, &pw, (val >> 24) as u8, n);
            let wrong = { let k = r.range(0, 6) as usize; r.bytes(k) };
            g.push("decrypt.wrong.random", format!("zc.decrypt pw={} v=crc val={val} ct={}", hex(&wrong), hex(&ct)));
        }
        for _ in 0..40 * scale {
            let pw = r.pick(&pws).1.clone();
            let n = r.range(0, 64) as usize;
            let val = r.next() & 0xffff;
            let ct = mk_ct(&mut r, &pw, (val >> 8) as u8, n);
            if let Some(w) = wrong_pw_passing(&mut r, &pw, &ct, (val >> 8) as u8) {
                g.push("decrypt.wrong.passing", format!("zc.decrypt pw={} v=time val={val} ct={}", hex(&w), hex(&ct)));
            }
        }
        for n in 0..13usize {
            g.push("decrypt.short", format!("zc.decrypt pw=7077 v=crc val={} ct={}", r.next() & 0xffff_ffff, hex(&r.bytes(n))));
            g.push("decrypt.short", format!("zc.decrypt pw=7077 v=time val=0 ct={} chunk=1", hex(&r.bytes(n))));
        }
        for _ in 0..100 * scale {
            // arbitrary bytes as ciphertext
            let n = r.range(0, 40) as usize;
            let k = r.range(0, 5) as usize;
            g.push("decrypt.garbage", format!("zc.decrypt pw={} v=crc val={} ct={}", hex(&r.bytes(k)), r.next() & 0xffff_ffff, hex(&r.bytes(n))));
        }

        // --- D. hand-built single-entry archives through by_index / by_index_decrypt
        for i in 0..(300 * scale) {
            let pw = r.pick(&pws).1.clone();
            let n = if i < 28 { SIZES[i % 7] } else { r.range(0, 200) as usize };
            let data = r.bytes(n);
            let enc = r.chance(3, 4);
            let dd = r.chance(1, 2);
            let time = (r.next() & 0xffff) as u16;
            let crc_ok = r.chance(4, 5);
            let crc = if crc_ok { pk::crc32(&data) } else { r.next() as u32 };
            let check = if dd { (time >> 8) as u8 } else { (crc >> 24) as u8 };
            let raw = if enc {
                let mut plain = r.bytes(11);
                // sometimes the *other* rule's byte in the header (PKZIP-style header on a bit-3 entry and vice versa)
                let hb = if r.chance(1, 8) { if dd { (crc >> 24) as u8 } else { (time >> 8) as u8 } } else { check };
                plain.push(hb);
                plain.extend_from_slice(&data);
                pk::Keys::new(&pw).encrypt(&plain)
            } else { data.clone() };
            let use_pw = match r.below(8) {
                0 => "none".to_string(),
                1 => { let k = r.range(0, 5) as usize; hex(&r.bytes(k)) }
                2 if enc && raw.len() >= 12 => match wrong_pw_passing(&mut r, &pw, &raw, check) { Some(w) => hex(&w), None => hex(&pw) },
                _ => hex(&pw),
            };
            let kind = format!("entry.{}{}", if enc { "enc" } else { "plain" }, if dd { ".dd" } else { "" });
            // one case in six reads the archive through a reader that returns 1, 2 or 5 bytes per call
            let chunk = if i % 6 == 5 { format!(" chunk={}", [1, 2, 5][(i / 6) as usize % 3]) } else { String::new() };
            g.push(&kind, format!("zc.entry pw={use_pw} enc={} dd={} crc={crc} time={time} raw={}{chunk}", enc as u8, dd as u8, hex(&raw)));
        }
        for n in 0..13usize {
            // encrypted entry shorter than its header
            g.push("entry.short", format!("zc.entry pw=7077 enc=1 dd={} crc=0 time=0 raw={}", n % 2, hex(&r.bytes(n))));
        }

        // --- E. archives written by the crate
        let have_py = have("python3");
        let have_unzip = have("unzip");
        let mut n_py = 0;
        let mut n_unzip = 0;
        let mut reopen_rot = 0usize;
        let mut arch_case = |g: &mut GenOut, r: &mut Rng, pw: &[u8], m: &str, n: usize| {
            let data = if r.chance(1, 4) { vec![b'A'; n] } else { r.bytes(n) };
            let cnt = r.range(2, 4);
            let pos = r.below(cnt);
            let crc = pk::crc32(&data);
            let mut hdr = vec![0u8; 11];
            hdr.push((crc >> 24) as u8);
            let hdr_ct = pk::Keys::new(pw).encrypt(&hdr);
            let wrong = match r.below(4) {
                0 => wrong_pw_passing(r, pw, &hdr_ct, (crc >> 24) as u8).unwrap_or_else(|| vec![1]),
                1 => { let mut w = pw.to_vec(); w.push(0); w }
                2 => { let mut w = pw.to_vec(); if w.is_empty() { w.push(b'x') } else { let l = w.len() - 1; w[l] ^= 1; } w }
                _ => { let k = r.range(1, 6) as usize; r.bytes(k) }
            };
            let mut x = String::new();
            let ascii = pw.iter().all(|b| (0x21..0x7f).contains(b)) && !pw.is_empty();
            // the other consumers are asked for the methods every build of them supports
            let common = m == "stored" || m == "deflated";
            if common && have_py && !pw.is_empty() && n_py < 12 && r.chance(1, 3) { x = " x=py".into(); n_py += 1; }
            else if common && have_unzip && ascii && n_unzip < 8 { x = " x=unzip".into(); n_unzip += 1; }
            if let Some(l) = arch_line(pw, m, cnt as usize, pos as usize, &data, &wrong, &x) {
                // the same case as a SEQUENCE of opens on one archive object (rotating through the sequences)
                let seq = SEQS[reopen_rot % SEQS.len()];
                reopen_rot += 1;
                let l2 = l.replacen("zc.arch ", "zc.reopen ", 1).replace(" x=py", "").replace(" x=unzip", "");
                g.push(&format!("arch.{m}"), l);
                g.push(&format!("reopen.{}", seq.replace(',', "")), format!("{l2} seq={seq}"));
            }
        };
        for (_, pw) in &pws {
            for &n in &SIZES {
                for m in METHODS {
                    arch_case(&mut g, &mut r, pw, m, n);
                }
            }
        }
        for _ in 0..80 * scale {
            let pw = if r.chance(1, 2) { b"Secret123".to_vec() } else { r.pick(&pws).1.clone() };
            let n = big(&mut r);
            let m = *r.pick(&METHODS);
            arch_case(&mut g, &mut r, &pw, m, n);
        }

        // --- F. other producers
        let prods: Vec<&str> = [("zip", "zip"), ("zipstdin", "zip"), ("bsdtar", "bsdtar")].iter().filter(|(_, t)| have(t)).map(|(p, _)| *p).collect();
        if !prods.is_empty() {
            for i in 0..(36 * scale) {
                let prod = prods[i as usize % prods.len()];
                let pw = *r.pick(&["a", "Secret123", "correct horse battery staple", "p@ss:w0rd/with-symbols_", "x"]);
                let n = if i < 14 { SIZES[i as usize % 7] } else { r.range(0, 3000) as usize };
                let data = if r.chance(1, 2) { r.bytes(n) } else { (0..n).map(|j| b"lorem ipsum "[j % 12]).collect() };
                let m = if r.chance(1, 2) { 0 } else { 8 };
                // modification time: any second of 2000-2030, so that every DOS-time high byte occurs
                let mt = 946_684_800 + r.below(946_000_000);
                // the other producer runs NOW (its header bytes are random): the op line carries its archive, and what
                // an independent central-directory walk finds in it, so that the case replays and the model can answer
                match foreign_archive(prod, pw, m, mt, &data) {
                    Ok(arch) => match foreign_fields(&arch) {
                        Some((flag, fm, time, crc, raw)) => {
                            let (enc, dd) = (flag & 1, (flag >> 3) & 1);
                            let codec = if fm == 0 || raw.len() < 12 || enc == 0 { "-".to_string() } else {
                                codec_row(fm, &pk::Keys::new(pw.as_bytes()).decrypt(&raw)[12..])
                            };
                            g.push(&format!("foreign.{prod}.m{fm}{}", if dd == 1 { ".dd" } else { "" }), format!(
                                "zc.fentry prod={prod} pw={} data={} arch={} enc={enc} dd={dd} crc={crc} time={time} m={fm} raw={} codec={codec}",
                                hex(pw.as_bytes()), hex(&data), hex(&arch), hex(&raw)));
                        }
                        None => g.push("foreign.unparsed", format!("zc.fentry-unparsed prod={prod} arch={}", hex(&arch))),
                    },
                    Err(_) => g.push("foreign.toolfail", format!("zc.fentry-toolfail prod={prod}")),
                }
            }
        }
        g
    }

    fn run(&self, line: &str) -> String {
        let (op, a) = parse_line(line);
        let n = |k: &str| get_u64(&a, k);
        let h = |k: &str| get_hex(&a, k);
        match op.as_str() {
            "zc.encrypt" => {
                let (pw, crc, data) = match (h("pw"), n("crc"), h("data")) { (Some(p), Some(c), Some(d)) => (p, c as u32, d), _ => return "bad-op".into() };
                let mut buf = vec![0u8; 12];
                buf.extend_from_slice(&data);
                match catch(move || zipcrypto_finish(&pw, buf, crc)) {
                    Ok(Ok(ct)) => format!("ok {}", hex(&ct)),
                    Ok(Err(e)) => ioerr_class(&e),
                    Err(_) => "panic".into(),
                }
            }
            "zc.finish" => {
                let (pw, crc, buf) = match (h("pw"), n("crc"), h("buf")) { (Some(p), Some(c), Some(d)) => (p, c as u32, d), _ => return "bad-op".into() };
                match catch(move || zipcrypto_finish(&pw, buf, crc)) {
                    Ok(Ok(ct)) => format!("ok {}", hex(&ct)),
                    Ok(Err(e)) => ioerr_class(&e),
                    Err(_) => "panic".into(),
                }
            }
            "zc.decrypt" => {
                let (pw, ct, val) = match (h("pw"), h("ct"), n("val")) { (Some(p), Some(c), Some(v)) => (p, c, v), _ => return "bad-op".into() };
                let v = match a.get("v").map(|s| s.as_str()) { Some("crc") => 0, Some("time") => 1, _ => return "bad-op".into() };
                let chunk = match a.get("chunk") { Some(c) => match c.parse::<usize>() { Ok(c) if c > 0 => c, _ => return "bad-op".into() }, None => usize::MAX };
                let r = catch(move || {
                    let validator = if v == 0 { ZipCryptoValidator::PkzipCrc32(val as u32) } else { ZipCryptoValidator::InfoZipMsdosTime(val as u16) };
                    let rd = Short { inner: Cursor::new(ct), n: chunk };
                    match ZipCryptoReader::new(rd, &pw).validate(validator) {
                        Err(e) => ioerr_class(&e),
                        Ok(None) => "badpw".into(),
                        Ok(Some(mut valid)) => {
                            let mut out = vec![];
                            match valid.read_to_end(&mut out) {
                                Ok(_) => format!("ok {}", hex(&out)),
                                Err(e) => ioerr_class(&e),
                            }
                        }
                    }
                });
                r.unwrap_or_else(|_| "panic".into())
            }
            "zc.entry" => {
                let (enc, dd, crc, time, raw) = match (n("enc"), n("dd"), n("crc"), n("time"), h("raw")) {
                    (Some(e), Some(d), Some(c), Some(t), Some(r)) => (e != 0, d != 0, c as u32, t as u16, r), _ => return "bad-op".into() };
                let pw: Option<Vec<u8>> = match a.get("pw").map(|s| s.as_str()) { Some("none") => None, Some(s) => match unhex(s) { Some(p) => Some(p), None => return "bad-op".into() }, None => return "bad-op".into() };
                let chunk = match a.get("chunk") { Some(c) => match c.parse::<usize>() { Ok(c) if c > 0 => c, _ => return "bad-op".into() }, None => usize::MAX };
                let r = catch(move || {
                    let arch = build_entry_archive(enc, dd, crc, time, &raw);
                    outcome(open_and_read_chunked(&arch, 0, pw.as_deref(), chunk))
                });
                r.unwrap_or_else(|_| "panic".into())
            }
            "zc.arch" => {
                let (pw, data, wrong, cnt, pos) = match (h("pw"), h("data"), h("wrong"), n("n"), n("pos")) {
                    (Some(p), Some(d), Some(w), Some(c), Some(q)) => (p, d, w, c as usize, q as usize), _ => return "bad-op".into() };
                let m = match a.get("m").and_then(|s| METHODS.iter().find(|x| **x == s.as_str())) { Some(x) => *x, None => return "bad-op".into() };
                let r = catch(move || {
                    let ar = match build_arch(&pw, m, cnt, pos, &data) { Ok(x) => x, Err(e) => return format!("write {e}") };
                    let raw = match raw_of(&ar.bytes, ar.pos) { Ok(x) => x, Err(e) => return format!("raw {e}") };
                    let hdr = hex(&raw[..raw.len().min(12)]);
                    let ct = hex(&raw);
                    let right = same_or(open_and_read(&ar.bytes, ar.pos, Some(&pw)), &data);
                    let nopw = {
                        let a1 = match open_and_read(&ar.bytes, ar.pos, None) { Ok(_) => "opened".to_string(), Err(e) => e };
                        let a2 = {
                            let mut z = zip::ZipArchive::new(Cursor::new(&ar.bytes[..])).unwrap();
                            let x = match z.by_name(enc_name(ar.pos)) { Ok(_) => "opened".to_string(), Err(e) => zerr_class(&e) };
                            x
                        };
                        if a1 == a2 { a1 } else { format!("mismatch({a1}|{a2})") }
                    };
                    let wr = open_and_read(&ar.bytes, ar.pos, Some(&wrong));
                    let wrong_s = same_or(wr, &data);
                    let plainpw = same_or(open_and_read(&ar.bytes, ar.plain_idx, Some(&pw)), &ar.plain_data);
                    format!("arch hdr={hdr} ct={ct} right={right} nopw={nopw} wrong={wrong_s} plainpw={plainpw}")
                });
                r.unwrap_or_else(|_| "panic".into())
            }
            "zc.reopen" => {
                let (pw, data, wrong, cnt, pos) = match (h("pw"), h("data"), h("wrong"), n("n"), n("pos")) {
                    (Some(p), Some(d), Some(w), Some(c), Some(q)) => (p, d, w, c as usize, q as usize), _ => return "bad-op".into() };
                let m = match a.get("m").and_then(|s| METHODS.iter().find(|x| **x == s.as_str())) { Some(x) => *x, None => return "bad-op".into() };
                let seq = match a.get("seq") { Some(s) if !s.is_empty() => s.clone(), _ => return "bad-op".into() };
                let r = catch(move || {
                    let ar = match build_arch(&pw, m, cnt, pos, &data) { Ok(x) => x, Err(e) => return format!("write {e}") };
                    let raw = match raw_of(&ar.bytes, ar.pos) { Ok(x) => x, Err(e) => return format!("raw {e}") };
                    format!("reopen {}", reopen_run(&ar, &pw, &wrong, &data, &raw, &seq))
                });
                r.unwrap_or_else(|_| "panic".into())
            }
            "zc.fentry" => {
                let (pw, arch) = match (h("pw"), h("arch")) { (Some(p), Some(x)) => (p, x), _ => return "bad-op".into() };
                let r = catch(move || outcome(open_and_read(&arch, 0, Some(&pw))));
                r.unwrap_or_else(|_| "panic".into())
            }
            // maintenance only (never generated): complete a hand-written zc.arch line with the model's parameters
            "zc.mkline" => {
                let (pw, data, wrong, cnt, pos) = match (h("pw"), h("data"), h("wrong"), n("n"), n("pos")) {
                    (Some(p), Some(d), Some(w), Some(c), Some(q)) => (p, d, w, c as usize, q as usize), _ => return "bad-op".into() };
                arch_line(&pw, a.get("m").map(|s| s.as_str()).unwrap_or(""), cnt, pos, &data, &wrong, "").unwrap_or_else(|| "bad-op".into())
            }
            _ => "bad-op".into(),
        }
    }

    fn oracle(&self, line: &str, resp: &str) -> Vec<OracleFailure> {
        let mut f = vec![];
        let mut fail = |s: String| f.push(OracleFailure { what: s });
        let (op, a) = parse_line(line);
        let n = |k: &str| get_u64(&a, k).unwrap_or(0);
        let h = |k: &str| get_hex(&a, k).unwrap_or_default();
        if resp.contains("panic") {
            let expected = op == "zc.finish" && h("buf").len() < 12;
            if !expected {
                fail(format!("panic in {op}"));
            }
            return f;
        }
        match op.as_str() {
            "zc.encrypt" | "zc.finish" => {
                let pw = h("pw");
                let crc = n("crc") as u32;
                let mut plain = if op == "zc.encrypt" { let mut b = vec![0u8; 12]; b.extend(h("data")); b } else { h("buf") };
                if plain.len() < 12 {
                    fail(format!("finish on a {}-byte buffer did not panic (the model says it must): `{resp}`", plain.len()));
                    return f;
                }
                plain[11] = (crc >> 24) as u8;
                let ct = match resp.strip_prefix("ok ").and_then(unhex) { Some(c) => c, None => { fail(format!("writer failed: `{resp}`")); return f; } };
                let back = pk::Keys::new(&pw).decrypt(&ct);
                if back != plain {
                    fail("an independent PKWARE implementation does not decrypt the writer's output to header(11 zero bytes, crc>>24) ++ payload".into());
                }
                // observation, not a theorem: a random payload of >= 16 bytes does not show up verbatim
                let payload = &plain[12..];
                if payload.len() >= 16 && payload.iter().any(|&b| b != payload[0]) && contains(&ct, &payload[..16]) {
                    fail("observation: 16 plaintext bytes appear verbatim in the ciphertext".into());
                }
            }
            "zc.decrypt" => {
                let (pw, ct) = (h("pw"), h("ct"));
                let check = if a.get("v").map(|s| s.as_str()) == Some("crc") { (n("val") >> 24) as u8 } else { (n("val") >> 8) as u8 };
                let want = if ct.len() < 12 { "err io:eof".to_string() } else {
                    let p = pk::Keys::new(&pw).decrypt(&ct);
                    if p[11] == check { format!("ok {}", hex(&p[12..])) } else { "badpw".to_string() }
                };
                if resp != want {
                    fail(format!("reader disagrees with the independent PKWARE implementation: got `{}` want `{}`", &resp[..resp.len().min(80)], &want[..want.len().min(80)]));
                }
            }
            "zc.entry" => {
                let (enc, dd, crc, time, raw) = (n("enc") != 0, n("dd") != 0, n("crc") as u32, n("time") as u16, h("raw"));
                let pw: Option<Vec<u8>> = match a.get("pw").map(|s| s.as_str()) { Some("none") | None => None, Some(s) => unhex(s) };
                let crc_gate = |d: Vec<u8>| if pk::crc32(&d) == crc { format!("ok {}", hex(&d)) } else { "err io:other".to_string() };
                let want = match (&pw, enc) {
                    (None, true) => "err passwordrequired".to_string(),
                    (_, false) => crc_gate(raw.clone()),
                    (Some(p), true) => {
                        if raw.len() < 12 { "err io:eof".to_string() } else {
                            let d = pk::Keys::new(p).decrypt(&raw);
                            let check = if dd { (time >> 8) as u8 } else { (crc >> 24) as u8 };
                            if d[11] != check { "invalidpw".to_string() } else { crc_gate(d[12..].to_vec()) }
                        }
                    }
                };
                if resp != want {
                    fail(format!("entry outcome differs from APPNOTE 6.1 + CRC gate: got `{}` want `{}`", &resp[..resp.len().min(80)], &want[..want.len().min(80)]));
                }
                if let Some(x) = resp.strip_prefix("ok ") {
                    if let Some(d) = unhex(x) {
                        if pk::crc32(&d) != crc {
                            fail("a completed read returned bytes whose CRC-32 is not the declared one".into());
                        }
                    }
                }
            }
            "zc.arch" => {
                let (pw, data, wrong) = (h("pw"), h("data"), h("wrong"));
                let m = a.get("m").cloned().unwrap_or_default();
                let get = |k: &str| resp.split(' ').find_map(|kv| kv.strip_prefix(&format!("{k}="))).unwrap_or("").to_string();
                // fields with a space inside ("err passwordrequired") are matched on the whole line
                if !resp.contains(" right=same ") {
                    fail(format!("right password does not return the original bytes: `{}`", &resp[..resp.len().min(120)]));
                }
                if !resp.contains(" nopw=err passwordrequired ") {
                    fail(format!("opening without a password is not the password-required error: nopw=`{}`", get("nopw")));
                }
                if !resp.ends_with(" plainpw=same") {
                    fail("a password supplied for a non-encrypted entry was not ignored".into());
                }
                let ar = match build_arch(&pw, &m, n("n") as usize, n("pos") as usize, &data) { Ok(x) => x, Err(e) => { fail(format!("writer failed: {e}")); return f; } };
                let raw = match raw_of(&ar.bytes, ar.pos) { Ok(x) => x, Err(e) => { fail(format!("raw bytes: {e}")); return f; } };
                if resp.contains(" wrong=diff ") && wrong != pw {
                    match open_and_read(&ar.bytes, ar.pos, Some(&wrong)) {
                        Ok(d) if d != data => fail(judge_wrong_completed(&raw, &wrong, pk::crc32(&data), &d)),
                        Ok(_) if resp.contains(" wrong=diff ") => fail("wrong=diff is not reproducible: the same read now returns the original bytes".into()),
                        _ => {}
                    }
                }
                let plain = pk::Keys::new(&pw).decrypt(&raw);
                let crc = pk::crc32(&data);
                if plain.len() < 12 || plain[..11] != [0u8; 11] || plain[11] != (crc >> 24) as u8 {
                    fail("independent decryption of the stored bytes does not show the header (11 zero bytes, crc>>24)".into());
                } else {
                    let payload = &plain[12..];
                    let content = match mnum(&m) {
                        Some(0) => payload.to_vec(),
                        Some(mn) => super::read::direct_decode(mn, payload).unwrap_or_default(),
                        None => vec![],
                    };
                    if content != data {
                        fail("independent decryption (+ the codec library called directly) of the stored bytes does not give the content".into());
                    }
                }
                if m == "stored" && data.len() >= 16 && data.iter().any(|&b| b != data[0]) && contains(&ar.bytes, &data[..16]) {
                    fail("observation: 16 plaintext bytes of the encrypted entry appear verbatim in the archive".into());
                }
                if let Some(tool) = a.get("x") {
                    match foreign_read(tool, &ar.bytes, enc_name(ar.pos), &pw) {
                        Ok(d) if d == data => {}
                        Ok(_) => fail(format!("{tool} decrypts the crate's entry to different bytes")),
                        Err(e) => fail(format!("{tool} cannot read the crate's encrypted entry: {e}")),
                    }
                }
            }
            "zc.reopen" => {
                // each open behaves like the FIRST open of that kind on a fresh archive object
                let (pw, data, wrong) = (h("pw"), h("data"), h("wrong"));
                let m = a.get("m").cloned().unwrap_or_default();
                let seq = a.get("seq").cloned().unwrap_or_default();
                let ar = match build_arch(&pw, &m, n("n") as usize, n("pos") as usize, &data) { Ok(x) => x, Err(e) => { fail(format!("writer failed: {e}")); return f; } };
                let raw = match raw_of(&ar.bytes, ar.pos) { Ok(x) => x, Err(e) => { fail(format!("raw bytes: {e}")); return f; } };
                let got: Vec<&str> = resp.strip_prefix("reopen ").unwrap_or("").split('|').collect();
                let steps: Vec<&str> = seq.split(',').collect();
                if got.len() != steps.len() {
                    fail(format!("reopen: {} outcomes for {} opens: `{}`", got.len(), steps.len(), &resp[..resp.len().min(120)]));
                    return f;
                }
                for (i, (st, g1)) in steps.iter().zip(got.iter()).enumerate() {
                    let fresh = reopen_run(&ar, &pw, &wrong, &data, &raw, st);
                    if fresh != *g1 {
                        fail(format!("open {} of {} (`{st}` in seq={seq}) on a used archive object gives `{g1}`, the same open on a fresh one `{fresh}`: each open must behave like the first", i + 1, steps.len()));
                        break;
                    }
                    if *st == "r" && *g1 != "same" {
                        fail(format!("open {} (`r`): the right password does not return the original bytes: `{g1}`", i + 1));
                        break;
                    }
                }
            }
            "zc.fentry" => {
                let want = format!("ok {}", hex(&h("data")));
                if resp != want {
                    fail(format!("entry encrypted by {} is not decrypted to its content: `{}`", a.get("prod").cloned().unwrap_or_default(), &resp[..resp.len().min(120)]));
                }
            }
            _ => {}
        }
        f
    }

    fn nontrivial(&self, _line: &str, resp: &str) -> bool {
        !(resp.starts_with("err") || resp == "bad-op" || resp == "badpw" || resp == "invalidpw" || resp.starts_with("tool-failed"))
    }
}
