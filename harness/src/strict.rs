//! Independent STRICT parser for ZIP archives (property C02), written from PKWARE APPNOTE 6.3.x
//! sections 4.3 (records), 4.4 (fields) and 4.5 (extensible data) only.  It never calls the `zip`
//! crate and shares no code with `mkzip.rs` (the builder): a misunderstanding of the format would have
//! to be made twice, independently, to go unnoticed.
//!
//! What is checked (hard errors unless stated otherwise):
//!  * 4.3.16 end of central directory record: the LAST one whose comment reaches exactly the end of the
//!    file (`allow_trailing`: anywhere before the end); single-disk numbers; both counts equal;
//!  * 4.3.15 / 4.3.14 ZIP64 locator + ZIP64 end record: when the locator is present the record it names
//!    must sit immediately before it (size field 44, disks 0/0/1, both counts equal); the 16/32-bit
//!    fields of the end record must hold `min(value, sentinel)`; a sentinel without ZIP64 records is
//!    refused;
//!  * 4.3.12 central directory: exactly `count` records from the recorded offset, ending exactly at
//!    offset + size; 4.5.1 extra data is a sequence of (id, len, payload); 4.5.3 ZIP64 extended
//!    information holds exactly the fields whose 32-bit slot is 0xFFFFFFFF, in the order uncompressed,
//!    compressed, offset (, disk); a ZIP64 record that no slot asks for, or a second one, is a WARNING;
//!  * 4.3.7 local header of every entry: signature, flags, method, time, date and name equal to the
//!    central record's; CRC and sizes equal (or ZIP64 sentinels + the 16-byte local ZIP64 record; or
//!    bit 3 + 4.3.9 data descriptor in any of its four forms, which must follow the data);
//!    the data range is computed from the LOCAL name / extra lengths;
//!  * all regions (local header + data + descriptor per entry, central directory, ZIP64 end record,
//!    locator, end record) lie inside the file and are pairwise disjoint; gaps are INFORMATION;
//!  * bit 11 is set exactly for names with a byte >= 0x80 and such names are valid UTF-8 (switchable:
//!    this is the crate writer's contract, foreign archives need not obey it); bit 0 agrees;
//!  * unencrypted entries with method 0 / 8 / 12 / 93 are decoded with flate2 / bzip2 / zstd called
//!    directly; CRC-32 and length must equal the central record's; ZipCrypto entries need >= 12 bytes.
#![allow(dead_code)]
use std::io::Read;

const SIG_LOCAL: u32 = 0x0403_4b50;
const SIG_CENTRAL: u32 = 0x0201_4b50;
const SIG_END: u32 = 0x0605_4b50;
const SIG_END64: u32 = 0x0606_4b50;
const SIG_LOC64: u32 = 0x0706_4b50;
const SIG_DESC: u32 = 0x0807_4b50;
const M16: u64 = 0xFFFF;
const M32: u64 = 0xFFFF_FFFF;

#[derive(Clone, Debug)]
pub struct StrictOpts {
    /// bytes in front of the archive proper: every recorded offset is relative to this position
    pub prefix: u64,
    /// accept bytes after the end record's comment
    pub allow_trailing: bool,
    /// bit 11 set <=> name has a non-ASCII byte (and then the name is valid UTF-8)
    pub utf8_contract: bool,
    /// ... demanded of the entries with index >= this (entries inherited from a foreign base are exempt)
    pub utf8_from: usize,
    /// decode the data of unencrypted entries and check CRC-32 / length
    pub decode: bool,
    /// indices whose data are not decoded (raw copies of sources that were inconsistent themselves)
    pub skip_data: Vec<usize>,
    /// a 0xFFFF / 0xFFFFFFFF field in the end record without ZIP64 records is an error (APPNOTE reads the
    /// value as a marker only "if an archive is in ZIP64 format"; switch off to take it literally)
    pub sentinel_requires_zip64: bool,
    /// `bytes` is a WINDOW of a larger file that starts at this absolute position of it (sparse sinks beyond
    /// 4 GiB): a recorded offset `o` is looked up at `prefix + o - window_base`; an offset in front of the
    /// window is outside the file.  0 = `bytes` is the whole file.
    pub window_base: u64,
}

impl StrictOpts {
    /// position inside `bytes` of the recorded offset `off`
    pub fn pos(&self, off: u64) -> Option<u64> { self.prefix.checked_add(off)?.checked_sub(self.window_base) }
}

impl Default for StrictOpts {
    fn default() -> Self {
        StrictOpts { prefix: 0, allow_trailing: false, utf8_contract: true, utf8_from: 0, decode: true, skip_data: vec![], sentinel_requires_zip64: true, window_base: 0 }
    }
}

impl StrictOpts {
    /// for archives of other producers: no UTF-8 contract
    pub fn foreign() -> Self {
        StrictOpts { utf8_contract: false, ..Default::default() }
    }
}

#[derive(Clone, Debug, Default)]
pub struct StrictEntry {
    /// name bytes of the central record / of the local header
    pub name: Vec<u8>,
    pub local_name: Vec<u8>,
    pub method: u16,
    /// general purpose flags of the central record / of the local header
    pub flags: u16,
    pub local_flags: u16,
    pub dos_time: u16,
    pub dos_date: u16,
    pub crc: u32,
    pub compressed_size: u64,
    pub uncompressed_size: u64,
    /// position of the local header in the file (prefix included)
    pub header_offset: u64,
    /// `[data_start, data_end)` = the stored bytes; `descriptor_len` bytes of data descriptor follow
    pub data_start: u64,
    pub data_end: u64,
    pub descriptor_len: u64,
    pub external_attrs: u32,
    pub internal_attrs: u16,
    pub version_made_by: u16,
    pub version_needed: u16,
    pub local_version_needed: u16,
    pub local_extra: Vec<(u16, Vec<u8>)>,
    pub central_extra: Vec<(u16, Vec<u8>)>,
    pub comment: Vec<u8>,
    pub encrypted: bool,
    /// CRC-32 and length of the decoded data when it was decoded
    pub decoded: Option<(u32, u64)>,
}

#[derive(Clone, Debug, Default)]
pub struct StrictView {
    pub entries: Vec<StrictEntry>,
    pub comment: Vec<u8>,
    pub count: u64,
    pub cd_offset: u64,
    pub cd_size: u64,
    pub end_offset: u64,
    pub zip64: bool,
    /// legal but unusual constructions (redundant / duplicate ZIP64 records, forced sentinels, ...)
    pub warnings: Vec<String>,
    /// dead bytes between regions: (start, end, what precedes)
    pub gaps: Vec<(u64, u64)>,
    pub dead_bytes: u64,
}

pub struct StrictReport {
    pub view: Option<StrictView>,
    pub errors: Vec<String>,
    pub warnings: Vec<String>,
}

fn r16(b: &[u8], p: usize) -> Option<u64> {
    let s = b.get(p..p.checked_add(2)?)?;
    Some(u16::from_le_bytes([s[0], s[1]]) as u64)
}
fn r32(b: &[u8], p: usize) -> Option<u64> {
    let s = b.get(p..p.checked_add(4)?)?;
    Some(u32::from_le_bytes([s[0], s[1], s[2], s[3]]) as u64)
}
fn r64(b: &[u8], p: usize) -> Option<u64> {
    let s = b.get(p..p.checked_add(8)?)?;
    let mut a = [0u8; 8];
    a.copy_from_slice(s);
    Some(u64::from_le_bytes(a))
}

/// 4.5.1: header id (2), data size (2), data — repeated, filling the field exactly.
pub fn parse_extra(x: &[u8]) -> Result<Vec<(u16, Vec<u8>)>, String> {
    let mut out = vec![];
    let mut p = 0usize;
    while p < x.len() {
        if x.len() - p < 4 {
            return Err(format!("{} stray byte(s) after the last extra record", x.len() - p));
        }
        let id = r16(x, p).unwrap() as u16;
        let n = r16(x, p + 2).unwrap() as usize;
        if p + 4 + n > x.len() {
            return Err(format!("extra record 0x{id:04x} declares {n} bytes, {} are left", x.len() - p - 4));
        }
        out.push((id, x[p + 4..p + 4 + n].to_vec()));
        p += 4 + n;
    }
    Ok(out)
}

fn hx(b: &[u8]) -> String {
    let mut s = String::new();
    for x in b.iter().take(24) { s += &format!("{x:02x}"); }
    if b.len() > 24 { s += &format!("..({} bytes)", b.len()); }
    if b.is_empty() { s.push('-'); }
    s
}

fn decode_limited(method: u16, raw: &[u8], limit: u64) -> Result<(Vec<u8>, Option<u64>), String> {
    let mut out = vec![];
    match method {
        0 => Ok((raw.to_vec(), None)),
        8 => {
            let mut d = flate2::read::DeflateDecoder::new(raw);
            (&mut d).take(limit).read_to_end(&mut out).map_err(|e| e.to_string())?;
            let used = d.total_in();
            Ok((out, Some(used)))
        }
        12 => {
            let mut d = bzip2::read::BzDecoder::new(raw);
            (&mut d).take(limit).read_to_end(&mut out).map_err(|e| e.to_string())?;
            let used = d.total_in();
            Ok((out, Some(used)))
        }
        93 => {
            let d = zstd::stream::read::Decoder::new(raw).map_err(|e| e.to_string())?;
            d.take(limit).read_to_end(&mut out).map_err(|e| e.to_string())?;
            Ok((out, None))
        }
        _ => Err("no codec".into()),
    }
}

#[derive(Clone)]
struct EndInfo {
    end_pos: usize,
    comment: Vec<u8>,
    count: u64,
    cd_size: u64,
    cd_off: u64,
    zip64: Option<(usize, usize)>, // (position of the ZIP64 end record, position of the locator)
}

fn locate_end(b: &[u8], opts: &StrictOpts, errors: &mut Vec<String>, warnings: &mut Vec<String>) -> Option<EndInfo> {
    let len = b.len();
    if len < 22 {
        errors.push(format!("file has {len} bytes: too short for an end of central directory record"));
        return None;
    }
    let lo = if opts.allow_trailing { 0 } else { len.saturating_sub(22 + 65535) };
    let mut miss: Option<(usize, u64)> = None;
    let mut found = None;
    let mut p = len - 22;
    loop {
        if r32(b, p) == Some(SIG_END as u64) {
            let cl = r16(b, p + 20).unwrap();
            let end = p as u64 + 22 + cl;
            if end == len as u64 || (opts.allow_trailing && end <= len as u64) {
                found = Some(p);
                break;
            }
            if miss.is_none() { miss = Some((p, cl)); }
        }
        if p == lo { break; }
        p -= 1;
    }
    let p = match found {
        Some(p) => p,
        None => {
            match miss {
                Some((p, cl)) => errors.push(format!("end record signature at {p}, but its comment length {cl} does not end the file exactly: the record would end at {}, the file has {len} bytes", p as u64 + 22 + cl)),
                None => errors.push("no end of central directory record (signature 0x06054b50) in the last 65557 bytes".into()),
            }
            return None;
        }
    };
    let disk = r16(b, p + 4).unwrap();
    let cd_disk = r16(b, p + 6).unwrap();
    let n_here = r16(b, p + 8).unwrap();
    let n_all = r16(b, p + 10).unwrap();
    let size32 = r32(b, p + 12).unwrap();
    let off32 = r32(b, p + 16).unwrap();
    let cl = r16(b, p + 20).unwrap() as usize;
    let comment = b[p + 22..p + 22 + cl].to_vec();
    if disk != 0 && disk != M16 || cd_disk != 0 && cd_disk != M16 {
        errors.push(format!("end record: disk numbers {disk}/{cd_disk}, a single-file archive has 0/0"));
    }
    if n_here != n_all {
        errors.push(format!("end record: {n_here} entries on this disk but {n_all} in total"));
    }
    let info = EndInfo { end_pos: p, comment, count: n_all, cd_size: size32, cd_off: off32, zip64: None };
    let has_loc = p >= 20 && r32(b, p - 20) == Some(SIG_LOC64 as u64);
    if !has_loc {
        if disk == M16 || cd_disk == M16 {
            errors.push("end record: disk number 0xFFFF without ZIP64 end records".into());
        }
        let mut sent = vec![];
        if n_all == M16 || n_here == M16 { sent.push("entry count 0xFFFF"); }
        if size32 == M32 { sent.push("directory size 0xFFFFFFFF"); }
        if off32 == M32 { sent.push("directory offset 0xFFFFFFFF"); }
        if !sent.is_empty() {
            let m = format!("missing ZIP64 end records: the end record holds the marker value(s) {} but no ZIP64 locator precedes it", sent.join(", "));
            // APPNOTE asks for the marker (and the ZIP64 records) when a field is "too small to hold required data":
            // a value that EQUALS 0xFFFF / 0xFFFFFFFF fits, so the literal reading is legal - provided it is consistent
            // (the directory the fields name ends exactly at the end record; the record count is checked by the
            // directory walk). Exactly 65535 entries without ZIP64 records is such an archive.
            let literal_ok = opts.pos(off32).and_then(|s| s.checked_add(size32)) == Some(p as u64);
            if opts.sentinel_requires_zip64 && !literal_ok { errors.push(m); } else { warnings.push(m); }
        }
        return Some(info);
    }
    // A CANDIDATE locator.  When no field of the end record holds a marker nothing asks for ZIP64 records, and the four
    // bytes may just as well be the tail of the last central record (external attributes + header offset: known
    // finding K-F (ii)); a candidate lying inside the directory the end record names counts only if what it names
    // validates.  With a marker present the ZIP64
    // records are required and every defect of theirs is an error.
    let any_marker = n_all == M16 || n_here == M16 || size32 == M32 || off32 == M32 || disk == M16 || cd_disk == M16;
    let (mut e2, mut w2) = (vec![], vec![]);
    let r = zip64_records(b, p, opts, info.clone(), (n_here, n_all, size32, off32), &mut e2, &mut w2);
    // "ordinary bytes" only if the plain reading accounts for them: the directory the end record itself names ends
    // exactly where the end record starts, i.e. the candidate lies INSIDE the last central record (a forced-ZIP64
    // archive has its ZIP64 end record and locator between the directory and the end record)
    let plain_covers = opts.pos(off32).and_then(|s| s.checked_add(size32)) == Some(p as u64);
    if any_marker || !plain_covers || (r.is_some() && e2.is_empty()) {
        errors.extend(e2);
        warnings.extend(w2);
        return r;
    }
    warnings.push(format!("false ZIP64 locator signature 20 bytes in front of the end record: what it would name does not validate ({}) and no field of the end record holds a marker; taken for ordinary bytes", e2.first().cloned().unwrap_or_default()));
    Some(info)
}

/// 4.3.15 locator at `p - 20` + 4.3.14 ZIP64 end record it names.
fn zip64_records(b: &[u8], p: usize, opts: &StrictOpts, mut info: EndInfo, f32s: (u64, u64, u64, u64), errors: &mut Vec<String>, warnings: &mut Vec<String>) -> Option<EndInfo> {
    let (n_here, n_all, size32, off32) = f32s;
    let lp = p - 20;
    let l_disk = r32(b, lp + 4).unwrap();
    let l_off = r64(b, lp + 8).unwrap();
    let l_disks = r32(b, lp + 16).unwrap();
    if l_disk != 0 || l_disks != 1 {
        errors.push(format!("ZIP64 locator: disk of the ZIP64 end record {l_disk}, total disks {l_disks}; a single-file archive has 0 and 1"));
    }
    let zp = match opts.pos(l_off) {
        Some(z) if z.checked_add(56).map(|e| e <= lp as u64).unwrap_or(false) => z as usize,
        _ => {
            errors.push(format!("ZIP64 locator: offset {l_off} (+ prefix {}) leaves no room for a ZIP64 end record before the locator at {lp}", opts.prefix));
            return None;
        }
    };
    if r32(b, zp) != Some(SIG_END64 as u64) {
        errors.push(format!("ZIP64 locator points at {zp}, where there is no ZIP64 end record signature (found {})", hx(&b[zp..zp + 4])));
        return None;
    }
    let rec_size = r64(b, zp + 4).unwrap();
    if rec_size != 44 {
        errors.push(format!("ZIP64 end record: size field {rec_size}, a version-1 record without extensible data has 44"));
    }
    if rec_size.checked_add(12).and_then(|s| s.checked_add(zp as u64)) != Some(lp as u64) {
        errors.push(format!("ZIP64 end record at {zp} with size field {rec_size} does not end where the locator starts ({lp})"));
        return None;
    }
    let z_disk = r32(b, zp + 16).unwrap();
    let z_cd_disk = r32(b, zp + 20).unwrap();
    let z_here = r64(b, zp + 24).unwrap();
    let z_all = r64(b, zp + 32).unwrap();
    let z_size = r64(b, zp + 40).unwrap();
    let z_off = r64(b, zp + 48).unwrap();
    if z_disk != 0 || z_cd_disk != 0 {
        errors.push(format!("ZIP64 end record: disk numbers {z_disk}/{z_cd_disk}, expected 0/0"));
    }
    if z_here != z_all {
        errors.push(format!("ZIP64 end record: {z_here} entries on this disk but {z_all} in total"));
    }
    // the 16/32-bit fields hold the value, or the marker when it does not fit
    let mut fld = |name: &str, got: u64, val: u64, mark: u64| {
        if got == val.min(mark) { return; }
        if got == mark {
            warnings.push(format!("end record: {name} holds the ZIP64 marker although the value {val} fits (forced ZIP64)"));
        } else {
            errors.push(format!("end record: {name} is {got}, the ZIP64 end record says {val} (expected {})", val.min(mark)));
        }
    };
    fld("entry count on this disk", n_here, z_here, M16);
    fld("entry count", n_all, z_all, M16);
    fld("directory size", size32, z_size, M32);
    fld("directory offset", off32, z_off, M32);
    info.count = z_all;
    info.cd_size = z_size;
    info.cd_off = z_off;
    info.zip64 = Some((zp, lp));
    Some(info)
}

/// Parse and judge `bytes`; never panics on arbitrary input.
pub fn strict_parse(bytes: &[u8], opts: &StrictOpts) -> StrictReport {
    let b = bytes;
    let len = b.len() as u64;
    let mut errors: Vec<String> = vec![];
    let mut warnings: Vec<String> = vec![];
    let info = match locate_end(b, opts, &mut errors, &mut warnings) {
        Some(i) => i,
        None => return StrictReport { view: None, errors, warnings },
    };
    let mut view = StrictView { comment: info.comment.clone(), count: info.count, cd_size: info.cd_size, end_offset: info.end_pos as u64, zip64: info.zip64.is_some(), ..Default::default() };
    // regions: (start, end, label)
    let mut regions: Vec<(u64, u64, String)> = vec![];
    regions.push((info.end_pos as u64, info.end_pos as u64 + 22 + info.comment.len() as u64, "end record".into()));
    if let Some((zp, lp)) = info.zip64 {
        regions.push((zp as u64, lp as u64, "ZIP64 end record".into()));
        regions.push((lp as u64, lp as u64 + 20, "ZIP64 locator".into()));
    }
    let tail_start = info.zip64.map(|z| z.0).unwrap_or(info.end_pos) as u64;
    // ---- central directory
    let cd_start = match opts.pos(info.cd_off) {
        Some(s) if s <= tail_start => s,
        _ => {
            errors.push(format!("central directory offset {} (+ prefix {}) lies beyond the end records at {tail_start}", info.cd_off, opts.prefix));
            return StrictReport { view: None, errors, warnings };
        }
    };
    let cd_end = match cd_start.checked_add(info.cd_size) {
        Some(e) if e <= tail_start => e,
        _ => {
            errors.push(format!("central directory [{cd_start}, +{}) runs into the end records at {tail_start}", info.cd_size));
            return StrictReport { view: None, errors, warnings };
        }
    };
    view.cd_offset = cd_start;
    if info.count.checked_mul(46).map(|m| m > info.cd_size).unwrap_or(true) {
        errors.push(format!("{} central records cannot fit in a directory of {} bytes", info.count, info.cd_size));
        return StrictReport { view: None, errors, warnings };
    }
    if info.cd_size > 0 || info.count > 0 {
        regions.push((cd_start, cd_end, "central directory".into()));
    }
    let mut p = cd_start as usize;
    let cde = cd_end as usize;
    for i in 0..info.count as usize {
        if p + 46 > cde {
            errors.push(format!("central record {i} at {p} does not fit in the directory, which ends at {cde} ({} of {} records parsed)", i, info.count));
            return StrictReport { view: None, errors, warnings };
        }
        if r32(b, p) != Some(SIG_CENTRAL as u64) {
            errors.push(format!("central record {i}: no central header signature at {p} (found {})", hx(&b[p..p + 4])));
            return StrictReport { view: None, errors, warnings };
        }
        let g16 = |o: usize| r16(b, p + o).unwrap();
        let g32 = |o: usize| r32(b, p + o).unwrap();
        let (made_by, needed, flags, method, time, date) = (g16(4), g16(6), g16(8), g16(10), g16(12), g16(14));
        let (crc, cs32, us32) = (g32(16), g32(20), g32(24));
        let (nl, xl, cl) = (g16(28) as usize, g16(30) as usize, g16(32) as usize);
        let (disk0, iattr, eattr, off32) = (g16(34), g16(36), g32(38), g32(42));
        let rec_end = p + 46 + nl + xl + cl;
        if rec_end > cde {
            errors.push(format!("central record {i} at {p}: name {nl} + extra {xl} + comment {cl} bytes run past the end of the directory at {cde}"));
            return StrictReport { view: None, errors, warnings };
        }
        let name = b[p + 46..p + 46 + nl].to_vec();
        let extra_raw = &b[p + 46 + nl..p + 46 + nl + xl];
        let comment = b[p + 46 + nl + xl..rec_end].to_vec();
        let mut e = StrictEntry {
            name, method: method as u16, flags: flags as u16, dos_time: time as u16, dos_date: date as u16, crc: crc as u32,
            compressed_size: cs32, uncompressed_size: us32, header_offset: off32, external_attrs: eattr as u32, internal_attrs: iattr as u16,
            version_made_by: made_by as u16, version_needed: needed as u16, comment, encrypted: flags & 1 == 1, ..Default::default()
        };
        let mut disk = disk0;
        match parse_extra(extra_raw) {
            Err(m) => errors.push(format!("entry {i}: central extra field: {m}")),
            Ok(recs) => {
                let z: Vec<&(u16, Vec<u8>)> = recs.iter().filter(|r| r.0 == 1).collect();
                let want = [us32 == M32, cs32 == M32, off32 == M32];
                let want_disk = disk0 == M16;
                let n_want = want.iter().filter(|w| **w).count() * 8 + if want_disk { 4 } else { 0 };
                if z.len() > 1 {
                    warnings.push(format!("entry {i}: {} ZIP64 extended information records in the central extra field (duplicate; the first is used)", z.len()));
                }
                match z.first() {
                    None => {
                        if n_want > 0 {
                            let what: Vec<&str> = [(want[0], "uncompressed size"), (want[1], "compressed size"), (want[2], "header offset")].iter().filter(|w| w.0).map(|w| w.1).collect();
                            errors.push(format!("entry {i}: missing ZIP64 record: the central {} field(s) hold 0xFFFFFFFF but the extra field has no ZIP64 extended information", what.join(" / ")));
                        }
                    }
                    Some((_, pl)) => {
                        if n_want == 0 {
                            warnings.push(format!("entry {i}: redundant ZIP64 extended information record ({} bytes) in the central extra field: no 32-bit field holds the marker", pl.len()));
                        } else if pl.len() != n_want {
                            errors.push(format!("entry {i}: central ZIP64 record holds {} bytes, the marker fields ask for exactly {n_want}", pl.len()));
                        } else {
                            let mut q = 0;
                            if want[0] { e.uncompressed_size = r64(pl, q).unwrap(); q += 8; }
                            if want[1] { e.compressed_size = r64(pl, q).unwrap(); q += 8; }
                            if want[2] { e.header_offset = r64(pl, q).unwrap(); q += 8; }
                            if want_disk { disk = r32(pl, q).unwrap(); }
                        }
                    }
                }
                e.central_extra = recs;
            }
        }
        if disk != 0 {
            errors.push(format!("entry {i}: starts on disk {disk}; a single-file archive has disk 0 only"));
        }
        view.entries.push(e);
        p = rec_end;
    }
    if p != cde {
        errors.push(format!("the {} central records end at {p}, but offset + size of the directory say {cde} ({} bytes unaccounted)", info.count, cde - p));
    }
    // ---- local headers
    // starts of everything a data descriptor could run into
    let mut starts: Vec<u64> = view.entries.iter().filter_map(|e| opts.pos(e.header_offset)).collect();
    starts.push(cd_start);
    starts.sort_unstable();
    let n_entries = view.entries.len();
    for i in 0..n_entries {
        let e = &mut view.entries[i];
        let lp = match opts.pos(e.header_offset) {
            Some(x) if x.checked_add(30).map(|y| y <= len).unwrap_or(false) => x as usize,
            _ => {
                errors.push(format!("entry {i}: local header offset {} (+ prefix {}) lies outside the file of {len} bytes", e.header_offset, opts.prefix));
                continue;
            }
        };
        e.header_offset = lp as u64;
        if r32(b, lp) != Some(SIG_LOCAL as u64) {
            errors.push(format!("entry {i}: wrong offset: no local header signature at {lp} (found {})", hx(&b[lp..lp + 4])));
            continue;
        }
        let g16 = |o: usize| r16(b, lp + o).unwrap();
        let g32 = |o: usize| r32(b, lp + o).unwrap();
        let (lver, lflags, lmethod, ltime, ldate) = (g16(4), g16(6), g16(8), g16(10), g16(12));
        let (lcrc, lcs, lus) = (g32(14), g32(18), g32(22));
        let (lnl, lxl) = (g16(26) as usize, g16(28) as usize);
        e.local_version_needed = lver as u16;
        e.local_flags = lflags as u16;
        let data_start = lp as u64 + 30 + lnl as u64 + lxl as u64;
        if data_start > len {
            errors.push(format!("entry {i}: local name ({lnl}) and extra ({lxl}) lengths run past the end of the file"));
            continue;
        }
        let lname = &b[lp + 30..lp + 30 + lnl];
        e.local_name = lname.to_vec();
        let lextra_raw = &b[lp + 30 + lnl..lp + 30 + lnl + lxl];
        if lname != &e.name[..] {
            errors.push(format!("entry {i}: local name {} ({} bytes) != central name {} ({} bytes)", hx(lname), lname.len(), hx(&e.name), e.name.len()));
        }
        if (lflags as u16 ^ e.flags) & 1 != 0 {
            errors.push(format!("entry {i}: encryption flag (bit 0) differs: local {}, central {}", lflags & 1, e.flags & 1));
        }
        if lflags as u16 != e.flags {
            errors.push(format!("entry {i}: local flags 0x{lflags:04x} != central flags 0x{:04x}", e.flags));
        }
        if lmethod as u16 != e.method { errors.push(format!("entry {i}: local method {lmethod} != central method {}", e.method)); }
        if ltime as u16 != e.dos_time || ldate as u16 != e.dos_date {
            errors.push(format!("entry {i}: local time/date {ltime:04x}/{ldate:04x} != central {:04x}/{:04x}", e.dos_time, e.dos_date));
        }
        let mut lz: Option<Vec<u8>> = None;
        match parse_extra(lextra_raw) {
            Err(m) => errors.push(format!("entry {i}: local extra field: {m}")),
            Ok(recs) => {
                let z: Vec<&(u16, Vec<u8>)> = recs.iter().filter(|r| r.0 == 1).collect();
                if z.len() > 1 { warnings.push(format!("entry {i}: {} ZIP64 records in the local extra field (duplicate)", z.len())); }
                lz = z.first().map(|r| r.1.clone());
                e.local_extra = recs;
            }
        }
        let data_end = match data_start.checked_add(e.compressed_size) {
            Some(x) if x <= len => x,
            _ => {
                errors.push(format!("entry {i}: data [{data_start}, +{}) run past the end of the file ({len} bytes)", e.compressed_size));
                continue;
            }
        };
        e.data_start = data_start;
        e.data_end = data_end;
        let (ccrc, ccs, cus) = (e.crc as u64, e.compressed_size, e.uncompressed_size);
        // sizes recorded locally: the 32-bit slots, or the 16-byte ZIP64 record where a slot holds the marker
        let marker = lcs == M32 || lus == M32;
        let mut l_sizes: Option<(u64, u64)> = Some((lcs, lus));   // (compressed, uncompressed) as the local header states them
        if marker {
            match &lz {
                None => {
                    errors.push(format!("entry {i}: missing ZIP64 record: local size field(s) hold 0xFFFFFFFF but the local extra field has no ZIP64 extended information"));
                    l_sizes = None;
                }
                Some(pl) if pl.len() != 16 => {
                    errors.push(format!("entry {i}: local ZIP64 record holds {} bytes; in a local header it must carry both sizes (16 bytes)", pl.len()));
                    l_sizes = None;
                }
                Some(pl) => {
                    let (zu, zc) = (r64(pl, 0).unwrap(), r64(pl, 8).unwrap());
                    l_sizes = Some((if lcs == M32 { zc } else { lcs }, if lus == M32 { zu } else { lus }));
                }
            }
        } else if let Some(pl) = &lz {
            warnings.push(format!("entry {i}: redundant ZIP64 record ({} bytes) in the local extra field: no local size field holds the marker", pl.len()));
        }
        if lflags & 8 != 0 {
            // 4.4.4 bit 3: crc and sizes are zero in the local header, the real values follow the data
            if let Some((a, c)) = l_sizes {
                let zero = lcrc == 0 && a == 0 && c == 0;
                let same = lcrc == ccrc && a == ccs && c == cus;
                if !zero && !same {
                    errors.push(format!("entry {i}: bit 3 is set, but the local crc/sizes {lcrc}/{a}/{c} are neither zero nor the central values {ccrc}/{ccs}/{cus}"));
                }
            }
            let de = data_end as usize;
            let limit = starts.iter().copied().find(|s| *s >= data_end && *s != lp as u64).unwrap_or(len).min(len);
            // forms: (has signature, 64-bit sizes)
            let mut fits: Vec<u64> = vec![];
            for (sig, wide) in [(true, true), (true, false), (false, true), (false, false)] {
                let mut q = de;
                if sig {
                    if r32(b, q) != Some(SIG_DESC as u64) { continue; }
                    q += 4;
                }
                let crc = r32(b, q);
                let (cs, us, n) = if wide { (r64(b, q + 4), r64(b, q + 12), 20) } else { (r32(b, q + 4), r32(b, q + 8), 12) };
                if crc == Some(ccrc) && cs == Some(ccs) && us == Some(cus) {
                    fits.push((q + n - de) as u64);
                }
            }
            if fits.is_empty() {
                errors.push(format!("entry {i}: bit 3 is set, but no data descriptor (any of the four forms) with crc {ccrc}, sizes {ccs}/{cus} follows the data at {de} (found {})", hx(&b[de.min(b.len())..(de + 24).min(b.len())])));
            } else {
                fits.sort_unstable();
                let best = fits.iter().rev().copied().find(|n| data_end + n <= limit).unwrap_or(fits[0]);
                e.descriptor_len = best;
            }
        } else {
            if lcrc != ccrc { errors.push(format!("entry {i}: local crc {lcrc:08x} != central crc {ccrc:08x}")); }
            if let Some((a, c)) = l_sizes {
                if a != ccs || c != cus {
                    errors.push(format!("entry {i}: local sizes {a}/{c} != central sizes {ccs}/{cus}"));
                }
            }
        }
        regions.push((lp as u64, data_end + e.descriptor_len, format!("entry {i}")));
        // ---- flags
        if opts.utf8_contract && i >= opts.utf8_from {
            let non_ascii = e.name.iter().any(|c| *c >= 0x80);
            let bit = e.flags & 0x0800 != 0;
            if non_ascii != bit {
                errors.push(format!("entry {i}: wrong UTF-8 flag: bit 11 is {} but the name {} a non-ASCII byte", if bit { "set" } else { "clear" }, if non_ascii { "has" } else { "has not" }));
            }
            if bit && std::str::from_utf8(&e.name).is_err() {
                errors.push(format!("entry {i}: bit 11 is set but the name is not valid UTF-8"));
            }
        }
        // ---- data
        if e.encrypted {
            if e.flags & 0x40 == 0 && e.method != 99 && e.compressed_size < 12 {
                errors.push(format!("entry {i}: ZipCrypto entry with {} stored bytes: the 12-byte encryption header does not fit", e.compressed_size));
            }
        } else if opts.decode && !opts.skip_data.contains(&i) && matches!(e.method, 0 | 8 | 12 | 93) {
            let raw = &b[data_start as usize..data_end as usize];
            match decode_limited(e.method, raw, e.uncompressed_size.saturating_add(1)) {
                Err(m) => errors.push(format!("entry {i}: stored data do not decode with method {}: {m}", e.method)),
                Ok((d, used)) => {
                    let c = crc32fast::hash(&d);
                    e.decoded = Some((c, d.len() as u64));
                    if d.len() as u64 != e.uncompressed_size {
                        errors.push(format!("entry {i}: data decode to {}{} bytes, the central record says {}", if d.len() as u64 > e.uncompressed_size { "more than " } else { "" }, d.len().min(e.uncompressed_size as usize), e.uncompressed_size));
                    } else if c != e.crc {
                        errors.push(format!("entry {i}: decoded data have crc {c:08x}, the central record says {:08x}", e.crc));
                    }
                    if let Some(u) = used {
                        if u != raw.len() as u64 && d.len() as u64 == e.uncompressed_size {
                            warnings.push(format!("entry {i}: the decoder consumed {u} of the {} stored bytes", raw.len()));
                        }
                    }
                }
            }
        }
        // ---- version needed (information): ZIP64 needs 4.5
        if (marker || e.central_extra.iter().any(|r| r.0 == 1)) && (e.version_needed & 0xFF) < 45 {
            warnings.push(format!("entry {i}: ZIP64 extended information with version needed {}", e.version_needed & 0xFF));
        }
    }
    // ---- regions inside the file, pairwise disjoint
    regions.sort_by(|a, b| (a.0, a.1).cmp(&(b.0, b.1)));
    let mut cursor = 0u64;
    let mut last = String::from("start of file");
    for (s, t, what) in &regions {
        if *t > len {
            errors.push(format!("{what} [{s}, {t}) runs past the end of the file ({len} bytes)"));
        }
        if *s < cursor {
            errors.push(format!("overlap: {what} [{s}, {t}) starts before the end of {last} at {cursor}"));
        } else if *s > cursor {
            view.gaps.push((cursor, *s));
            view.dead_bytes += *s - cursor;
        }
        if *t > cursor {
            cursor = *t;
            last = what.clone();
        }
    }
    if cursor < len {
        view.gaps.push((cursor, len));
        view.dead_bytes += len - cursor;
    }
    view.warnings = warnings.clone();
    StrictReport { view: Some(view), errors, warnings }
}

/// `Ok(view)` when no hard error was found (warnings and gaps are inside the view).
pub fn strict_check(bytes: &[u8], opts: &StrictOpts) -> Result<StrictView, Vec<String>> {
    let r = strict_parse(bytes, opts);
    match (r.errors.is_empty(), r.view) {
        (true, Some(v)) => Ok(v),
        (true, None) => Err(vec!["no view".into()]),
        (false, _) => Err(r.errors),
    }
}

#[cfg(test)]
mod tests {
    use super::*;

    // A tiny assembler for the tests only (hand-laid records; deliberately not the harness builder).
    fn le16(v: &mut Vec<u8>, x: u16) { v.extend_from_slice(&x.to_le_bytes()); }
    fn le32(v: &mut Vec<u8>, x: u32) { v.extend_from_slice(&x.to_le_bytes()); }
    fn le64(v: &mut Vec<u8>, x: u64) { v.extend_from_slice(&x.to_le_bytes()); }

    struct E { name: Vec<u8>, flags: u16, method: u16, data: Vec<u8>, crc: u32, usize_: u32, lextra: Vec<u8>, cextra: Vec<u8>, cs32: u32, us32: u32, off32: Option<u32> }
    fn stored(name: &[u8], content: &[u8]) -> E {
        E { name: name.to_vec(), flags: 0, method: 0, data: content.to_vec(), crc: crc32fast::hash(content), usize_: content.len() as u32, lextra: vec![], cextra: vec![], cs32: content.len() as u32, us32: content.len() as u32, off32: None }
    }
    fn local(v: &mut Vec<u8>, e: &E) {
        le32(v, 0x04034b50); le16(v, 20); le16(v, e.flags); le16(v, e.method); le16(v, 0x6000); le16(v, 0x5821);
        le32(v, e.crc); le32(v, e.data.len() as u32); le32(v, e.usize_);
        le16(v, e.name.len() as u16); le16(v, e.lextra.len() as u16);
        v.extend_from_slice(&e.name); v.extend_from_slice(&e.lextra); v.extend_from_slice(&e.data);
    }
    fn central(v: &mut Vec<u8>, e: &E, off: u32) {
        le32(v, 0x02014b50); le16(v, 0x0314); le16(v, 20); le16(v, e.flags); le16(v, e.method); le16(v, 0x6000); le16(v, 0x5821);
        le32(v, e.crc); le32(v, e.cs32); le32(v, e.us32);
        le16(v, e.name.len() as u16); le16(v, e.cextra.len() as u16); le16(v, 0); le16(v, 0); le16(v, 0);
        le32(v, 0o100644 << 16); le32(v, e.off32.unwrap_or(off));
        v.extend_from_slice(&e.name); v.extend_from_slice(&e.cextra);
    }
    fn end(v: &mut Vec<u8>, n: u16, size: u32, off: u32, comment: &[u8]) {
        le32(v, 0x06054b50); le16(v, 0); le16(v, 0); le16(v, n); le16(v, n); le32(v, size); le32(v, off);
        le16(v, comment.len() as u16); v.extend_from_slice(comment);
    }
    fn archive(es: &[E], comment: &[u8]) -> Vec<u8> {
        let mut v = vec![];
        let mut offs = vec![];
        for e in es { offs.push(v.len() as u32); local(&mut v, e); }
        let cd = v.len() as u32;
        for (e, o) in es.iter().zip(&offs) { central(&mut v, e, *o); }
        let size = v.len() as u32 - cd;
        end(&mut v, es.len() as u16, size, cd, comment);
        v
    }
    fn errs(b: &[u8], o: &StrictOpts) -> Vec<String> { strict_check(b, o).err().unwrap_or_default() }
    fn has(v: &[String], s: &str) -> bool { v.iter().any(|m| m.contains(s)) }

    #[test]
    fn minimal_valid() {
        let b = archive(&[stored(b"a.txt", b"hello"), stored(b"d/", b"")], b"cmt");
        let v = strict_check(&b, &StrictOpts::default()).expect("valid");
        assert_eq!(v.entries.len(), 2);
        assert_eq!(v.entries[0].name, b"a.txt");
        assert_eq!(v.entries[0].crc, crc32fast::hash(b"hello"));
        assert_eq!(v.entries[0].decoded, Some((crc32fast::hash(b"hello"), 5)));
        assert_eq!((v.entries[0].data_start, v.entries[0].data_end), (35, 40));
        assert_eq!(v.entries[1].header_offset, 40);
        assert_eq!(v.comment, b"cmt");
        assert!(v.gaps.is_empty() && v.warnings.is_empty() && !v.zip64);
        // the empty archive
        let b = archive(&[], b"");
        assert_eq!(b.len(), 22);
        assert_eq!(strict_check(&b, &StrictOpts::default()).unwrap().entries.len(), 0);
    }

    #[test]
    fn deflate_and_crc() {
        use std::io::Write;
        let plain = b"hello hello hello hello hello".to_vec();
        let mut enc = flate2::write::DeflateEncoder::new(vec![], flate2::Compression::default());
        enc.write_all(&plain).unwrap();
        let comp = enc.finish().unwrap();
        let mut e = stored(b"z", &comp);
        e.method = 8; e.crc = crc32fast::hash(&plain); e.usize_ = plain.len() as u32; e.us32 = plain.len() as u32;
        let b = archive(&[e], b"");
        let v = strict_check(&b, &StrictOpts::default()).expect("valid");
        assert_eq!(v.entries[0].decoded, Some((crc32fast::hash(&plain), plain.len() as u64)));
        // wrong crc in both headers: structure fine, data check fails
        let mut e = stored(b"z", b"abc");
        e.crc ^= 1;
        assert!(has(&errs(&archive(&[e], b""), &StrictOpts::default()), "decoded data have crc"));
        let mut e = stored(b"z", b"abc");
        e.crc ^= 1;
        assert!(strict_check(&archive(&[e], b""), &StrictOpts { decode: false, ..Default::default() }).is_ok());
    }

    #[test]
    fn wrong_offset() {
        let mut es = vec![stored(b"a", b"xx"), stored(b"b", b"yyy")];
        es[1].off32 = Some(34);   // one byte past the second local header
        assert!(has(&errs(&archive(&es, b""), &StrictOpts::default()), "wrong offset"));
        // directory offset off by one
        let mut b = archive(&[stored(b"a", b"xx")], b"");
        let p = b.len() - 6;
        b[p] += 1;
        let e = errs(&b, &StrictOpts::default());
        assert!(!e.is_empty(), "{e:?}");
        // directory size one too small: the last record runs past offset + size
        let mut b = archive(&[stored(b"a", b"xx")], b"");
        let p = b.len() - 10;
        b[p] -= 1;
        assert!(has(&errs(&b, &StrictOpts::default()), "past the end of the directory"));
        // directory size one too large (a dead byte follows the records): offset + size is not where they end
        let mut v = vec![];
        let a = stored(b"a", b"xx");
        local(&mut v, &a);
        let cd = v.len() as u32;
        central(&mut v, &a, 0);
        let size = v.len() as u32 - cd;
        v.push(0);
        end(&mut v, 1, size + 1, cd, b"");
        assert!(has(&errs(&v, &StrictOpts::default()), "unaccounted"));
        // wrong entry count
        let mut v = vec![];
        local(&mut v, &a);
        let cd = v.len() as u32;
        central(&mut v, &a, 0);
        central(&mut v, &a, 0);
        let size = v.len() as u32 - cd;
        end(&mut v, 1, size, cd, b"");
        assert!(has(&errs(&v, &StrictOpts::default()), "unaccounted"));
    }

    #[test]
    fn overlapping_entries() {
        // both central records name the same local header
        let mut es = vec![stored(b"a", b"xx"), stored(b"a", b"xx")];
        es[1].off32 = Some(0);
        assert!(has(&errs(&archive(&es, b""), &StrictOpts::default()), "overlap"));
        // the first entry claims more stored bytes than it has: its data run into the second header
        let mut v = vec![];
        let a = stored(b"a", b"0123456789");
        local(&mut v, &a);
        v.truncate(v.len() - 4);                     // second header starts inside a's data
        let o2 = v.len() as u32;
        let bb = stored(b"b", b"");
        local(&mut v, &bb);
        let cd = v.len() as u32;
        let mut a2 = stored(b"a", b"0123456789");
        a2.crc = a.crc;
        central(&mut v, &a2, 0);
        central(&mut v, &bb, o2);
        let size = v.len() as u32 - cd;
        end(&mut v, 2, size, cd, b"");
        let e = errs(&v, &StrictOpts { decode: false, ..Default::default() });
        assert!(has(&e, "overlap"), "{e:?}");
    }

    #[test]
    fn gaps_are_information() {
        let mut v = vec![9u8; 7];
        let a = stored(b"a", b"xx");
        local(&mut v, &a);
        v.extend_from_slice(&[1, 2, 3]);
        let cd = v.len() as u32;
        central(&mut v, &a, 7);
        let size = v.len() as u32 - cd;
        end(&mut v, 1, size, cd, b"");
        let view = strict_check(&v, &StrictOpts::default()).expect("gaps are legal");
        assert_eq!(view.gaps, vec![(0, 7), (40, 43)]);
        assert_eq!(view.dead_bytes, 10);
        // trailing bytes: refused unless allowed
        v.extend_from_slice(b"tail");
        assert!(has(&errs(&v, &StrictOpts::default()), "does not end the file exactly"));
        let view = strict_check(&v, &StrictOpts { allow_trailing: true, ..Default::default() }).expect("trailing allowed");
        assert_eq!(view.dead_bytes, 14);
        // a prefix with relative offsets
        let mut v = vec![7u8; 5];
        v.extend_from_slice(&archive(&[stored(b"a", b"xx")], b""));
        assert!(strict_check(&v, &StrictOpts::default()).is_err());
        assert!(strict_check(&v, &StrictOpts { prefix: 5, ..Default::default() }).is_ok());
    }

    #[test]
    fn missing_zip64() {
        // a central size slot holds the marker, no ZIP64 record
        let mut e = stored(b"a", b"xx");
        e.us32 = 0xFFFF_FFFF;
        assert!(has(&errs(&archive(&[e], b""), &StrictOpts::default()), "missing ZIP64 record"));
        // the marker with a proper record: fine
        let mut e = stored(b"a", b"xx");
        e.us32 = 0xFFFF_FFFF;
        le16(&mut e.cextra, 1); le16(&mut e.cextra, 8); le64(&mut e.cextra, 2);
        let v = strict_check(&archive(&[e], b""), &StrictOpts::default()).expect("forced ZIP64 field is legal");
        assert_eq!(v.entries[0].uncompressed_size, 2);
        // a record with more fields than the markers ask for
        let mut e = stored(b"a", b"xx");
        e.us32 = 0xFFFF_FFFF;
        le16(&mut e.cextra, 1); le16(&mut e.cextra, 16); le64(&mut e.cextra, 2); le64(&mut e.cextra, 2);
        assert!(has(&errs(&archive(&[e], b""), &StrictOpts::default()), "ask for exactly 8"));
        // a record nobody asks for: warning only
        let mut e = stored(b"a", b"xx");
        le16(&mut e.cextra, 1); le16(&mut e.cextra, 8); le64(&mut e.cextra, 2);
        let v = strict_check(&archive(&[e], b""), &StrictOpts::default()).expect("redundant record is legal");
        assert!(v.warnings.iter().any(|w| w.contains("redundant ZIP64")));
        // end record with the count marker and no ZIP64 end records
        let mut b = archive(&[stored(b"a", b"xx")], b"");
        let p = b.len() - 22;
        b[p + 8] = 0xFF; b[p + 9] = 0xFF; b[p + 10] = 0xFF; b[p + 11] = 0xFF;
        // the literal reading (65535 entries) is legal as such, but this directory holds one record: still an error
        assert!(!errs(&b, &StrictOpts::default()).is_empty());
        // a marker whose literal reading is inconsistent (directory offset 0xFFFFFFFF in a 100-byte file) needs ZIP64 records
        let mut b2 = archive(&[stored(b"a", b"xx")], b"");
        let p2 = b2.len() - 22;
        b2[p2 + 16] = 0xFF; b2[p2 + 17] = 0xFF; b2[p2 + 18] = 0xFF; b2[p2 + 19] = 0xFF;
        assert!(has(&errs(&b2, &StrictOpts::default()), "missing ZIP64 end records"));
        // malformed extra field
        let mut e = stored(b"a", b"xx");
        e.cextra = vec![0xfe, 0xca, 5, 0, 1];
        assert!(has(&errs(&archive(&[e], b""), &StrictOpts::default()), "central extra field"));
    }

    fn with_zip64_end(es: &[E], tweak: impl Fn(&mut Vec<u8>, usize)) -> Vec<u8> {
        let mut v = vec![];
        let mut offs = vec![];
        for e in es { offs.push(v.len() as u32); local(&mut v, e); }
        let cd = v.len() as u64;
        for (e, o) in es.iter().zip(&offs) { central(&mut v, e, *o); }
        let size = v.len() as u64 - cd;
        let zp = v.len();
        le32(&mut v, 0x06064b50); le64(&mut v, 44); le16(&mut v, 45); le16(&mut v, 45); le32(&mut v, 0); le32(&mut v, 0);
        le64(&mut v, es.len() as u64); le64(&mut v, es.len() as u64); le64(&mut v, size); le64(&mut v, cd);
        le32(&mut v, 0x07064b50); le32(&mut v, 0); le64(&mut v, zp as u64); le32(&mut v, 1);
        end(&mut v, es.len() as u16, size as u32, cd as u32, b"");
        tweak(&mut v, zp);
        v
    }

    #[test]
    fn zip64_end_records() {
        let b = with_zip64_end(&[stored(b"a", b"xx")], |_, _| {});
        let v = strict_check(&b, &StrictOpts::default()).expect("consistent ZIP64 end records");
        assert!(v.zip64 && v.gaps.is_empty());
        // locator off by one
        let b = with_zip64_end(&[stored(b"a", b"xx")], |v, zp| { v[zp + 56 + 8] += 1; });
        assert!(!errs(&b, &StrictOpts::default()).is_empty());
        // counts disagree
        let b = with_zip64_end(&[stored(b"a", b"xx")], |v, zp| { v[zp + 32] = 2; });
        assert!(has(&errs(&b, &StrictOpts::default()), "in total"));
        // size field not 44
        let b = with_zip64_end(&[stored(b"a", b"xx")], |v, zp| { v[zp + 4] = 45; });
        assert!(has(&errs(&b, &StrictOpts::default()), "size field 45"));
        // 32-bit directory offset disagrees with the ZIP64 one
        let b = with_zip64_end(&[stored(b"a", b"xx")], |v, _| { let p = v.len() - 6; v[p] ^= 1; });
        assert!(has(&errs(&b, &StrictOpts::default()), "directory offset"));
        // forced markers: legal, warned
        let b = with_zip64_end(&[stored(b"a", b"xx")], |v, _| { let p = v.len() - 14; for k in 0..12 { v[p + k] = 0xFF; } });
        let v = strict_check(&b, &StrictOpts::default()).expect("forced markers are legal");
        assert!(v.warnings.iter().any(|w| w.contains("forced ZIP64")));
    }

    #[test]
    fn false_locator_inside_the_directory() {
        // K-F (ii): Unix mode 0o45520 (attributes 0x4B50_0000) + header offset 0x0706 spell PK\x06\x07 in the tail of
        // the last central record, 20 bytes in front of the end record (the name is 14 bytes long)
        let first = stored(b"p", &[b' '; 0x0706 - 31]);
        let mut last = stored(b"fourteen-bytes", b"x");
        last.off32 = None;
        let mut b = archive(&[first, last], b"");
        let p = b.len() - 22 - 20;
        // external attributes of the last record: the two high bytes sit right in front of its header offset
        b[p - 2..p + 2].copy_from_slice(&[0x00, 0x00, 0x50, 0x4b]);
        if b[p + 2..p + 6] == [0x06, 0x07, 0x00, 0x00] {
            let r = strict_parse(&b, &StrictOpts::default());
            assert!(r.errors.is_empty(), "{:?}", r.errors);
            assert!(r.warnings.iter().any(|w| w.contains("false ZIP64 locator signature")));
        } else {
            panic!("the test archive does not place the second header at 0x0706: {:02x?}", &b[p - 2..p + 6]);
        }
    }

    #[test]
    fn wrong_utf8_flag() {
        let e = stored("caf\u{e9}".as_bytes(), b"x");
        let b = archive(&[e], b"");
        assert!(has(&errs(&b, &StrictOpts::default()), "wrong UTF-8 flag"));
        assert!(strict_check(&b, &StrictOpts::foreign()).is_ok());
        assert!(strict_check(&b, &StrictOpts { utf8_from: 1, ..Default::default() }).is_ok());
        let mut e = stored("caf\u{e9}".as_bytes(), b"x");
        e.flags = 0x0800;
        assert!(strict_check(&archive(&[e], b""), &StrictOpts::default()).is_ok());
        let mut e = stored(b"plain", b"x");
        e.flags = 0x0800;
        assert!(has(&errs(&archive(&[e], b""), &StrictOpts::default()), "wrong UTF-8 flag"));
        let mut e = stored(&[b'a', 0xff], b"x");
        e.flags = 0x0800;
        assert!(has(&errs(&archive(&[e], b""), &StrictOpts::default()), "not valid UTF-8"));
    }

    #[test]
    fn local_central_disagreement() {
        // name differs
        let mut v = vec![];
        let a = stored(b"a", b"xx");
        local(&mut v, &a);
        let cd = v.len() as u32;
        central(&mut v, &stored(b"b", b"xx"), 0);
        let size = v.len() as u32 - cd;
        end(&mut v, 1, size, cd, b"");
        assert!(has(&errs(&v, &StrictOpts::default()), "local name"));
        // flags / crc / sizes differ
        let mut v = vec![];
        local(&mut v, &a);
        let cd = v.len() as u32;
        let mut c = stored(b"a", b"xy");
        c.flags = 1;
        central(&mut v, &c, 0);
        let size = v.len() as u32 - cd;
        end(&mut v, 1, size, cd, b"");
        let e = errs(&v, &StrictOpts::default());
        assert!(has(&e, "bit 0") && has(&e, "local crc"), "{e:?}");
    }

    #[test]
    fn data_descriptor_and_local_zip64() {
        // bit 3: zero fields in the local header, signed 32-bit descriptor behind the data
        let content = b"descriptor";
        let crc = crc32fast::hash(content);
        for form in 0..4 {
            let mut v = vec![];
            le32(&mut v, 0x04034b50); le16(&mut v, 20); le16(&mut v, 8); le16(&mut v, 0); le16(&mut v, 0x6000); le16(&mut v, 0x5821);
            le32(&mut v, 0); le32(&mut v, 0); le32(&mut v, 0); le16(&mut v, 1); le16(&mut v, 0);
            v.push(b'a'); v.extend_from_slice(content);
            if form & 1 == 0 { le32(&mut v, 0x08074b50); }
            le32(&mut v, crc);
            if form & 2 == 0 { le32(&mut v, 10); le32(&mut v, 10); } else { le64(&mut v, 10); le64(&mut v, 10); }
            let cd = v.len() as u32;
            let mut c = stored(b"a", content);
            c.flags = 8;
            central(&mut v, &c, 0);
            let size = v.len() as u32 - cd;
            end(&mut v, 1, size, cd, b"");
            let view = strict_check(&v, &StrictOpts::default()).expect("descriptor form");
            assert!(view.gaps.is_empty(), "form {form}: {:?}", view.gaps);
            assert_eq!(view.entries[0].descriptor_len, [16, 12, 24, 20][form]);
            // descriptor missing
            let mut w = v.clone();
            w[31 + 10 + if form & 1 == 0 { 4 } else { 0 }] ^= 0x55;
            assert!(has(&errs(&w, &StrictOpts::default()), "no data descriptor"));
        }
        // local ZIP64: both slots the marker, 16-byte record with both sizes; the central record small
        let mut v = vec![];
        le32(&mut v, 0x04034b50); le16(&mut v, 45); le16(&mut v, 0); le16(&mut v, 0); le16(&mut v, 0x6000); le16(&mut v, 0x5821);
        le32(&mut v, crc); le32(&mut v, 0xFFFF_FFFF); le32(&mut v, 0xFFFF_FFFF); le16(&mut v, 1); le16(&mut v, 20);
        v.push(b'a'); le16(&mut v, 1); le16(&mut v, 16); le64(&mut v, 10); le64(&mut v, 10);
        v.extend_from_slice(content);
        let cd = v.len() as u32;
        central(&mut v, &stored(b"a", content), 0);
        let size = v.len() as u32 - cd;
        end(&mut v, 1, size, cd, b"");
        assert!(strict_check(&v, &StrictOpts::default()).is_ok());
        let mut w = v.clone();
        w[31 + 4] = 11;   // uncompressed size in the local ZIP64 record
        assert!(has(&errs(&w, &StrictOpts::default()), "local sizes"));
    }

    /// Differential test against the harness's independent BUILDER (used here only as a producer of inputs):
    /// every well-formed foreign layout it lays out - prefix, gaps, all four descriptor forms, forced ZIP64
    /// subsets, local ZIP64 records, forced ZIP64 end records, trailing bytes, foreign extra records - must be
    /// accepted, and the view must report what was laid out.  Guards against false alarms of the parser.
    #[test]
    fn accepts_what_the_independent_builder_lays_out() {
        let mut zip64_ends = 0;
        let mut descriptors = 0;
        for i in 0..3000u64 {
            let mut r = crate::prng::Rng::new(7, "strict.test", i);
            let (l, _) = crate::streams::read::rand_layout(&mut r);
            let b = crate::mkzip::build(&l);
            let o = StrictOpts { prefix: l.prefix.len() as u64, allow_trailing: !l.trailing.is_empty(), utf8_contract: false, ..Default::default() };
            let v = match strict_check(&b.bytes, &o) { Ok(v) => v, Err(e) => panic!("layout {i}: {e:?}") };
            assert_eq!(v.entries.len(), l.entries.len(), "layout {i}");
            assert_eq!(v.comment, l.comment, "layout {i}");
            assert_eq!(v.cd_offset, b.cd_offset, "layout {i}");
            assert_eq!(v.end_offset, b.eocd_offset, "layout {i}");
            assert_eq!(v.zip64, l.zip64_eocd, "layout {i}");
            if v.zip64 { zip64_ends += 1; }
            let mut dead = l.prefix.len() + l.gap_before_cd.len() + l.trailing.len();
            for (k, (e, w)) in v.entries.iter().zip(l.entries.iter()).enumerate() {
                assert_eq!(e.name, w.name, "layout {i} entry {k}");
                assert_eq!((e.method, e.crc, e.compressed_size, e.uncompressed_size), (w.method, w.crc, w.data.len() as u64, w.usize_), "layout {i} entry {k}");
                assert_eq!((e.dos_time, e.dos_date, e.external_attrs, e.version_made_by), (w.time, w.date, w.ext_attrs, w.made_by), "layout {i} entry {k}");
                assert_eq!((e.header_offset, e.data_start), b.offsets[k], "layout {i} entry {k}");
                assert_eq!(e.comment, w.comment, "layout {i} entry {k}");
                let want_desc = match w.descriptor { crate::mkzip::Desc::None => 0, crate::mkzip::Desc::Sig32 => 16, crate::mkzip::Desc::NoSig32 => 12, crate::mkzip::Desc::Sig64 => 24, crate::mkzip::Desc::NoSig64 => 20 };
                // an empty entry's signed 64-bit descriptor also reads as a 32-bit one followed by zeros; the longest
                // form that fits before the next record is taken, so the lengths agree
                assert_eq!(e.descriptor_len, want_desc, "layout {i} entry {k}");
                if want_desc > 0 { descriptors += 1; }
                assert!(e.decoded.is_some(), "layout {i} entry {k}");
                dead += w.gap_before.len();
            }
            assert_eq!(v.dead_bytes, dead as u64, "layout {i}");
        }
        assert!(zip64_ends > 100 && descriptors > 500);
    }

    #[test]
    fn never_panics_on_noise() {
        let base = with_zip64_end(&[stored(b"a", b"xx"), stored(b"b", b"yyy")], |_, _| {});
        let mut s = 0x1234_5678_9abc_def0u64;
        for _ in 0..4000 {
            let mut b = base.clone();
            for _ in 0..3 {
                s ^= s << 13; s ^= s >> 7; s ^= s << 17;
                let p = (s % b.len() as u64) as usize;
                b[p] = (s >> 32) as u8;
            }
            s ^= s << 13; s ^= s >> 7; s ^= s << 17;
            if s % 5 == 0 { b.truncate((s >> 8) as usize % (b.len() + 1)); }
            let _ = strict_parse(&b, &StrictOpts::default());
            let _ = strict_parse(&b, &StrictOpts { allow_trailing: true, prefix: s % 3, ..Default::default() });
        }
    }
}
