use std::collections::BTreeMap;
use std::fmt::Write as _;

pub fn hex(bs: &[u8]) -> String {
    if bs.is_empty() {
        return "-".to_string();
    }
    let mut s = String::with_capacity(bs.len() * 2);
    for b in bs {
        write!(s, "{:02x}", b).unwrap();
    }
    s
}

pub fn unhex(s: &str) -> Option<Vec<u8>> {
    if s == "-" {
        return Some(vec![]);
    }
    if s.len() % 2 != 0 {
        return None;
    }
    let b = s.as_bytes();
    let mut out = Vec::with_capacity(b.len() / 2);
    for i in (0..b.len()).step_by(2) {
        let h = (b[i] as char).to_digit(16)?;
        let l = (b[i + 1] as char).to_digit(16)?;
        out.push((h * 16 + l) as u8);
    }
    Some(out)
}

/// `op k=v k=v` → (op, map)
pub fn parse_line(line: &str) -> (String, BTreeMap<String, String>) {
    let mut it = line.trim().split(' ');
    let op = it.next().unwrap_or("").to_string();
    let mut m = BTreeMap::new();
    for kv in it {
        if kv.is_empty() {
            continue;
        }
        match kv.split_once('=') {
            Some((k, v)) => m.insert(k.to_string(), v.to_string()),
            None => m.insert(kv.to_string(), String::new()),
        };
    }
    (op, m)
}

pub fn get_u64(m: &BTreeMap<String, String>, k: &str) -> Option<u64> {
    m.get(k)?.parse().ok()
}
pub fn get_i64(m: &BTreeMap<String, String>, k: &str) -> Option<i64> {
    m.get(k)?.parse().ok()
}
pub fn get_hex(m: &BTreeMap<String, String>, k: &str) -> Option<Vec<u8>> {
    unhex(m.get(k)?)
}

pub fn json_str(s: &str) -> String {
    let mut o = String::from("\"");
    for c in s.chars() {
        match c {
            '"' => o.push_str("\\\""),
            '\\' => o.push_str("\\\\"),
            '\n' => o.push_str("\\n"),
            '\r' => o.push_str("\\r"),
            '\t' => o.push_str("\\t"),
            c if (c as u32) < 0x20 => {
                write!(o, "\\u{:04x}", c as u32).unwrap();
            }
            c => o.push(c),
        }
    }
    o.push('"');
    o
}

/// Run a closure, mapping a panic to `Err(message)`.
pub fn catch<T>(f: impl FnOnce() -> T + std::panic::UnwindSafe) -> Result<T, String> {
    match std::panic::catch_unwind(f) {
        Ok(v) => Ok(v),
        Err(e) => {
            let msg = if let Some(s) = e.downcast_ref::<&str>() {
                s.to_string()
            } else if let Some(s) = e.downcast_ref::<String>() {
                s.clone()
            } else {
                "panic".to_string()
            };
            Err(msg)
        }
    }
}

pub fn io_kind(k: std::io::ErrorKind) -> &'static str {
    use std::io::ErrorKind::*;
    match k {
        UnexpectedEof => "eof",
        Other => "other",
        BrokenPipe => "brokenpipe",
        InvalidData => "invaliddata",
        InvalidInput => "invalidinput",
        WriteZero => "writezero",
        ConnectionAborted => "injected",
        Interrupted => "interrupted",
        _ => "other",
    }
}

pub fn zerr_class(e: &zip::result::ZipError) -> String {
    use zip::result::ZipError::*;
    match e {
        Io(e) => format!("err io:{}", io_kind(e.kind())),
        InvalidArchive(_) => "err invalid".into(),
        UnsupportedArchive(m) => {
            if *m == zip::result::ZipError::PASSWORD_REQUIRED {
                "err passwordrequired".into()
            } else {
                "err unsupported".into()
            }
        }
        FileNotFound => "err notfound".into(),
    }
}

/// io::Error that wraps a ZipError (`From<ZipError> for io::Error`) or a plain one.
pub fn ioerr_class(e: &std::io::Error) -> String {
    format!("err io:{}", io_kind(e.kind()))
}
