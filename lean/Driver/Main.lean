import Driver.Proto
import Driver.Ops
/- `zvdriver`: reads one request per line on stdin, writes one response per line on stdout. -/

open Driver

partial def loop (h : IO.FS.Stream) (out : IO.FS.Stream) : IO Unit := do
  let line ← h.getLine
  if line.isEmpty then return ()
  let (op, args) := parseLine line
  if op.isEmpty then
    out.putStrLn "bad-op"
  else
    out.putStrLn (Driver.dispatch op args)
  loop h out

def main : IO Unit := do
  let stdin ← IO.getStdin
  let stdout ← IO.getStdout
  loop stdin stdout
  stdout.flush
