import Driver.Proto
import Driver.Ops.Dos
import Driver.Ops.Read
import Driver.Ops.Write
import Driver.Ops.Clones
import Driver.Ops.Paths
import Driver.Ops.Text
import Driver.Ops.Zc
import Driver.Ops.Align
import Driver.Ops.Z64
import Driver.Ops.Layers
import Driver.Ops.Aes
import Driver.Ops.Fault
import Driver.Ops.Spec
import Driver.Ops.Fs
/- Dispatch table: op-name prefix → handler (model evaluation → canonical response line).
   One file per stream under `Driver/Ops/`; register it here. -/

namespace Driver

def handlers : List (String × (String → Args → Option String)) :=
  [ ("dos.", opDos),
    ("read.", opRead),
    ("write.", opWrite),
    ("clones.", opClones),
    ("paths.", opPaths),
    ("z64.", opZ64),
    ("fault.", opFault),
    ("text.", opText),
    ("zc.", opZc),
    ("align.", opAlign),
    ("layers.", opLayers),
    ("aes.", opAes),
    ("spec.", opSpec),
    ("fs.", opFs) ]

def dispatch (op : String) (a : Args) : String :=
  match handlers.find? (fun h => op.startsWith h.1) with
  | some h => (h.2 op a).getD "bad-op"
  | none => "bad-op"

end Driver
