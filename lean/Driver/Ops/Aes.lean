import Driver.Proto
import Driver.Ops.Read
import ZipVerif.Model.Aes
/- C16 ops: `aes.*`.  The cryptographic primitives are uninterpreted in the model; every op line
   carries the oracle tables (`kdf`, `ks`, `mac`) computed by the harness with the RustCrypto crates,
   and the driver instantiates `AesPrims` with look-ups into them. -/

namespace Driver
open ZipVerif ZipVerif.Model.Aes

def fnv64 (bs : Bytes) : UInt64 :=
  bs.foldl (fun h b => (h ^^^ b.toUInt64) * 0x100000001b3) 0xcbf29ce484222325

/-- bitwise CRC-32 (IEEE, reflected), incremental state = the running register -/
def crcStep (c : UInt32) (b : UInt8) : UInt32 :=
  let c := c ^^^ b.toUInt32
  let f (c : UInt32) : UInt32 := if c &&& 1 = 1 then (c >>> 1) ^^^ 0xEDB88320 else c >>> 1
  f (f (f (f (f (f (f (f c)))))))

def crcUpd (c : UInt32) (bs : Bytes) : UInt32 := bs.foldl crcStep c
def crcFin (c : UInt32) : UInt32 := c ^^^ 0xFFFFFFFF
def crcInit : UInt32 := 0xFFFFFFFF

structure Tables where
  kpw : Bytes
  ksalt : Bytes
  kdf : Bytes
  kkey : Bytes
  ks : Array Bytes      -- key stream, one 16-byte block per element (block `i` at index `i-1`)
  mkey : Bytes
  mh : UInt64
  mlen : Nat
  mac : Bytes

def Tables.prims (t : Tables) : AesPrims where
  pbkdf2 pw salt n := if pw = t.kpw ∧ salt = t.ksalt ∧ n = t.kdf.length then t.kdf else []
  block key inp :=
    if key = t.kkey ∧ inp.length = 16 then
      let c := fromLE inp
      if c = 0 then [] else (t.ks[c - 1]?).getD []
    else []
  hmac key msg := if key = t.mkey ∧ msg.length = t.mlen ∧ fnv64 msg = t.mh then t.mac else []

def blocksOf : Nat → Bytes → Array Bytes → Array Bytes
  | 0, _, acc => acc
  | f + 1, bs, acc => if bs.isEmpty then acc else blocksOf f (bs.drop 16) (acc.push (bs.take 16))

def getTables (a : Args) : Option Tables := do
  let kpw := (a.hex? "trypw").getD []
  let ksalt ← a.hex? "ksalt"
  let kdf ← a.hex? "kdf"
  let kkey ← a.hex? "kkey"
  let ks ← a.hex? "ks"
  let mkey ← a.hex? "mkey"
  let mh ← a.nat? "mh"
  let mlen ← a.nat? "mlen"
  let mac ← a.hex? "mac"
  some ⟨kpw, ksalt, kdf, kkey, blocksOf (ks.length / 16 + 1) ks #[], mkey, UInt64.ofNat mh, mlen, mac⟩

def modeOfBits : Nat → Option AesMode
  | 128 => some .aes128 | 192 => some .aes192 | 256 => some .aes256 | _ => none

def outClass {α} : Out α → String
  | .ok _ => "ok"
  | .err e => Out.className e
  | .panic _ => "panic"

/-- chunked CTR run: crypt `data` in pieces following the cyclic schedule -/
def ctrChunks (P : AesPrims) (key : Bytes) : Nat → List Nat → List Nat → CtrState → Bytes → Bytes →
    Option Bytes
  | 0, _, _, _, _, _ => none
  | f + 1, full, cur, st, data, acc =>
    if data.isEmpty then some acc else
    match cur with
    | [] => ctrChunks P key f full full st data acc
    | n :: rest =>
      match cryptInPlace P key st (data.take n) with
      | .ok (x, st') => ctrChunks P key f full rest st' (data.drop n) (acc ++ x)
      | _ => none

/-- Generic caller loop over a reader `step`: cyclic buffer sizes, stop at the first error or at
`Ok(0)` for a non-empty buffer. Returns per-call results (reversed), the bytes, and the reader. -/
def callerLoop {ρ} (step : ρ → Nat → Out Bytes × ρ) : Nat → List Nat → List Nat → ρ →
    List String → Bytes → (List String × Bytes × Option ZErr × Bool × ρ)
  | 0, _, _, r, log, acc => (log, acc, none, true, r)
  | f + 1, full, cur, r, log, acc =>
    match cur with
    | [] => callerLoop step f full full r log acc
    | n :: rest =>
      match step r n with
      | (.ok bs, r') =>
        if n > 0 ∧ bs.isEmpty then ("eof" :: log, acc, none, false, r')
        else callerLoop step f full rest r' (toString bs.length :: log) (acc ++ bs)
      | (.err e, r') => (("E:" ++ Out.className e) :: log, acc, some e, false, r')
      | (.panic _, r') => ("panic" :: log, acc, none, true, r')

def againStr {ρ} (step : ρ → Nat → Out Bytes × ρ) (r : ρ) : String :=
  match (step r 7).1 with
  | .ok bs => s!"ok{bs.length}"
  | .err e => Out.className e
  | .panic _ => "panic"

def fuelFor (n : Nat) (bufs : List Nat) : Nat := (n + 4) * (bufs.length + 1) + 8

def parseEntry (a : Args) : Option (Out ExtraSt) := do
  let cmethod ← a.nat? "cmethod"
  let extra ← a.hex? "extra"
  let csize ← a.nat? "csize"
  let usize ← a.nat? "usize"
  let st0 : ExtraSt := ⟨UInt64.ofNat usize, UInt64.ofNat csize, 0, false, none,
    Method.fromU16 (UInt16.ofNat cmethod)⟩
  some (parseEntryExtra st0 extra)

def showMethod : Method → String
  | .stored => "0" | .deflated => "8" | .bzip2 => "12" | .aes => "99" | .zstd => "93"
  | .unsupported v => toString v.toNat

def showAes : Option (AesMode × VendorVersion) → String
  | none => "none"
  | some (m, v) => s!"{m.keyLength * 8}/{match v with | .ae1 => 1 | .ae2 => 2}"

/-- `k` refills of the decoder's 32 KiB buffer; stops at the first error or at `Ok(0)`. -/
def pullFillsN {ρ} (step : ρ → Nat → Out Bytes × ρ) (fill : Nat) : Nat → ρ → Bytes → (Bytes × Option ZErr × Bool × ρ)
  | 0, r, acc => (acc, none, false, r)
  | k + 1, r, acc =>
    match step r fill with
    | (.ok bs, r') => if bs.isEmpty then (acc, none, false, r') else pullFillsN step fill k r' (acc ++ bs)
    | (.err e, r') => (acc, some e, false, r')
    | (.panic _, r') => (acc, none, true, r')

def pullFills {ρ} (step : ρ → Nat → Out Bytes × ρ) : Nat → ρ → Bytes → (Bytes × Option ZErr × Bool × ρ) :=
  pullFillsN step 32768

/-- The consumer APIs of the `aes.read` op. `loop` is the explicit `read` loop; `rte` (`read_to_end`),
`copy` (`io::copy`), `bytes` (the `bytes()` iterator) are std's provided loops over `ZipFile::read` and
reach the verdict of the loop; `exact` is `read_exact` of the declared size followed by a probe loop:
an error of the loop is its error, a clean end-of-file short of the declared size is `UnexpectedEof`. -/
def apiKnown (api : String) : Bool := ["loop", "rte", "copy", "exact", "bytes"].contains api

def apiOk (api : String) (usize : Nat) (out : Bytes) : String :=
  if api == "exact" ∧ out.length < usize then "open=ok file=ok read=err io:eof"
  else s!"open=ok file=ok read=ok len={out.length} h={(fnv64 out).toNat}"

def opAes (op : String) (a : Args) : Option String := do
  match op with
  | "aes.ctr" =>
    let key ← a.hex? "key"
    let data ← a.hex? "data"
    let ks ← a.hex? "ks"
    let chunks ← natList? (← a.get? "chunks")
    if chunks.all (· == 0) then some "bad-op" else
    let t : Tables := ⟨[], [], [], key, blocksOf (ks.length / 16 + 1) ks #[], [], 0, 0, []⟩
    match ctrChunks t.prims key (fuelFor data.length chunks) chunks chunks CtrState.new data [] with
    | some out => some s!"ok {toHex out}"
    | none => some "panic"
  | "aes.kat" =>
    -- Known-answer vector of a primitive (PBKDF2 / HMAC-SHA1 / the AES block function). The primitives
    -- are uninterpreted parameters of the model, so there is nothing to compute here: the PUBLISHED value
    -- carried by the op line is the reference, reflected so that the ordinary comparison (and the oracle)
    -- reports an implementation that computes anything else.
    let want ← a.hex? "want"
    let prim ← a.get? "prim"
    if prim == "pbkdf2" ∨ prim == "hmac" ∨ prim == "aes" then some s!"kat {toHex want}" else none
  | "aes.extra" =>
    match ← parseEntry a with
    | .ok st =>
      some s!"ok method={showMethod st.method} aes={showAes st.aesMode} csize={st.compressedSize.toNat} usize={st.uncompressedSize.toNat} large={st.largeFile}"
    | .err e => some (Out.className e)
    | .panic _ => some "panic"
  | "aes.layer" =>
    let mode ← modeOfBits (← a.nat? "bits")
    let csize ← a.nat? "csize"
    let body ← a.hex? "body"
    let pw ← a.hex? "trypw"
    let t ← getTables a
    let bufs ← natList? (← a.get? "bufs")
    let short ← natList? (← a.get? "short")
    if bufs.all (· == 0) then some "bad-op" else
    let P := t.prims
    let src : ListSrc := ⟨body.take csize, short⟩
    match (validate P listSrc mode (dataLength mode csize) src pw).1 with
    | .err e => some s!"v={Out.className e}"
    | .panic _ => some "v=panic"
    | .ok none => some "v=invalidpw"
    | .ok (some v) =>
      let step := fun (r : Valid ListSrc) n => Valid.read P listSrc r n
      let (log, out, _, _, r) := callerLoop step (fuelFor body.length bufs) bufs bufs v [] []
      some s!"v=ok r={",".intercalate log.reverse} len={out.length} h={(fnv64 out).toNat} again={againStr step r}"
  | "aes.read" =>
    let flag ← a.nat? "flag"
    let csize32 ← a.nat? "csize"
    let crc ← a.nat? "crc"
    let body ← a.hex? "body"
    let layout ← a.get? "layout"
    let trypw := if a.get? "trypw" == some "none" then none else a.hex? "trypw"
    let t ← getTables a
    let bufs ← natList? (← a.get? "bufs")
    if bufs.all (· == 0) then some "bad-op" else
    let api := (a.get? "api").getD "loop"
    let usize ← a.nat? "usize"
    if !apiKnown api ∨ (api == "exact" ∧ usize > 16777216) then some "bad-op" else
    if layout == "norm" ∧ csize32 > body.length then some "bad-op" else
    match ← parseEntry a with
    | .err e => some s!"open={Out.className e}"
    | .panic _ => some "open=panic"
    | .ok st =>
      let e : Entry := ⟨flag % 2 == 1, st.method, st.aesMode, st.compressedSize.toNat, UInt32.ofNat crc⟩
      let P := t.prims
      let src : ListSrc := ⟨body.take e.compressedSize, []⟩
      let opened : Out (Opened ListSrc) := match trypw with
        | none => (match byIndex P listSrc e src with
            | .ok r => .ok (.reader r) | .err er => .err er | .panic m => .panic m)
        | some p => byIndexDecrypt P listSrc e p src
      match opened with
      | .err er => some s!"open=ok file={Out.className er}"
      | .panic _ => some "open=ok file=panic"
      | .ok .invalidPassword => some "open=ok file=invalidpw"
      | .ok .zipCryptoPath => some "open=ok file=zipcrypto"
      | .ok (.reader (.plaintext _)) => some "open=ok file=plaintext"
      | .ok (.reader (.aes v ver)) =>
        match makeReaderFlag e.method (CryptoReader.aes v ver) with
        | .panic _ => some "open=ok file=ok read=panic"
        | .err er => some s!"open=ok file=ok read={Out.className er}"
        | .ok ae2 =>
          let aesStep := fun (r : Valid ListSrc) n => Valid.read P listSrc r n
          let c0 : CrcSt UInt32 := ⟨crcInit, e.crc32, ae2⟩
          match e.method with
          | .stored =>
            -- `ZipFile::read` = `entryRead` with the pass-through decoder, `finish_crypto` is a no-op
            let step := fun (r : EntrySt ListSrc Unit UInt32) n =>
              entryRead P listSrc storedDec false crcUpd crcFin r n
            let (_, out, er, pan, r) := callerLoop step (fuelFor body.length bufs) bufs bufs ⟨(), v, c0⟩ [] []
            if pan then some "open=ok file=ok read=panic" else
            if api != "loop" then
              match er with
              | some er => some s!"open=ok file=ok read={Out.className er}"
              | none => some (apiOk api usize out)
            else
            let ag := againStr step r
            match er with
            | some er => some s!"open=ok file=ok read={Out.className er} after={out.length} again={ag}"
            | none => some s!"open=ok file=ok read=ok len={out.length} h={(fnv64 out).toNat} again={ag}"
          | .deflated =>
            -- flate2's `read::DeflateDecoder` pulls its input through a 32 KiB `BufReader`, one inner
            -- `read(32768)` per refill; inflate itself is a table (`zres`, `zc`, `zout`) computed by
            -- the harness with the low-level `Decompress` over the decrypted stream.
            let zres ← a.get? "zres"
            let zc ← a.nat? "zc"
            let zl ← a.nat? "zl"
            let zh ← a.nat? "zh"
            let zout ← a.hex? "zout"
            let fills := if zres == "more" then zl / 32768 + 2 else zc / 32768 + 1
            let (got, er, pan, v1) := pullFills aesStep fills v []
            if pan then some "open=ok file=ok read=panic" else
            match er with
            | some er => some s!"open=ok file=ok read={Out.className er}"
            | none =>
              -- every pulled byte must be a prefix of the stream the table was computed for
              if zres == "more" then
                if got.length = zl ∧ (fnv64 got).toNat = zh then some "open=ok file=ok read=err io:eof"
                else some "open=ok file=ok read=unknown-inflate"
              else if got.length < zc ∨ (got.length ≥ zl ∧ (fnv64 (got.take zl)).toNat ≠ zh) then
                some "open=ok file=ok read=unknown-inflate"
              else if zres == "corrupt" then some "open=ok file=ok read=err io:invalidinput"
              else if zres == "end" then
                -- the decoder reports end-of-stream: the CRC layer's check comes first (`?`), then
                -- `finish_crypto` drains the AES reader so that its code check happens
                if crcFin (crcUpd crcInit zout) ≠ e.crc32 ∧ !ae2 then
                  some s!"open=ok file=ok read=err io:other"
                else match (finishCrypto P listSrc true v1).1 with
                  | .err er => some s!"open=ok file=ok read={Out.className er}"
                  | .panic _ => some "open=ok file=ok read=panic"
                  | .ok _ => some (apiOk api usize zout)
              else some "open=ok file=ok read=unknown-inflate"
          | .bzip2 | .zstd =>
            -- bzip2's / zstd's reader adapters pull their input through a `BufReader` of `zfill` bytes;
            -- the decoder itself is a table computed by the harness with the codec crate's own adapter over
            -- the decrypted stream: `zn` refills, then end-of-stream with output `zout`, or an error.
            let zres ← a.get? "zres"
            if zres == "none" then some "open=ok file=ok read=unmodelled" else
            let zn ← a.nat? "zn"
            let zfill ← a.nat? "zfill"
            let zpl ← a.nat? "zpl"
            let zph ← a.nat? "zph"
            let zout ← a.hex? "zout"
            let (got, er, pan, v1) := pullFillsN aesStep zfill zn v []
            if pan then some "open=ok file=ok read=panic" else
            match er with
            | some er => some s!"open=ok file=ok read={Out.className er}"
            | none =>
              -- what was pulled must be the prefix of the stream the table was computed for
              if got.length ≠ zpl ∨ (fnv64 got).toNat ≠ zph then some "open=ok file=ok read=unknown-codec"
              else if zres == "end" then
                if crcFin (crcUpd crcInit zout) ≠ e.crc32 ∧ !ae2 then
                  some s!"open=ok file=ok read=err io:other"
                else match (finishCrypto P listSrc true v1).1 with
                  | .err er => some s!"open=ok file=ok read={Out.className er}"
                  | .panic _ => some "open=ok file=ok read=panic"
                  | .ok _ => some (apiOk api usize zout)
              else if zres.startsWith "err:" then
                some s!"open=ok file=ok read={Out.className (parseErrClass (zres.drop 4).toString)}"
              else some "open=ok file=ok read=unknown-codec"
          | _ => some "open=ok file=ok read=unmodelled"
  | _ => none

end Driver
