import Driver.Proto
import ZipVerif.Model.Align
/- C17 ops: `align.*` -/

namespace Driver
open ZipVerif ZipVerif.Model.Align

def alignOutClass {α} : Out α → String
  | .ok _ => "ok"
  | .err e => Out.className e
  | .panic _ => "panic"

/-- Canonical rendering of a local extra field: `za:<n>` for the padding record. -/
def alignShowLx (x : Bytes) : String :=
  match x with
  | 0x7a :: 0x61 :: c :: d :: rest =>
    let n := (mk16 c d).toNat
    if rest.length == n && rest.all (· == 0) then s!"za:{n}" else toHex x
  | _ => toHex x

def alignBool? (a : Args) (k : String) : Option Bool :=
  match a.nat? k with
  | some 0 => some false
  | some 1 => some true
  | _ => none

/-- Stored size of the entry the stream writes (`CONTENT` in align.rs); `clen=` overrides it. -/
def alignContentLen (a : Args) : UInt64 := UInt64.ofNat ((a.nat? "clen").getD 26)

/-- Initial sink position `off` (default 0) and the limits the harness runs. -/
def alignOff? (a : Args) (pre : Nat) : Option Nat :=
  let off := (a.nat? "off").getD 0
  if off > 1099511627776 || pre > 1048576 then none else some off

def opAlign (op : String) (a : Args) : Option String := do
  match op with
  | "align.start" =>
    let pre ← a.nat? "pre"; let nl ← a.nat? "name_len"; let large ← alignBool? a "large"; let al ← a.nat? "a"
    if al > 65535 || nl > 70000 || (0 < pre && pre < 31) then some "bad-op" else
    match alignOff? a pre with
    | none => some "bad-op"
    | some off =>
    let hs := UInt64.ofNat (off + pre)
    match alignedPlacement hs nl large (UInt16.ofNat al) with
    | .ok r =>
      -- reader: data_start from the local header's own length fields; content round trip and the
      -- raw bytes at data_start are the archive-level model's business (printed as constants)
      match readerDataStart hs (UInt16.ofNat nl) r.xlenField with
      | .ok ds =>
        let rt := if ds == r.dataStart then 1 else 0
        -- what `extra_data()` returns: the central record's whole extra field
        let st : EntrySt := { EntrySt.init hs nl large with extraField := r.centralExtra }
        match st.centralExtraAll (alignContentLen a) (alignContentLen a) with
        | .ok cx =>
          some s!"ok ret={r.ret.toNat} ds={ds.toNat} xlen={r.xlenField.toNat} lx={alignShowLx r.localExtra} cx={toHex cx} rt={rt} raw={rt}"
        | .err e => some s!"{Out.className e} at=finish"
        | .panic _ => some "panic"
      | _ => some "panic"
    | .err e => some (Out.className e)
    | .panic _ => some "panic"
  | "align.validate" =>
    let large ← alignBool? a "large"; let x ← a.hex? "extra"
    let api := alignOutClass (((EntrySt.init 0 1 large).write x).endExtraData)
    let hook := alignOutClass (validateExtraData large x)
    some s!"api={api} hook={hook}"
  | "align.extra" =>
    let large ← alignBool? a "large"; let lo ← a.hex? "local"; let ce ← a.hex? "central"
    let mode ← match a.get? "mode" with
      | some "shared" => some ExtraMode.shared
      | some "split" => some ExtraMode.split
      | some "centralonly" => some ExtraMode.centralOnly
      | _ => none
    match alignOff? a 0 with
    | none => some "bad-op"
    | some off =>
    let hs := UInt64.ofNat off
    match extraLocalPhase hs 1 large mode lo with
    | .err e => some s!"{Out.className e} at=local"
    | .panic _ => some "panic"
    | .ok st1 =>
      match (if mode = .shared then Out.ok st1 else extraCentralPhase st1 ce) with
      | .err e => some s!"{Out.className e} at=central"
      | .panic _ => some "panic"
      | .ok st =>
        -- `finish`: the central record must hold its own ZIP64 record and the central extra data
        match st.centralExtraAll (alignContentLen a) (alignContentLen a) with
        | .err e => some s!"{Out.className e} at=finish"
        | .panic _ => some "panic"
        | .ok cx =>
        match readerDataStart hs 1 st.xlenField with
        | .ok ds =>
          let rt := if ds == st.dataStart then 1 else 0
          some s!"ok ds={ds.toNat} xlen={st.xlenField.toNat} lx={toHex st.localExtra} cx={toHex cx} rt={rt} raw={rt}"
        | _ => some "panic"
  | _ => none

end Driver
