import Driver.Proto
import ZipVerif.Model.Clones
/- C20 ops: `clones.*`

`clones.run k=<handles> zip=<archive hex> data=<decoded content per entry, comma separated hex>
            script=<h:op[:arg],…>`
  runs the call-level schedule `script` (each item = one whole API call of handle `h`, i.e. its atomic
  steps back to back — the granularity available to a single-threaded harness) on the model and prints
  `opens:<number of successful opens>` and the observation of every call, `|`-separated.  The immutable entry table is read off the archive's
  central directory by the small well-formed-archive parser below (driver glue, not part of the model:
  it only has to handle the archives the `clones` stream writes; anything else is `bad-archive`).
`clones.threads …` is answered `ok`: the multi-threaded stress run is an observation of the real
  implementation under OS schedules, not a correspondence with the model. -/

namespace Driver
open ZipVerif ZipVerif.Model.Clones

namespace Clones

def u16At (b : Bytes) (o : Nat) : Option Nat := (rd16 (b.drop o)).map (·.1.toNat)
def u32At (b : Bytes) (o : Nat) : Option Nat := (rd32 (b.drop o)).map (·.1.toNat)

def centralEntries (b : Bytes) (data : List Bytes) : Nat → Nat → Nat → Option (List Entry × Nat)
  | 0, o, _ => some ([], o)
  | fuel + 1, o, idx => do
    let sig ← u32At b o
    if sig != 0x02014b50 then none
    let flags ← u16At b (o + 8)
    if flags % 2 == 1 then none            -- encrypted entries are outside the model's scope
    let method ← u16At b (o + 10)
    let crc ← u32At b (o + 16)
    let csize ← u32At b (o + 20)
    let usize ← u32At b (o + 24)
    let nl ← u16At b (o + 28)
    let el ← u16At b (o + 30)
    let cl ← u16At b (o + 32)
    let lho ← u32At b (o + 42)
    if csize == 0xffffffff || usize == 0xffffffff || lho == 0xffffffff then none  -- no ZIP64 here
    let name := (b.drop (o + 46)).take nl
    if name.length != nl then none
    let e : Entry :=
      { name := name, headerStart := UInt64.ofNat lho, compSize := UInt64.ofNat csize,
        size := UInt64.ofNat usize, crc := UInt32.ofNat crc, stored := method == 0,
        decodable := [0, 8, 12, 93].contains method, content := (data[idx]?).getD [] }
    let (rest, o') ← centralEntries b data fuel (o + 46 + nl + el + cl) (idx + 1)
    some (e :: rest, o')

/-- Entry table of a well-formed archive without comment, ZIP64 or prepended data. -/
def parseArch (b : Bytes) (data : List Bytes) : Option Arch := do
  if b.length < 22 then none
  let eo := b.length - 22
  let sig ← u32At b eo
  if sig != 0x06054b50 then none
  let cnt ← u16At b (eo + 10)
  let cdSize ← u32At b (eo + 12)
  let cdOff ← u32At b (eo + 16)
  if cdOff + cdSize != eo then none
  let (es, o') ← centralEntries b data cnt cdOff 0
  if o' != eo then none
  some { bytes := b, entries := es }

def parseCall (s : String) : Option (Nat × Op) :=
  match s.splitOn ":" with
  | [h, "open", i] => do some (← h.toNat?, .openIdx (← i.toNat?))
  | [h, "openraw", i] => do some (← h.toNat?, .openRaw (← i.toNat?))
  | [h, "read", n] => do some (← h.toNat?, .read (← n.toNat?))
  | [h, "ds"] => do some (← h.toNat?, .dataStart)
  | [h, "name"] => do some (← h.toNat?, .info)
  | [h, "close"] => do some (← h.toNat?, .close)
  | [h, "len"] => do some (← h.toNat?, .len)
  | _ => none

def showObs : Obs → String
  | .opened => "ok"
  | .openErr e => Out.className e
  | .openPanic => "panic"
  | .bytes b => s!"b:{toHex b}"
  | .dataStart v => s!"ds:{v.toNat}"
  | .info n sz crc hs => s!"name:{toHex n},size:{sz.toNat},crc:{crc.toNat},hs:{hs.toNat}"
  | .closed => "closed"
  | .len n => s!"len:{n}"
  | .noFile => "nofile"
  | .busy => "busy"
  | .noCell => "nocell"

/-- Run the call-level schedule; collect the observation each call produced. -/
def runCalls (A : Arch) : Sys → List Nat → List String → List String
  | _, [], acc => acc.reverse
  | s, h :: rest, acc =>
    let s' := Sys.call A s h
    let o := match s'.hs[h]? with
      | some H => (match H.obs.getLast? with | some o => showObs o | none => "none")
      | none => "nohandle"
    runCalls A s' rest (o :: acc)

end Clones

def opClones (op : String) (a : Args) : Option String := do
  match op with
  | "clones.run" =>
    let k ← a.nat? "k"
    let zip ← a.hex? "zip"
    let dataS ← a.get? "data"
    let data ← (if dataS == "" then some [] else (dataS.splitOn ",").mapM parseHex)
    let scriptS ← a.get? "script"
    let calls ← (if scriptS == "-" || scriptS == "" then some [] else (scriptS.splitOn ",").mapM Clones.parseCall)
    match Clones.parseArch zip data with
    | none => some "bad-archive"
    | some A =>
      if calls.any (fun c => c.1 ≥ k) then none else
      let scripts := (List.range k).map fun h => (calls.filter (·.1 == h)).map (·.2)
      let out := Clones.runCalls A (Sys.init A scripts) (calls.map (·.1)) []
      let opens := (out.filter (· == "ok")).length
      some s!"opens:{opens} {if out.isEmpty then "-" else "|".intercalate out}"
  | "clones.threads" => some "ok"
  | _ => none

end Driver
